// Independent scanner for Lua-style long-bracket literals with customisable characters.
// Written from the Lua 5.3 reference manual, section 3.1 ("Lexical Conventions"):
//
//   "an opening long bracket of level n [is] an opening square bracket followed by n equal signs
//    followed by another opening square bracket ... A closing long bracket is defined similarly ...
//    A long literal starts with an opening long bracket of any level and ends at the first closing
//    long bracket of the same level.  It can contain any text except a closing bracket of the same
//    level.  Literals in this bracketed form ... ignore long brackets of any other level ...
//    when the opening long bracket is immediately followed by a newline, the newline is not
//    included in the string."
//
// and from the description of tao::pegtl::raw_string< Open, Marker, Close, Contents... >: the three
// characters are customisable; the "newline" is one end-of-line as defined by the end-of-line policy
// of the input; the optional Contents... are rules "that the content must match": the content is
// consumed by repeated matches of seq< Contents... > until a position is reached where the closing
// bracket stands (contrib_raw_string.cpp: raw_string< '[', '=', ']', alpha, digit > accepts
// "[===[a0a1a2a3]===]" and rejects "[=[a]=]").
//
// No PEGTL include.  Style: whole-string index arithmetic and std::string_view::find on the complete
// closing bracket, instead of a cursor that probes for the closing bracket position by position.
#pragma once
#include <cstddef>
#include <string>
#include <string_view>

namespace oracle
{
   enum class eol_policy { lf, cr, crlf, lf_crlf, cr_crlf };

   inline const char* eol_policy_name( eol_policy p )
   {
      switch( p ) {
         case eol_policy::lf: return "lf";
         case eol_policy::cr: return "cr";
         case eol_policy::crlf: return "crlf";
         case eol_policy::lf_crlf: return "lf_crlf";
         case eol_policy::cr_crlf: return "cr_crlf";
      }
      return "?";
   }

   // Length of one line ending at the front of `s` under the policy (0: there is none).
   inline std::size_t eol_length( std::string_view s, eol_policy p )
   {
      const bool lf = s.substr( 0, 1 ) == "\n";
      const bool cr = s.substr( 0, 1 ) == "\r";
      const bool crlf = s.substr( 0, 2 ) == "\r\n";
      switch( p ) {
         case eol_policy::lf: return lf ? 1 : 0;
         case eol_policy::cr: return cr ? 1 : 0;
         case eol_policy::crlf: return crlf ? 2 : 0;
         case eol_policy::lf_crlf: return crlf ? 2 : ( lf ? 1 : 0 );
         case eol_policy::cr_crlf: return crlf ? 2 : ( cr ? 1 : 0 );
      }
      return 0;
   }

   // Model of the optional Contents... rules, restricted to what the driver instantiates: a sequence
   // of `width` single-character classes (width 0: no content rules at all).  One round of the
   // content rules consumes exactly `width` characters, character i of a round must be in cls[ i ].
   struct content_model
   {
      unsigned width = 0;
      bool ( *cls[ 4 ] )( char ) = { nullptr, nullptr, nullptr, nullptr };
   };

   enum class lb_outcome { no_open, unterminated, content_rejected, matched };

   struct lb_result
   {
      bool matched = false;
      std::size_t consumed = 0;       // 0 unless matched
      std::size_t content_begin = 0;  // meaningful when matched
      std::size_t content_end = 0;
      // diagnostics for coverage cells and for the cursor check
      lb_outcome outcome = lb_outcome::no_open;
      bool opened = false;            // the input starts with a complete opening long bracket
      std::size_t level = 0;          // when opened
      std::size_t body = 0;           // when opened: index behind the opening bracket and the skipped line ending
      std::size_t skipped = 0;        // when opened: length of the skipped line ending (0, 1 or 2)
   };

   inline lb_result lua_longbracket( std::string_view in, char Open, char Marker, char Close, eol_policy pol, const content_model& cm = content_model() )
   {
      lb_result r;
      // opening long bracket of level n:  Open  n x Marker  Open
      if( in.empty() || in.front() != Open ) return r;
      // (Marker != Open is assumed: raw_string does not compile otherwise)
      const std::size_t second = in.find_first_not_of( Marker, 1 );
      if( second == std::string_view::npos || in[ second ] != Open ) return r;
      r.opened = true;
      r.level = second - 1;
      r.skipped = eol_length( in.substr( second + 1 ), pol );
      r.body = second + 1 + r.skipped;

      // closing long bracket of the same level, as one string
      std::string closing( 1, Close );
      closing.append( r.level, Marker );
      closing.push_back( Close );

      if( cm.width == 0 ) {
         const std::size_t at = in.find( closing, r.body );
         if( at == std::string_view::npos ) {
            r.outcome = lb_outcome::unterminated;
            return r;
         }
         r.matched = true;
         r.outcome = lb_outcome::matched;
         r.content_begin = r.body;
         r.content_end = at;
         r.consumed = at + closing.size();
         return r;
      }
      // With content rules the closing bracket is looked for between rounds only, i.e. at distances
      // from `body` that are multiples of the round width; the content ends at the first such
      // occurrence, provided every round before it is acceptable.
      std::size_t at = in.find( closing, r.body );
      while( at != std::string_view::npos && ( at - r.body ) % cm.width != 0 ) at = in.find( closing, at + 1 );
      const std::size_t limit = ( at == std::string_view::npos ) ? in.size() : at;
      for( std::size_t i = r.body; i < limit; ++i ) {
         if( !cm.cls[ ( i - r.body ) % cm.width ]( in[ i ] ) ) {
            r.outcome = lb_outcome::content_rejected;
            return r;
         }
      }
      if( at == std::string_view::npos ) {
         r.outcome = lb_outcome::unterminated;
         return r;
      }
      r.matched = true;
      r.outcome = lb_outcome::matched;
      r.content_begin = r.body;
      r.content_end = at;
      r.consumed = at + closing.size();
      return r;
   }

}  // namespace oracle
