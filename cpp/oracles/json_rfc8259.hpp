// Independent recogniser for RFC 8259 JSON texts, used as oracle for C14. No PEGTL include.
//
// Written from the ABNF of RFC 8259 (sections 2-7), as an index-based scanner with an explicit
// container stack (no recursion, no combinators), i.e. in a different style from the PEG
// transcription it judges:
//
//   JSON-text = ws value ws
//   ws        = *( %x20 / %x09 / %x0A / %x0D )
//   value     = false / null / true / object / array / number / string
//   object    = begin-object [ member *( value-separator member ) ] end-object
//   member    = string name-separator value
//   array     = begin-array [ value *( value-separator value ) ] end-array
//   (the six structural characters are each surrounded by ws)
//   number    = [ minus ] int [ frac ] [ exp ]
//   int       = zero / ( digit1-9 *DIGIT )      frac = "." 1*DIGIT      exp = ( "e" / "E" ) [ "-" / "+" ] 1*DIGIT
//   string    = %x22 *char %x22
//   char      = unescaped / "\" ( %x22 / "\" / "/" / "b" / "f" / "n" / "r" / "t" / "u" 4HEXDIG )
//   unescaped = %x20-21 / %x23-5B / %x5D-10FFFF
//
// Section 8.1: the text is UTF-8, so `unescaped` code points above 0x7F must be well-formed UTF-8
// (Unicode Table 3-7: no overlong forms, no surrogates, nothing above U+10FFFF; oracle::utf8_decode).
// The ABNF does not require \uXXXX surrogate escapes to pair up, so a lone "\uD800" is grammatical.
// There is no nesting limit (section 9 allows implementations to set one; the grammar has none).
#pragma once
#include <cstddef>
#include <cstdint>
#include <vector>

#include "utf_codec.hpp"

namespace oracle
{
   // Why a text was rejected (first offending position, scanning left to right).
   enum class json_why : unsigned char
   {
      none,                 // accepted
      empty,                // no value at all (empty input or only ws)
      value_expected,       // a byte that cannot start a value where a value must start
      literal,              // 't' / 'f' / 'n' not continued as true / false / null
      number_no_int,        // '-' not followed by a digit
      number_leading_zero,  // '0' followed by a digit
      number_frac,          // '.' not followed by a digit
      number_exp,           // 'e' / 'E' [sign] not followed by a digit
      string_unterminated,  // end of input inside a string
      string_control,       // byte below 0x20 inside a string
      string_escape,        // backslash followed by a byte that is not one of " \ / b f n r t u
      string_hex,           // \u not followed by four hex digits
      string_utf8,          // byte >= 0x80 that does not start a well-formed UTF-8 sequence
      key_expected,         // object member does not start with a string
      colon_expected,       // member name not followed by ':'
      separator_expected,   // after a value inside a container: neither ',' nor the matching close
      trailing,             // bytes after the top-level value
      unclosed              // end of input inside an array or object
   };

   inline const char* json_why_name( json_why w )
   {
      static const char* const names[] = { "none", "empty", "value-expected", "literal", "number-no-int", "number-leading-zero", "number-frac", "number-exp", "string-unterminated", "string-control", "string-escape", "string-hex", "string-utf8", "key-expected", "colon-expected", "separator-expected", "trailing", "unclosed" };
      return names[ static_cast< unsigned >( w ) ];
   }
   constexpr unsigned json_why_count = 18;

   struct json_token
   {
      char kind;  // 'n' number, 's' string value, 'k' member name, 'l' literal, 'p' structural character, 'w' run of ws
      std::size_t begin;
      std::size_t end;
   };

   struct json_verdict
   {
      bool ok = false;
      json_why why = json_why::none;
      std::size_t pos = 0;        // index of the offending byte (== n when the input ended too early)
      std::size_t max_depth = 0;  // deepest container nesting reached
      char top_kind = 0;          // kind of the top-level value when one was started: 'n' 's' 'l' 'a' 'o'
   };

   namespace json_detail
   {
      struct scanner
      {
         const unsigned char* p;
         std::size_t n;
         std::size_t i = 0;
         std::vector< json_token >* toks;
         json_verdict v;

         bool fail( json_why w, std::size_t at )
         {
            v.ok = false;
            v.why = w;
            v.pos = at;
            return false;
         }
         void tok( char kind, std::size_t b )
         {
            if( toks != nullptr && i > b ) toks->push_back( { kind, b, i } );
         }
         void ws()
         {
            const std::size_t b = i;
            while( i < n && ( p[ i ] == 0x20 || p[ i ] == 0x09 || p[ i ] == 0x0A || p[ i ] == 0x0D ) ) ++i;
            tok( 'w', b );
         }
         static bool dig( unsigned char c ) { return c >= '0' && c <= '9'; }
         static bool hexdig( unsigned char c ) { return dig( c ) || ( c >= 'a' && c <= 'f' ) || ( c >= 'A' && c <= 'F' ); }

         // p[i] is '-' or a digit
         bool number()
         {
            const std::size_t b = i;
            if( p[ i ] == '-' ) ++i;
            if( i >= n || !dig( p[ i ] ) ) return fail( json_why::number_no_int, i );
            if( p[ i ] == '0' ) {
               ++i;
               if( i < n && dig( p[ i ] ) ) return fail( json_why::number_leading_zero, i );
            }
            else {
               while( i < n && dig( p[ i ] ) ) ++i;
            }
            if( i < n && p[ i ] == '.' ) {
               ++i;
               if( i >= n || !dig( p[ i ] ) ) return fail( json_why::number_frac, i );
               while( i < n && dig( p[ i ] ) ) ++i;
            }
            if( i < n && ( p[ i ] == 'e' || p[ i ] == 'E' ) ) {
               ++i;
               if( i < n && ( p[ i ] == '+' || p[ i ] == '-' ) ) ++i;
               if( i >= n || !dig( p[ i ] ) ) return fail( json_why::number_exp, i );
               while( i < n && dig( p[ i ] ) ) ++i;
            }
            tok( 'n', b );
            return true;
         }

         // p[i] is the opening quotation mark
         bool string( char kind )
         {
            const std::size_t b = i;
            ++i;
            for( ;; ) {
               if( i >= n ) return fail( json_why::string_unterminated, n );
               const unsigned char c = p[ i ];
               if( c == 0x22 ) {
                  ++i;
                  tok( kind, b );
                  return true;
               }
               if( c == 0x5C ) {
                  if( i + 1 >= n ) return fail( json_why::string_unterminated, n );
                  const unsigned char e = p[ i + 1 ];
                  if( e == 'u' ) {
                     for( std::size_t k = 2; k < 6; ++k ) {
                        if( i + k >= n ) return fail( json_why::string_unterminated, n );
                        if( !hexdig( p[ i + k ] ) ) return fail( json_why::string_hex, i + k );
                     }
                     i += 6;
                     continue;
                  }
                  switch( e ) {
                     case 0x22: case 0x5C: case 0x2F: case 'b': case 'f': case 'n': case 'r': case 't':
                        i += 2;
                        continue;
                     default:
                        return fail( json_why::string_escape, i + 1 );
                  }
               }
               if( c < 0x20 ) return fail( json_why::string_control, i );
               if( c < 0x80 ) {
                  ++i;
                  continue;
               }
               const decoded d = utf8_decode( p + i, n - i );
               if( !d.ok ) return fail( json_why::string_utf8, i );
               i += d.len;
            }
         }

         bool literal( const char* word, std::size_t len )
         {
            const std::size_t b = i;
            for( std::size_t k = 0; k < len; ++k ) {
               if( i + k >= n || p[ i + k ] != static_cast< unsigned char >( word[ k ] ) ) return fail( json_why::literal, i + k < n ? i + k : n );
            }
            i += len;
            tok( 'l', b );
            return true;
         }

         bool run()
         {
            std::vector< char > open;  // '[' or '{' for every container not yet closed
            ws();
            if( i >= n ) return fail( json_why::empty, n );
            enum { want_value, want_key, after_value } st = want_value;
            for( ;; ) {
               if( st == want_key ) {
                  if( i >= n ) return fail( json_why::unclosed, n );
                  if( p[ i ] != 0x22 ) return fail( json_why::key_expected, i );
                  if( !string( 'k' ) ) return false;
                  ws();
                  if( i >= n ) return fail( json_why::unclosed, n );
                  if( p[ i ] != ':' ) return fail( json_why::colon_expected, i );
                  ++i;
                  tok( 'p', i - 1 );
                  ws();
                  st = want_value;
               }
               if( st == want_value ) {
                  if( i >= n ) return fail( json_why::unclosed, n );
                  const unsigned char c = p[ i ];
                  char kind = 0;
                  if( c == 0x22 ) {
                     kind = 's';
                     if( open.empty() ) v.top_kind = kind;
                     if( !string( 's' ) ) return false;
                  }
                  else if( c == '-' || scanner::dig( c ) ) {
                     kind = 'n';
                     if( open.empty() ) v.top_kind = kind;
                     if( !number() ) return false;
                  }
                  else if( c == 't' || c == 'f' || c == 'n' ) {
                     kind = 'l';
                     if( open.empty() ) v.top_kind = kind;
                     if( !( c == 't' ? literal( "true", 4 ) : c == 'f' ? literal( "false", 5 ) : literal( "null", 4 ) ) ) return false;
                  }
                  else if( c == '[' || c == '{' ) {
                     if( open.empty() ) v.top_kind = ( c == '[' ) ? 'a' : 'o';
                     open.push_back( char( c ) );
                     if( open.size() > v.max_depth ) v.max_depth = open.size();
                     ++i;
                     tok( 'p', i - 1 );
                     ws();
                     if( i < n && p[ i ] == ( c == '[' ? ']' : '}' ) ) {
                        open.pop_back();
                        ++i;
                        tok( 'p', i - 1 );
                        st = after_value;
                     }
                     else {
                        st = ( c == '[' ) ? want_value : want_key;
                        continue;
                     }
                  }
                  else {
                     return fail( json_why::value_expected, i );
                  }
                  st = after_value;
               }
               // after a complete value
               ws();
               if( open.empty() ) {
                  if( i == n ) {
                     v.ok = true;
                     v.why = json_why::none;
                     v.pos = n;
                     return true;
                  }
                  return fail( json_why::trailing, i );
               }
               if( i >= n ) return fail( json_why::unclosed, n );
               const unsigned char c = p[ i ];
               const char o = open.back();
               if( c == ',' ) {
                  ++i;
                  tok( 'p', i - 1 );
                  ws();
                  st = ( o == '[' ) ? want_value : want_key;
               }
               else if( c == ( o == '[' ? ']' : '}' ) ) {
                  open.pop_back();
                  ++i;
                  tok( 'p', i - 1 );
                  st = after_value;
               }
               else {
                  return fail( json_why::separator_expected, i );
               }
            }
         }
      };
   }  // namespace json_detail

   // Full verdict; when `tokens` is given it receives the tokens recognised before the verdict.
   inline json_verdict json_check( const unsigned char* p, std::size_t n, std::vector< json_token >* tokens = nullptr )
   {
      json_detail::scanner s{ p, n, 0, tokens, {} };
      s.run();
      return s.v;
   }

   // Is p[0..n) a JSON-text of RFC 8259, encoded in well-formed UTF-8?
   inline bool json_text( const unsigned char* p, std::size_t n ) { return json_check( p, n ).ok; }
}  // namespace oracle
