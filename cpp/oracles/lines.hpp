// Independent line splitter used as oracle for C19 (error-reporting helpers). No PEGTL include.
//
// Written from doc/Inputs-and-Parsing.md, section "Line Ending" ("which line endings should be
// recognised by the eol and eolf rules, and used for line counting") and section "Error Reporting"
// ("the begin-of-line before p, or the end-of-line after p (or the end of the input if the input is
// not terminated by an end-of-line)"; line_at = "the complete line around p").
//
// Semantic per end-of-line policy E (a *terminator table*, longest entry first; PEGTL's own code is
// peek-and-branch, this is a table of literal strings compared with string_view):
//     lf       lines end at "\n"
//     cr       lines end at "\r"
//     crlf     lines end at "\r\n" only (a lone "\n" or "\r" is an ordinary byte)
//     lf_crlf  lines end at "\r\n" or at "\n"   (a lone "\r" is an ordinary byte)
//     cr_crlf  lines end at "\r\n" or at "\r"   (a lone "\n" is an ordinary byte)
// The input is cut, left to right, into lines: content [begin,end) followed by its terminator
// [end,next). After the last terminator there is always one more (possibly empty) unterminated
// line [begin,size) -- it is the line that contains offset == size.
//   * The line content excludes the terminator: end_of_line() is the offset of the first byte of the
//     terminator (PEGTL: until< at< eolf > > stops before the end-of-line), or size.
//   * An offset k belongs to the line with begin <= k < next (content or terminator); k == size
//     belongs to the last line.
//   * k strictly inside a two-byte terminator (pointing at the "\n" of a "\r\n") is flagged
//     `inside`: the documentation does not say which line "contains" such a position, so the
//     monitor accepts answers consistent with either neighbouring line (see accepted_begin/end).
#pragma once
#include <cstddef>
#include <string_view>
#include <vector>

namespace oracle
{
   enum class eol_policy { lf = 0, cr = 1, crlf = 2, lf_crlf = 3, cr_crlf = 4 };

   inline const char* policy_name( eol_policy e )
   {
      static const char* const names[] = { "lf", "cr", "crlf", "lf_crlf", "cr_crlf" };
      return names[ int( e ) ];
   }

   // terminator table, longest first; unused slots are empty
   struct terminator_table { std::string_view t[ 2 ]; };

   inline terminator_table terminators( eol_policy e )
   {
      switch( e ) {
         case eol_policy::lf: return { { "\n", "" } };
         case eol_policy::cr: return { { "\r", "" } };
         case eol_policy::crlf: return { { "\r\n", "" } };
         case eol_policy::lf_crlf: return { { "\r\n", "\n" } };
         case eol_policy::cr_crlf: return { { "\r\n", "\r" } };
      }
      return { { "", "" } };
   }

   // length of the terminator that starts at offset i (0 when none does)
   inline std::size_t terminator_at( std::string_view x, std::size_t i, eol_policy e )
   {
      const terminator_table tab = terminators( e );
      for( const std::string_view t : tab.t ) {
         if( !t.empty() && x.substr( i, t.size() ) == t ) return t.size();
      }
      return 0;
   }

   struct line_span
   {
      std::size_t begin = 0;  // first byte of the content
      std::size_t end = 0;    // one past the content == first byte of the terminator (or size)
      std::size_t next = 0;   // one past the terminator == begin of the following line (or size)
      bool terminated() const { return next != end; }
      bool empty() const { return begin == end; }
   };

   inline std::vector< line_span > split_lines( std::string_view x, eol_policy e )
   {
      std::vector< line_span > out;
      std::size_t start = 0;
      std::size_t i = 0;
      while( i < x.size() ) {
         const std::size_t len = terminator_at( x, i, e );
         if( len == 0 ) {
            ++i;
            continue;
         }
         out.push_back( { start, i, i + len } );
         i += len;
         start = i;
      }
      out.push_back( { start, x.size(), x.size() } );  // the final unterminated (maybe empty) line
      return out;
   }

   // Offsets at which a scanner that repeatedly takes "a terminator, else one byte" starts a token
   // (what star< sor< eol, any > > visits), followed by size itself.
   inline std::vector< std::size_t > token_starts( std::string_view x, eol_policy e )
   {
      std::vector< std::size_t > out;
      std::size_t i = 0;
      while( i < x.size() ) {
         out.push_back( i );
         const std::size_t len = terminator_at( x, i, e );
         i += len ? len : 1;
      }
      out.push_back( x.size() );
      return out;
   }

   struct located
   {
      line_span line;           // the line containing offset k (the terminated line when k is in its terminator)
      std::size_t index = 0;    // 0-based number of that line
      bool last = false;        // it is the final, unterminated line
      bool inside = false;      // k is strictly inside a two-byte terminator
      line_span following;      // valid when inside: the line after the terminator
   };

   inline located locate( const std::vector< line_span >& lines, std::size_t k )
   {
      located r;
      for( std::size_t n = 0; n < lines.size(); ++n ) {
         const line_span& l = lines[ n ];
         const bool is_last = ( n + 1 == lines.size() );
         if( ( k >= l.begin && k < l.next ) || is_last ) {
            r.line = l;
            r.index = n;
            r.last = is_last;
            r.inside = ( k > l.end && k < l.next );
            if( r.inside ) r.following = lines[ n + 1 ];  // a terminated line always has a successor
            return r;
         }
      }
      return r;  // not reached: lines is never empty
   }

   // Accepted answers. Outside a terminator there is exactly one. Inside "\r\n" (k points at the "\n"):
   //   begin_of_line: begin of the line before, or begin of the line after;
   //                  under cr_crlf also k itself (a lone "\r" is a terminator there, so reading the
   //                  "\r" as the end of the previous line makes "\n" the first byte of the next one);
   //   end_of_line:   end of the line before (offset of the "\r"), or end of the line after;
   //                  under lf_crlf also k itself (a lone "\n" is a terminator there).
   inline bool accepted_begin( const located& w, std::size_t k, eol_policy e, long long got )
   {
      if( got < 0 ) return false;
      const std::size_t g = std::size_t( got );
      if( !w.inside ) return g == w.line.begin;
      return g == w.line.begin || g == w.following.begin || ( e == eol_policy::cr_crlf && g == k );
   }

   inline bool accepted_end( const located& w, std::size_t k, eol_policy e, long long got )
   {
      if( got < 0 ) return false;
      const std::size_t g = std::size_t( got );
      if( !w.inside ) return g == w.line.end;
      return g == w.line.end || g == w.following.end || ( e == eol_policy::lf_crlf && g == k );
   }
}  // namespace oracle
