// Accept sets of the ASCII class rules and of the RFC 5234 core rules, written down from the
// documentation (doc/Rule-Reference.md "ASCII Rules": the prose of each rule) and from RFC 5234
// Appendix B.1 -- as literal member lists / the RFC's %x numbers, not as the ranges<> packs PEGTL uses.
// No PEGTL include.
#pragma once
#include <cstddef>
#include <cstdint>
#include <string>

#include "unit_sets.hpp"

namespace oracle
{
   // every byte of the literal is a member
   inline vset members( const std::string& list )
   {
      vset s;
      for( const char c : list ) {
         const std::uint64_t v = static_cast< unsigned char >( c );
         s.spans.emplace_back( v, v );
      }
      return s;
   }

   namespace ascii_doc
   {
      const char* const lower_letters = "abcdefghijklmnopqrstuvwxyz";
      const char* const upper_letters = "ABCDEFGHIJKLMNOPQRSTUVWXYZ";
      const char* const decimal_digits = "0123456789";

      inline vset alpha() { return members( std::string( lower_letters ) + upper_letters ); }                       // "a single ASCII alphabetic character"
      inline vset alnum() { return members( std::string( lower_letters ) + upper_letters + decimal_digits ); }      // "alphabetic or numeric"
      inline vset blank() { return members( " \t" ); }                                                                // "horizontal space or horizontal tabulator"
      inline vset digit() { return members( decimal_digits ); }
      inline vset odigit() { return members( "01234567" ); }
      inline vset xdigit() { return members( std::string( decimal_digits ) + "abcdef" + "ABCDEF" ); }
      inline vset lower() { return members( lower_letters ); }
      inline vset upper() { return members( upper_letters ); }
      inline vset identifier_first() { return members( std::string( lower_letters ) + upper_letters + "_" ); }       // first character of a C identifier
      inline vset identifier_other() { return members( std::string( lower_letters ) + upper_letters + decimal_digits + "_" ); }
      inline vset space() { return members( std::string( " \n\r\t\v\f" ) ); }                                        // "space, line-feed, carriage-return, horizontal-tab, vertical-tab or form-feed"
      inline vset nul() { return members( std::string( 1, '\0' ) ); }
      inline vset print() { return span( 32, 126 ); }   // "Equivalent to range< 32, 126 >"
      inline vset seven() { return span( 0, 127 ); }    // "fits into 7 bits"
      inline vset any() { return span( 0, 255 ); }      // "any single byte"

      // "For ASCII letters a-z and A-Z the match is case insensitive" -- and for nothing else.
      inline vset caseless( unsigned char c )
      {
         const std::string lo = lower_letters, up = upper_letters;
         for( std::size_t i = 0; i < 26; ++i ) {
            if( c == static_cast< unsigned char >( lo[ i ] ) || c == static_cast< unsigned char >( up[ i ] ) ) {
               return members( std::string( 1, lo[ i ] ) + up[ i ] );
            }
         }
         return span( c, c );
      }
   }  // namespace ascii_doc

   namespace rfc5234
   {
      inline vset ALPHA() { return unite( span( 0x41, 0x5A ), span( 0x61, 0x7A ) ); }
      inline vset BIT() { return members( "01" ); }
      inline vset CHAR() { return span( 0x01, 0x7F ); }
      inline vset CR() { return span( 0x0D, 0x0D ); }
      inline vset CTL() { return unite( span( 0x00, 0x1F ), span( 0x7F, 0x7F ) ); }
      inline vset DIGIT() { return span( 0x30, 0x39 ); }
      inline vset DQUOTE() { return span( 0x22, 0x22 ); }
      // HEXDIG = DIGIT / "A" / ... / "F"; ABNF literal strings are case-insensitive (RFC 5234 section 2.3)
      inline vset HEXDIG() { return unite( DIGIT(), members( "ABCDEFabcdef" ) ); }
      inline vset HTAB() { return span( 0x09, 0x09 ); }
      inline vset LF() { return span( 0x0A, 0x0A ); }
      inline vset OCTET() { return span( 0x00, 0xFF ); }
      inline vset SP() { return span( 0x20, 0x20 ); }
      inline vset VCHAR() { return span( 0x21, 0x7E ); }
      inline vset WSP() { return unite( SP(), HTAB() ); }

      // LWSP = *(WSP / CRLF WSP), read as the greedy repetition it is in a PEG: number of bytes matched at the start of p[0..n)
      inline std::size_t LWSP( const unsigned char* p, std::size_t n )
      {
         std::size_t i = 0;
         for( ;; ) {
            if( i < n && ( p[ i ] == 0x20 || p[ i ] == 0x09 ) ) {
               i += 1;
               continue;
            }
            if( i + 2 < n && p[ i ] == 0x0D && p[ i + 1 ] == 0x0A && ( p[ i + 2 ] == 0x20 || p[ i + 2 ] == 0x09 ) ) {
               i += 3;
               continue;
            }
            return i;
         }
      }
   }  // namespace rfc5234
}  // namespace oracle
