// Independent model of "one unit of an encoding" and of the documented accept sets (C10).
// No PEGTL include. A rule is modelled as a sequence of value sets, one per unit; a unit is decoded
// by positional arithmetic on the bytes (no casts of the buffer, no byte swaps) and, for UTF-x, by
// the table-driven codec in utf_codec.hpp.
//   doc/Rule-Reference.md "Unicode Rules": N = 1..4 (UTF-8), 2 or 4 (UTF-16), 4 (UTF-32); valid = 0..0x10ffff,
//   a code unit 0xd800..0xdfff outside a surrogate pair is an error; "Binary Rules": N = 1, 2, 4, 8,
//   the endian adjusted input value, masked with M for the mask_ rules.
#pragma once
#include <cstddef>
#include <cstdint>
#include <initializer_list>
#include <utility>
#include <vector>

#include "utf_codec.hpp"

namespace oracle
{
   enum class enc
   {
      bytes,
      utf8,
      utf16_be,
      utf16_le,
      utf32_be,
      utf32_le,
      uint8,
      uint16_be,
      uint16_le,
      uint32_be,
      uint32_le,
      uint64_be,
      uint64_le
   };

   struct unit
   {
      bool ok;
      std::uint64_t value;
      unsigned len;  // bytes
   };

   // value of n bytes, most significant byte first / least significant byte first
   inline std::uint64_t msb_first( const unsigned char* p, unsigned n )
   {
      std::uint64_t v = 0;
      for( unsigned i = 0; i < n; ++i ) v = v * 256 + p[ i ];
      return v;
   }

   inline std::uint64_t lsb_first( const unsigned char* p, unsigned n )
   {
      std::uint64_t v = 0;
      for( unsigned i = n; i > 0; --i ) v = v * 256 + p[ i - 1 ];
      return v;
   }

   // inverse: writes the n-byte representation of v
   inline void put_msb_first( unsigned char* p, unsigned n, std::uint64_t v )
   {
      for( unsigned i = n; i > 0; --i ) {
         p[ i - 1 ] = static_cast< unsigned char >( v % 256 );
         v /= 256;
      }
   }

   inline void put_lsb_first( unsigned char* p, unsigned n, std::uint64_t v )
   {
      for( unsigned i = 0; i < n; ++i ) {
         p[ i ] = static_cast< unsigned char >( v % 256 );
         v /= 256;
      }
   }

   inline unsigned unit_width( enc e )  // bytes of one code unit / binary value
   {
      switch( e ) {
         case enc::bytes: case enc::utf8: case enc::uint8: return 1;
         case enc::utf16_be: case enc::utf16_le: case enc::uint16_be: case enc::uint16_le: return 2;
         case enc::utf32_be: case enc::utf32_le: case enc::uint32_be: case enc::uint32_le: return 4;
         default: return 8;
      }
   }

   inline bool big_endian( enc e )
   {
      return e == enc::utf16_be || e == enc::utf32_be || e == enc::uint16_be || e == enc::uint32_be || e == enc::uint64_be;
   }

   inline unit fixed_width( const unsigned char* p, std::size_t n, unsigned w, bool be )
   {
      if( n < w ) return { false, 0, 0 };
      return { true, be ? msb_first( p, w ) : lsb_first( p, w ), w };
   }

   // Decodes the unit at the start of p[0..n): complete and well-formed, or not ok.
   inline unit decode_unit( enc e, const unsigned char* p, std::size_t n )
   {
      switch( e ) {
         case enc::bytes:
         case enc::uint8:
            return fixed_width( p, n, 1, true );
         case enc::utf8: {
            const decoded d = utf8_decode( p, n );
            return { d.ok, d.cp, d.len };
         }
         case enc::utf16_be:
         case enc::utf16_le: {
            const bool be = ( e == enc::utf16_be );
            std::uint16_t u[ 2 ] = { 0, 0 };
            std::size_t cnt = 0;
            if( n >= 2 ) u[ cnt++ ] = std::uint16_t( be ? msb_first( p, 2 ) : lsb_first( p, 2 ) );
            if( n >= 4 ) u[ cnt++ ] = std::uint16_t( be ? msb_first( p + 2, 2 ) : lsb_first( p + 2, 2 ) );
            const decoded d = utf16_decode( u, cnt );
            return { d.ok, d.cp, d.len * 2 };
         }
         case enc::utf32_be:
         case enc::utf32_le: {
            const unit f = fixed_width( p, n, 4, e == enc::utf32_be );
            if( !f.ok ) return f;
            const decoded d = utf32_decode( std::uint32_t( f.value ) );
            return { d.ok, d.cp, d.ok ? 4u : 0u };
         }
         case enc::uint16_be: return fixed_width( p, n, 2, true );
         case enc::uint16_le: return fixed_width( p, n, 2, false );
         case enc::uint32_be: return fixed_width( p, n, 4, true );
         case enc::uint32_le: return fixed_width( p, n, 4, false );
         case enc::uint64_be: return fixed_width( p, n, 8, true );
         case enc::uint64_le: return fixed_width( p, n, 8, false );
      }
      return { false, 0, 0 };
   }

   // Is p[0..n) (n >= 1) a proper prefix of some well-formed unit, i.e. a truncated unit?
   inline bool truncated_unit( enc e, const unsigned char* p, std::size_t n )
   {
      if( n == 0 ) return false;
      if( e == enc::utf8 ) {
         if( utf8_decode( p, n ).ok ) return false;
         // some completion with continuation bytes makes it well-formed (Table 3-7: the second byte decides, later ones are 80..BF)
         unsigned char t[ 4 ] = { 0, 0, 0, 0 };
         for( std::size_t i = 0; i < n && i < 4; ++i ) t[ i ] = p[ i ];
         if( n >= 4 ) return false;
         for( unsigned fill : { 0x80u, 0x90u, 0xA0u, 0xBFu } ) {
            for( std::size_t i = n; i < 4; ++i ) t[ i ] = static_cast< unsigned char >( fill );
            const decoded d = utf8_decode( t, 4 );
            if( d.ok && d.len > n ) return true;
         }
         return false;
      }
      const unsigned w = unit_width( e );
      if( e == enc::utf16_be || e == enc::utf16_le ) {
         if( n < 2 ) return true;
         const std::uint64_t a = big_endian( e ) ? msb_first( p, 2 ) : lsb_first( p, 2 );
         return a >= 0xD800 && a <= 0xDBFF && n < 4;
      }
      return n < w;
   }

   // A set of unit values: union of closed spans, optionally complemented, applied to ( value & mask ).
   struct vset
   {
      std::uint64_t mask = ~std::uint64_t( 0 );
      bool complement = false;
      std::vector< std::pair< std::uint64_t, std::uint64_t > > spans;

      bool has( std::uint64_t v ) const
      {
         v &= mask;
         bool in = false;
         for( const auto& s : spans ) {
            if( s.first <= v && v <= s.second ) {
               in = true;
               break;
            }
         }
         return in != complement;
      }
   };

   inline vset nothing() { return vset(); }

   inline vset everything()
   {
      vset s;
      s.complement = true;
      return s;
   }

   inline vset points( std::initializer_list< std::uint64_t > l )
   {
      vset s;
      for( const std::uint64_t v : l ) s.spans.emplace_back( v, v );
      return s;
   }

   inline vset span( std::uint64_t lo, std::uint64_t hi )
   {
      vset s;
      s.spans.emplace_back( lo, hi );
      return s;
   }

   inline vset unite( vset a, const vset& b )  // both plain (no mask, not complemented)
   {
      for( const auto& x : b.spans ) a.spans.push_back( x );
      return a;
   }

   inline vset outside( vset s )
   {
      s.complement = !s.complement;
      return s;
   }

   inline vset masked( std::uint64_t m, vset s )
   {
      s.mask = m;
      return s;
   }
}  // namespace oracle

#include <string>

namespace oracle
{
   // Bytes of one unit carrying `v`. UTF-8 / UTF-16: empty when v is not a scalar value;
   // UTF-32 and the binary encodings: the plain fixed-width representation of v (valid or not).
   inline std::string encode_unit( enc e, std::uint64_t v )
   {
      unsigned char b[ 8 ] = { 0, 0, 0, 0, 0, 0, 0, 0 };
      switch( e ) {
         case enc::utf8:
            return utf8_encode( v );
         case enc::utf16_be:
         case enc::utf16_le: {
            if( !is_scalar( v ) ) return std::string();
            const bool be = ( e == enc::utf16_be );
            if( v < 0x10000 ) {
               be ? put_msb_first( b, 2, v ) : put_lsb_first( b, 2, v );
               return std::string( reinterpret_cast< const char* >( b ), 2 );
            }
            const std::uint64_t hi = 0xD800 + ( v - 0x10000 ) / 1024, lo = 0xDC00 + ( v - 0x10000 ) % 1024;
            be ? put_msb_first( b, 2, hi ) : put_lsb_first( b, 2, hi );
            be ? put_msb_first( b + 2, 2, lo ) : put_lsb_first( b + 2, 2, lo );
            return std::string( reinterpret_cast< const char* >( b ), 4 );
         }
         default: {
            const unsigned w = unit_width( e );
            big_endian( e ) || w == 1 ? put_msb_first( b, w, v ) : put_lsb_first( b, w, v );
            return std::string( reinterpret_cast< const char* >( b ), w );
         }
      }
   }
}  // namespace oracle
