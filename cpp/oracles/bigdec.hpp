// Independent oracle for decimal numerals (property C15). No PEGTL include.
//
// Written from the documentation of tao/pegtl/contrib/integer.hpp (doc/Changelog.md 3.0.0: "rules ...
// do not accept redundant leading zeros"; the grammar comments in the header):
//
//    unsigned numeral :=  "0" (not followed by a digit)  |  nonzero-digit digit*
//    signed numeral   :=  [ "+" | "-" ] unsigned numeral
//    pre-3.0 ("old") forms: digit+ with an optional sign, leading zeros allowed
//
// A rule matches the longest such prefix of the input.  The value is computed with 128-bit
// arithmetic over the whole digit run and only afterwards compared with a limit (no cutoff /
// remainder trick, so that the arithmetic is not a copy of the code it judges).
#pragma once
#include <cstddef>
#include <string>
#include <string_view>

namespace oracle::dec
{
   using u128 = unsigned __int128;
   using i128 = __int128;

   struct numeral
   {
      bool matched = false;      // a numeral of the requested syntax starts at offset 0
      std::size_t length = 0;    // bytes it spans (sign included)
      bool negative = false;     // '-' present
      bool has_sign = false;     // '+' or '-' present
      std::size_t ndigits = 0;   // digits in the run (leading zeros included)
      u128 magnitude = 0;        // exact magnitude when !astronomic
      bool astronomic = false;   // more than 38 significant digits: larger than anything representable here
   };

   enum class leading_zeros : bool
   {
      rejected,
      tolerated
   };

   namespace detail
   {
      inline std::size_t digit_run( const std::string_view s ) noexcept
      {
         const std::size_t n = s.find_first_not_of( "0123456789" );
         return ( n == std::string_view::npos ) ? s.size() : n;
      }

      inline void evaluate( const std::string_view digits, numeral& r ) noexcept
      {
         // strip zeros, then Horner in 128 bits; 38 significant digits always fit (10^38 < 2^128)
         std::size_t lead = 0;
         while( lead + 1 < digits.size() && digits[ lead ] == '0' ) {
            ++lead;
         }
         const std::string_view sig = digits.substr( lead );
         if( sig.size() > 38 ) {
            r.astronomic = true;
            return;
         }
         u128 v = 0;
         for( std::size_t i = 0; i < sig.size(); ++i ) {
            v = v * 10u + u128( static_cast< unsigned char >( sig[ i ] ) - 0x30u );
         }
         r.magnitude = v;
      }
   }  // namespace detail

   [[nodiscard]] inline numeral read_unsigned( const std::string_view s, const leading_zeros z ) noexcept
   {
      numeral r;
      const std::size_t n = detail::digit_run( s );
      if( n == 0 ) {
         return r;
      }
      if( z == leading_zeros::rejected && n >= 2 && s.front() == '0' ) {
         return r;  // "0" followed by a digit: neither alternative of the grammar applies
      }
      r.matched = true;
      r.length = n;
      r.ndigits = n;
      detail::evaluate( s.substr( 0, n ), r );
      return r;
   }

   [[nodiscard]] inline numeral read_signed( const std::string_view s, const leading_zeros z ) noexcept
   {
      const bool sign = ( !s.empty() ) && ( s.front() == '+' || s.front() == '-' );
      numeral r = read_unsigned( sign ? s.substr( 1 ) : s, z );
      if( r.matched && sign ) {
         r.has_sign = true;
         r.negative = ( s.front() == '-' );
         r.length += 1;
      }
      return r;
   }

   // does the numeral denote a value v with  -negative_limit <= v <= positive_limit ?
   [[nodiscard]] inline bool representable( const numeral& n, const u128 positive_limit, const u128 negative_limit ) noexcept
   {
      if( n.astronomic ) {
         return false;
      }
      return n.magnitude <= ( n.negative ? negative_limit : positive_limit );
   }

   [[nodiscard]] inline i128 value_of( const numeral& n ) noexcept
   {
      // only called for magnitudes <= 2^64
      return n.negative ? -i128( n.magnitude ) : i128( n.magnitude );
   }

   [[nodiscard]] inline std::string to_string( u128 v )
   {
      if( v == 0 ) {
         return "0";
      }
      std::string r;
      while( v != 0 ) {
         r.insert( r.begin(), char( '0' + unsigned( v % 10u ) ) );
         v /= 10u;
      }
      return r;
   }

   [[nodiscard]] inline std::string to_string( const i128 v )
   {
      return ( v < 0 ) ? "-" + to_string( u128( 0 ) - u128( v ) ) : to_string( u128( v ) );
   }

   [[nodiscard]] inline u128 pow10( const unsigned k ) noexcept
   {
      u128 r = 1;
      for( unsigned i = 0; i < k; ++i ) {
         r *= 10u;
      }
      return r;
   }

}  // namespace oracle::dec
