// Independent UTF-8 / UTF-16 / UTF-32 codec used as oracle (C10, C14, C17). No PEGTL include.
// Written from the Unicode standard (Table 3-7 "Well-Formed UTF-8 Byte Sequences"), deliberately in
// a different style from PEGTL's arithmetic decoder: table of byte ranges, not mask-and-compare.
#pragma once
#include <cstddef>
#include <cstdint>
#include <string>

namespace oracle
{
   inline bool is_scalar( std::uint64_t cp ) { return cp <= 0x10FFFF && !( cp >= 0xD800 && cp <= 0xDFFF ); }

   // Encodes a scalar value; returns empty string when cp is not a Unicode scalar value.
   inline std::string utf8_encode( std::uint64_t cp )
   {
      std::string r;
      if( !is_scalar( cp ) ) return r;
      if( cp < 0x80 ) {
         r.push_back( char( cp ) );
      }
      else if( cp < 0x800 ) {
         r.push_back( char( 0xC0 + ( cp / 64 ) ) );
         r.push_back( char( 0x80 + ( cp % 64 ) ) );
      }
      else if( cp < 0x10000 ) {
         r.push_back( char( 0xE0 + ( cp / 4096 ) ) );
         r.push_back( char( 0x80 + ( ( cp / 64 ) % 64 ) ) );
         r.push_back( char( 0x80 + ( cp % 64 ) ) );
      }
      else {
         r.push_back( char( 0xF0 + ( cp / 262144 ) ) );
         r.push_back( char( 0x80 + ( ( cp / 4096 ) % 64 ) ) );
         r.push_back( char( 0x80 + ( ( cp / 64 ) % 64 ) ) );
         r.push_back( char( 0x80 + ( cp % 64 ) ) );
      }
      return r;
   }

   struct decoded
   {
      bool ok;
      std::uint32_t cp;
      unsigned len;
   };

   // Decodes one well-formed UTF-8 sequence from p[0..n). Table 3-7.
   inline decoded utf8_decode( const unsigned char* p, std::size_t n )
   {
      struct row { unsigned char lo0, hi0, lo1, hi1; unsigned len; };
      static const row rows[] = {
         { 0x00, 0x7F, 0, 0, 1 },
         { 0xC2, 0xDF, 0x80, 0xBF, 2 },
         { 0xE0, 0xE0, 0xA0, 0xBF, 3 },
         { 0xE1, 0xEC, 0x80, 0xBF, 3 },
         { 0xED, 0xED, 0x80, 0x9F, 3 },
         { 0xEE, 0xEF, 0x80, 0xBF, 3 },
         { 0xF0, 0xF0, 0x90, 0xBF, 4 },
         { 0xF1, 0xF3, 0x80, 0xBF, 4 },
         { 0xF4, 0xF4, 0x80, 0x8F, 4 },
      };
      if( n == 0 ) return { false, 0, 0 };
      for( const row& r : rows ) {
         if( p[ 0 ] < r.lo0 || p[ 0 ] > r.hi0 ) continue;
         if( n < r.len ) return { false, 0, 0 };
         if( r.len == 1 ) return { true, p[ 0 ], 1 };
         if( p[ 1 ] < r.lo1 || p[ 1 ] > r.hi1 ) return { false, 0, 0 };
         for( unsigned i = 2; i < r.len; ++i )
            if( p[ i ] < 0x80 || p[ i ] > 0xBF ) return { false, 0, 0 };
         std::uint32_t cp = 0;
         if( r.len == 2 ) cp = ( p[ 0 ] - 0xC0u ) * 64 + ( p[ 1 ] - 0x80u );
         else if( r.len == 3 ) cp = ( p[ 0 ] - 0xE0u ) * 4096 + ( p[ 1 ] - 0x80u ) * 64 + ( p[ 2 ] - 0x80u );
         else cp = ( p[ 0 ] - 0xF0u ) * 262144 + ( p[ 1 ] - 0x80u ) * 4096 + ( p[ 2 ] - 0x80u ) * 64 + ( p[ 3 ] - 0x80u );
         return { true, cp, r.len };
      }
      return { false, 0, 0 };
   }

   // UTF-16: units given in host order already (the caller does the byte-order part).
   inline decoded utf16_decode( const std::uint16_t* u, std::size_t n )
   {
      if( n == 0 ) return { false, 0, 0 };
      const std::uint32_t a = u[ 0 ];
      if( a < 0xD800 || a > 0xDFFF ) return { true, a, 1 };
      if( a >= 0xDC00 ) return { false, 0, 0 };  // lone low surrogate
      if( n < 2 ) return { false, 0, 0 };
      const std::uint32_t b = u[ 1 ];
      if( b < 0xDC00 || b > 0xDFFF ) return { false, 0, 0 };
      return { true, 0x10000 + ( a - 0xD800 ) * 1024 + ( b - 0xDC00 ), 2 };
   }

   inline decoded utf32_decode( std::uint32_t u ) { return is_scalar( u ) ? decoded{ true, u, 1 } : decoded{ false, 0, 0 }; }

   // Is the whole byte string well-formed UTF-8?
   inline bool utf8_valid( const unsigned char* p, std::size_t n )
   {
      while( n ) {
         const decoded d = utf8_decode( p, n );
         if( !d.ok ) return false;
         p += d.len;
         n -= d.len;
      }
      return true;
   }
}  // namespace oracle
