// Independent recogniser for RFC 3986 (Appendix A, "Collected ABNF for URI"); oracle of C20.
// No PEGTL include, no code shared with tao/pegtl/contrib/uri.hpp.
//
// Technique: relational ("set of end positions") matching.  Every nonterminal X of the ABNF denotes
// the relation  { ( i, j ) : input[ i, j ) is derivable from X }  over the positions 0..n of the
// input.  A set of positions is one 64-bit word, and each nonterminal is written as the *image
// function* of its relation:  X( P ) = set of all end positions reachable from any start in P
// (so X( { i } ) is the set of all possible ends for start i).  Then
//   concatenation A B   = relational composition   B( A( P ) )
//   alternation   A / B = union                    A( P ) | B( P )
//   repetition    *A    = reflexive-transitive closure (star), n*mA = union of bounded powers
//   terminal             = ( P & positions-holding-such-a-byte ) << 1
// Every alternative and every split point is kept, so the matcher decides exactly the (regular)
// language of the ABNF: there is no ordered choice, no greediness and no commitment anywhere.
// Inputs of up to 63 bytes are supported (positions 0..63); longer inputs are refused
// (uri_matcher::ok() == false, nothing is accepted).
//
// ABNF core rules used (RFC 5234): ALPHA, DIGIT, HEXDIG.  Quoted strings of an ABNF are
// case-insensitive, hence HEXDIG covers a-f as well as A-F and the "v" of IPvFuture also matches "V".
#pragma once
#include <cstddef>
#include <cstdint>

namespace oracle
{
   enum class uri_kind : int
   {
      // the five start symbols judged by C20
      URI = 0,
      URI_reference,
      absolute_URI,
      IPv4address,
      IPv6address,
      // further nonterminals, exposed for classification and self-checks of the monitor
      relative_ref,
      hier_part,
      relative_part,
      scheme,
      authority,
      userinfo,
      host,
      port,
      IP_literal,
      IPvFuture,
      reg_name,
      dec_octet,
      h16,
      ls32,
      path_abempty,
      path_absolute,
      path_noscheme,
      path_rootless,
      path_empty,
      segment,
      segment_nz,
      segment_nz_nc,
      pchar,
      query,
      fragment,
      pct_encoded,
      unreserved,
      reserved,
      gen_delims,
      sub_delims,
      count_
   };

   class uri_matcher
   {
   public:
      using ends = std::uint64_t;  // a set of positions of the input
      static constexpr std::size_t max_len = 63;

   private:
      // terminal classes: where in the input does a byte of the class stand?
      enum term : int
      {
         T_ALPHA, T_DIGIT, T_HEXDIG, T_19, T_04, T_05, T_unreserved_mark, T_scheme_mark, T_gen_delim, T_sub_delim, T_v,
         T_colon, T_slash, T_dot, T_at, T_percent, T_question, T_hash, T_lbracket, T_rbracket, T_1, T_2, T_5,
         T_count
      };
      ends where_[ T_count ];
      std::size_t n_;
      bool ok_;

      static bool in_class( const int t, const unsigned char c )
      {
         switch( t ) {
            case T_ALPHA: return ( c >= 0x41 && c <= 0x5A ) || ( c >= 0x61 && c <= 0x7A );
            case T_DIGIT: return c >= 0x30 && c <= 0x39;
            case T_HEXDIG: return ( c >= 0x30 && c <= 0x39 ) || ( c >= 0x41 && c <= 0x46 ) || ( c >= 0x61 && c <= 0x66 );
            case T_19: return c >= 0x31 && c <= 0x39;
            case T_04: return c >= 0x30 && c <= 0x34;
            case T_05: return c >= 0x30 && c <= 0x35;
            case T_unreserved_mark: return c == '-' || c == '.' || c == '_' || c == '~';
            case T_scheme_mark: return c == '+' || c == '-' || c == '.';
            case T_gen_delim: return c == ':' || c == '/' || c == '?' || c == '#' || c == '[' || c == ']' || c == '@';
            case T_sub_delim: return c == '!' || c == '$' || c == '&' || c == '\'' || c == '(' || c == ')' || c == '*' || c == '+' || c == ',' || c == ';' || c == '=';
            case T_v: return c == 'v' || c == 'V';
            case T_colon: return c == ':';
            case T_slash: return c == '/';
            case T_dot: return c == '.';
            case T_at: return c == '@';
            case T_percent: return c == '%';
            case T_question: return c == '?';
            case T_hash: return c == '#';
            case T_lbracket: return c == '[';
            case T_rbracket: return c == ']';
            case T_1: return c == '1';
            case T_2: return c == '2';
            case T_5: return c == '5';
            default: return false;
         }
      }
      struct class_table
      {
         std::uint32_t of[ 256 ];  // bit t set: the byte belongs to terminal class t
         class_table()
         {
            for( int c = 0; c < 256; ++c ) {
               of[ c ] = 0;
               for( int t = 0; t < T_count; ++t )
                  if( in_class( t, static_cast< unsigned char >( c ) ) ) of[ c ] |= std::uint32_t( 1 ) << t;
            }
         }
      };
      static const class_table& classes()
      {
         static const class_table t;
         return t;
      }

      // ---- the algebra -----------------------------------------------------------------------
      ends one( const term t, const ends p ) const { return ( p & where_[ t ] ) << 1; }  // one byte of class t

      template< typename F >
      static ends star( const F& f, const ends p )  // *f : closure, breadth first
      {
         ends all = p;
         ends frontier = p;
         while( frontier ) {
            const ends next = f( frontier ) & ~all;
            all |= next;
            frontier = next;
         }
         return all;
      }
      template< typename F >
      static ends plus( const F& f, const ends p ) { return star( f, f( p ) ); }  // 1*f
      template< typename F >
      static ends power( const F& f, const unsigned k, ends p )  // k f : exactly k times
      {
         for( unsigned i = 0; i < k; ++i ) p = f( p );
         return p;
      }
      template< typename F >
      static ends between( const F& f, const unsigned lo, const unsigned hi, const ends p )  // lo*hi f
      {
         ends q = power( f, lo, p );
         ends all = q;
         for( unsigned k = lo; k < hi; ++k ) {
            q = f( q );
            all |= q;
         }
         return all;
      }

      // ---- RFC 5234 core rules and single characters -----------------------------------------
      ends ALPHA( const ends p ) const { return one( T_ALPHA, p ); }
      ends DIGIT( const ends p ) const { return one( T_DIGIT, p ); }
      ends HEXDIG( const ends p ) const { return one( T_HEXDIG, p ); }
      ends colon( const ends p ) const { return one( T_colon, p ); }
      ends slash( const ends p ) const { return one( T_slash, p ); }
      ends dot( const ends p ) const { return one( T_dot, p ); }
      ends at_sign( const ends p ) const { return one( T_at, p ); }

      // ---- RFC 3986 Appendix A ---------------------------------------------------------------

      // URI           = scheme ":" hier-part [ "?" query ] [ "#" fragment ]
      ends URI( const ends p ) const { return opt_fragment( opt_query( hier_part( colon( scheme( p ) ) ) ) ); }
      ends opt_query( const ends p ) const { return p | query( one( T_question, p ) ); }       // [ "?" query ]
      ends opt_fragment( const ends p ) const { return p | fragment( one( T_hash, p ) ); }     // [ "#" fragment ]

      // hier-part     = "//" authority path-abempty / path-absolute / path-rootless / path-empty
      ends hier_part( const ends p ) const { return net_path( p ) | path_absolute( p ) | path_rootless( p ) | path_empty( p ); }
      ends net_path( const ends p ) const { return path_abempty( authority( slash( slash( p ) ) ) ); }  // "//" authority path-abempty

      // URI-reference = URI / relative-ref
      ends URI_reference( const ends p ) const { return URI( p ) | relative_ref( p ); }

      // absolute-URI  = scheme ":" hier-part [ "?" query ]
      ends absolute_URI( const ends p ) const { return opt_query( hier_part( colon( scheme( p ) ) ) ); }

      // relative-ref  = relative-part [ "?" query ] [ "#" fragment ]
      ends relative_ref( const ends p ) const { return opt_fragment( opt_query( relative_part( p ) ) ); }

      // relative-part = "//" authority path-abempty / path-absolute / path-noscheme / path-empty
      ends relative_part( const ends p ) const { return net_path( p ) | path_absolute( p ) | path_noscheme( p ) | path_empty( p ); }

      // scheme        = ALPHA *( ALPHA / DIGIT / "+" / "-" / "." )
      ends scheme( const ends p ) const
      {
         return star( [ this ]( const ends q ) { return ALPHA( q ) | DIGIT( q ) | one( T_scheme_mark, q ); }, ALPHA( p ) );
      }

      // authority     = [ userinfo "@" ] host [ ":" port ]
      ends authority( const ends p ) const
      {
         const ends after_userinfo = p | at_sign( userinfo( p ) );
         const ends after_host = host( after_userinfo );
         return after_host | port( colon( after_host ) );
      }

      // userinfo      = *( unreserved / pct-encoded / sub-delims / ":" )
      ends userinfo( const ends p ) const
      {
         return star( [ this ]( const ends q ) { return unreserved( q ) | pct_encoded( q ) | sub_delims( q ) | colon( q ); }, p );
      }

      // host          = IP-literal / IPv4address / reg-name
      ends host( const ends p ) const { return IP_literal( p ) | IPv4address( p ) | reg_name( p ); }

      // port          = *DIGIT
      ends port( const ends p ) const
      {
         return star( [ this ]( const ends q ) { return DIGIT( q ); }, p );
      }

      // IP-literal    = "[" ( IPv6address / IPvFuture  ) "]"
      ends IP_literal( const ends p ) const
      {
         const ends inside = one( T_lbracket, p );
         return one( T_rbracket, IPv6address( inside ) | IPvFuture( inside ) );
      }

      // IPvFuture     = "v" 1*HEXDIG "." 1*( unreserved / sub-delims / ":" )
      ends IPvFuture( const ends p ) const
      {
         const ends version = plus( [ this ]( const ends q ) { return HEXDIG( q ); }, one( T_v, p ) );
         return plus( [ this ]( const ends q ) { return unreserved( q ) | sub_delims( q ) | colon( q ); }, dot( version ) );
      }

      // IPv6address   =                            6( h16 ":" ) ls32
      //               /                       "::" 5( h16 ":" ) ls32
      //               / [               h16 ] "::" 4( h16 ":" ) ls32
      //               / [ *1( h16 ":" ) h16 ] "::" 3( h16 ":" ) ls32
      //               / [ *2( h16 ":" ) h16 ] "::" 2( h16 ":" ) ls32
      //               / [ *3( h16 ":" ) h16 ] "::"    h16 ":"   ls32
      //               / [ *4( h16 ":" ) h16 ] "::"              ls32
      //               / [ *5( h16 ":" ) h16 ] "::"              h16
      //               / [ *6( h16 ":" ) h16 ] "::"
      ends IPv6address( const ends p ) const
      {
         if( p == 0 ) return 0;
         const auto h16_colon = [ this ]( const ends q ) { return colon( h16( q ) ); };                                  // ( h16 ":" )
         const auto dcolon = [ this ]( const ends q ) { return colon( colon( q ) ); };                                    // "::"
         const auto lead = [ & ]( const unsigned m, const ends q ) { return q | h16( between( h16_colon, 0, m, q ) ); };  // [ *m( h16 ":" ) h16 ]
         return ls32( power( h16_colon, 6, p ) )
                | ls32( power( h16_colon, 5, dcolon( p ) ) )
                | ls32( power( h16_colon, 4, dcolon( p | h16( p ) ) ) )
                | ls32( power( h16_colon, 3, dcolon( lead( 1, p ) ) ) )
                | ls32( power( h16_colon, 2, dcolon( lead( 2, p ) ) ) )
                | ls32( h16_colon( dcolon( lead( 3, p ) ) ) )
                | ls32( dcolon( lead( 4, p ) ) )
                | h16( dcolon( lead( 5, p ) ) )
                | dcolon( lead( 6, p ) );
      }

      // h16           = 1*4HEXDIG
      ends h16( const ends p ) const
      {
         return between( [ this ]( const ends q ) { return HEXDIG( q ); }, 1, 4, p );
      }

      // ls32          = ( h16 ":" h16 ) / IPv4address
      ends ls32( const ends p ) const { return h16( colon( h16( p ) ) ) | IPv4address( p ); }

      // IPv4address   = dec-octet "." dec-octet "." dec-octet "." dec-octet
      ends IPv4address( const ends p ) const { return dec_octet( dot( dec_octet( dot( dec_octet( dot( dec_octet( p ) ) ) ) ) ) ); }

      // dec-octet     = DIGIT                 ; 0-9
      //               / %x31-39 DIGIT         ; 10-99
      //               / "1" 2DIGIT            ; 100-199
      //               / "2" %x30-34 DIGIT     ; 200-249
      //               / "25" %x30-35          ; 250-255
      ends dec_octet( const ends p ) const
      {
         return DIGIT( p )
                | DIGIT( one( T_19, p ) )
                | DIGIT( DIGIT( one( T_1, p ) ) )
                | DIGIT( one( T_04, one( T_2, p ) ) )
                | one( T_05, one( T_5, one( T_2, p ) ) );
      }

      // reg-name      = *( unreserved / pct-encoded / sub-delims )
      ends reg_name( const ends p ) const
      {
         return star( [ this ]( const ends q ) { return unreserved( q ) | pct_encoded( q ) | sub_delims( q ); }, p );
      }

      // path-abempty  = *( "/" segment )
      ends path_abempty( const ends p ) const
      {
         return star( [ this ]( const ends q ) { return segment( slash( q ) ); }, p );
      }
      // path-absolute = "/" [ segment-nz *( "/" segment ) ]
      ends path_absolute( const ends p ) const
      {
         const ends s = slash( p );
         return s | path_abempty( segment_nz( s ) );
      }
      // path-noscheme = segment-nz-nc *( "/" segment )
      ends path_noscheme( const ends p ) const { return path_abempty( segment_nz_nc( p ) ); }
      // path-rootless = segment-nz *( "/" segment )
      ends path_rootless( const ends p ) const { return path_abempty( segment_nz( p ) ); }
      // path-empty    = 0<pchar>
      ends path_empty( const ends p ) const { return p; }

      // segment       = *pchar
      ends segment( const ends p ) const
      {
         return star( [ this ]( const ends q ) { return pchar( q ); }, p );
      }
      // segment-nz    = 1*pchar
      ends segment_nz( const ends p ) const { return segment( pchar( p ) ); }
      // segment-nz-nc = 1*( unreserved / pct-encoded / sub-delims / "@" )
      ends segment_nz_nc( const ends p ) const
      {
         return plus( [ this ]( const ends q ) { return unreserved( q ) | pct_encoded( q ) | sub_delims( q ) | at_sign( q ); }, p );
      }

      // pchar         = unreserved / pct-encoded / sub-delims / ":" / "@"
      ends pchar( const ends p ) const { return unreserved( p ) | pct_encoded( p ) | sub_delims( p ) | colon( p ) | at_sign( p ); }

      // query         = *( pchar / "/" / "?" )
      ends query( const ends p ) const
      {
         return star( [ this ]( const ends q ) { return pchar( q ) | slash( q ) | one( T_question, q ); }, p );
      }
      // fragment      = *( pchar / "/" / "?" )
      ends fragment( const ends p ) const
      {
         return star( [ this ]( const ends q ) { return pchar( q ) | slash( q ) | one( T_question, q ); }, p );
      }

      // pct-encoded   = "%" HEXDIG HEXDIG
      ends pct_encoded( const ends p ) const { return HEXDIG( HEXDIG( one( T_percent, p ) ) ); }
      // unreserved    = ALPHA / DIGIT / "-" / "." / "_" / "~"
      ends unreserved( const ends p ) const { return ALPHA( p ) | DIGIT( p ) | one( T_unreserved_mark, p ); }
      // reserved      = gen-delims / sub-delims
      ends reserved( const ends p ) const { return gen_delims( p ) | sub_delims( p ); }
      // gen-delims    = ":" / "/" / "?" / "#" / "[" / "]" / "@"
      ends gen_delims( const ends p ) const { return one( T_gen_delim, p ); }
      // sub-delims    = "!" / "$" / "&" / "'" / "(" / ")" / "*" / "+" / "," / ";" / "="
      ends sub_delims( const ends p ) const { return one( T_sub_delim, p ); }

   public:
      uri_matcher( const unsigned char* s, const std::size_t n ) : n_( n ), ok_( n <= max_len )
      {
         for( ends& w : where_ ) w = 0;
         if( !ok_ ) return;
         const class_table& tab = classes();
         for( std::size_t i = 0; i < n; ++i ) {
            for( std::uint32_t f = tab.of[ s[ i ] ]; f; f &= f - 1 ) where_[ __builtin_ctz( f ) ] |= ends( 1 ) << i;
         }
      }

      bool ok() const { return ok_; }
      std::size_t size() const { return n_; }

      // image of a set of start positions under nonterminal k
      ends image( const uri_kind k, const ends p ) const
      {
         if( !ok_ ) return 0;
         switch( k ) {
            case uri_kind::URI: return URI( p );
            case uri_kind::URI_reference: return URI_reference( p );
            case uri_kind::absolute_URI: return absolute_URI( p );
            case uri_kind::IPv4address: return IPv4address( p );
            case uri_kind::IPv6address: return IPv6address( p );
            case uri_kind::relative_ref: return relative_ref( p );
            case uri_kind::hier_part: return hier_part( p );
            case uri_kind::relative_part: return relative_part( p );
            case uri_kind::scheme: return scheme( p );
            case uri_kind::authority: return authority( p );
            case uri_kind::userinfo: return userinfo( p );
            case uri_kind::host: return host( p );
            case uri_kind::port: return port( p );
            case uri_kind::IP_literal: return IP_literal( p );
            case uri_kind::IPvFuture: return IPvFuture( p );
            case uri_kind::reg_name: return reg_name( p );
            case uri_kind::dec_octet: return dec_octet( p );
            case uri_kind::h16: return h16( p );
            case uri_kind::ls32: return ls32( p );
            case uri_kind::path_abempty: return path_abempty( p );
            case uri_kind::path_absolute: return path_absolute( p );
            case uri_kind::path_noscheme: return path_noscheme( p );
            case uri_kind::path_rootless: return path_rootless( p );
            case uri_kind::path_empty: return path_empty( p );
            case uri_kind::segment: return segment( p );
            case uri_kind::segment_nz: return segment_nz( p );
            case uri_kind::segment_nz_nc: return segment_nz_nc( p );
            case uri_kind::pchar: return pchar( p );
            case uri_kind::query: return query( p );
            case uri_kind::fragment: return fragment( p );
            case uri_kind::pct_encoded: return pct_encoded( p );
            case uri_kind::unreserved: return unreserved( p );
            case uri_kind::reserved: return reserved( p );
            case uri_kind::gen_delims: return gen_delims( p );
            case uri_kind::sub_delims: return sub_delims( p );
            case uri_kind::count_: break;
         }
         return 0;
      }
      // all j such that input[ i, j ) is derivable from k, as a bit set
      ends ends_from( const uri_kind k, const std::size_t i ) const { return ( i <= n_ ) ? image( k, ends( 1 ) << i ) : 0; }
      // is input[ i, j ) derivable from k ?
      bool derives( const uri_kind k, const std::size_t i, const std::size_t j ) const
      {
         return i <= j && j <= n_ && ( ( ends_from( k, i ) >> j ) & 1 ) != 0;
      }
      // is the whole input derivable from k ?
      bool accepts( const uri_kind k ) const { return derives( k, 0, n_ ); }
   };

   inline bool uri_match( const uri_kind kind, const unsigned char* p, const std::size_t n )
   {
      const uri_matcher m( p, n );
      return m.accepts( kind );
   }
}  // namespace oracle
