// Reference PEG interpreter: the executable model the corpus monitors compare the real parser with.
// Written against the PEG formalism and the prose of doc/Rule-Reference.md. NO PEGTL INCLUDE.
//
// A grammar is a table of nodes. Convenience rules appear already desugared into core nodes by the
// generator (gen/grammar_gen.py) following the [Equivalent] clauses of the rule reference; the
// VIS/NAMED wrappers mark which matches are observable in the real parser (control hooks, actions,
// parse-tree nodes), identified by a registry id `vid` (-> demangled type name).
#pragma once
#include <cstddef>
#include <cstdint>
#include <set>
#include <string>
#include <string_view>
#include <utility>
#include <vector>

namespace ref
{
   enum kind : int
   {
      ANY, ONE, NOTONE, RANGE, NOTRANGE, RANGES, STRING, ISTRING, EOF_, EOL, BOL, BOF, BYTES, SUCCESS, FAILURE,
      SEQ, SOR, STAR, PLUS, OPT, AT, NOTAT,
      RAISE,        // global failure blaming registry id a0 (message "parse error matching <name>" or custom)
      TRY,          // a0: bit0 catches parse_error, bit1 catches foreign std, bit2 catches alien; a1: 0 return_false, 1 raise_nested (blames vid a2)
      REMATCH, PARTIAL, STARPARTIAL,
      ENABLE, DISABLE,
      ACTFAM,       // action< B, R... >: actions inside belong to family a0
      CTLFAM,       // control< B, R... >
      STATE,        // state< st<a0>, R... >
      APPLY,        // apply< cls... >: kids unused; args: list of class-action ids in `ids`
      APPLY0,
      IFAPPLY,      // kid 0 = rule, ids = class actions
      DISCARD, REQUIRE,
      NAMED, VIS,
      // contrib atoms with hand-written reference scanners
      U8ANY, U8ONE, U8RANGE, U8NOTONE,
      UNSIGNED_RULE, SIGNED_RULE, MAXIMUM_RULE,   // a0/a1: maximum (hi/lo 32 bit), a2: bits of the type
      REP_ONE_MIN_MAX,                            // a0 min, a1 max, arg = set
      U8_ONE_BYTEWISE,
      RAWSTRING                                   // arg = Open, Marker, Close: Lua long bracket
   };

   struct node
   {
      int k;
      std::string_view arg;
      std::vector< int > kids;
      int vid;              // registry id for VIS / NAMED (and the blamed rule of RAISE), else -1
      long a0, a1, a2;
      std::vector< int > ids;
   };

   // action kinds per registry id (mirrors the constexpr table compiled into the real run)
   enum akind : int { A_NONE = 0, A_APPLY = 1, A_APPLY0 = 2, A_VETO = 3, A_VETO0 = 4, A_THROW = 5, A_THROW_ALIEN = 6,
                      // actions with a match(): they wrap the rule they are attached to (C13)
                      A_CHANGE_STATE = 7, A_CHANGE_STATES = 8, A_CHANGE_ACTION = 9, A_CHANGE_ACTION_AND_STATE = 10, A_CHANGE_CONTROL = 11, A_ENABLE_ACTION = 12, A_DISABLE_ACTION = 13 };

   inline int state_type_of( int vid ) { return 1 + vid % 3; }   // which mon::st< N > an action-based state switch on rule vid creates

   // deterministic predicates shared by the model and the real actions
   inline bool veto_pred( int vid, std::size_t b, std::size_t e, unsigned salt ) { return ( ( unsigned( vid ) * 2654435761u + unsigned( b ) * 40503u + unsigned( e ) * 9176u + salt ) >> 7 ) % 3 == 0; }
   inline bool throw_pred( int vid, std::size_t b, std::size_t e, unsigned salt ) { return ( ( unsigned( vid ) * 2246822519u + unsigned( b ) * 3266489917u + unsigned( e ) * 668265263u + salt ) >> 9 ) % 4 == 0; }

   enum status : int { FAIL = 0, OK = 1, RAISED = 2, LOOP = 3 };
   enum exkind : int { X_NONE = 0, X_PARSE_ERROR = 1, X_STD = 2, X_ALIEN = 3 };

   struct outcome
   {
      int st;
      std::size_t end;
      int xkind = X_NONE;
      int blame = -1;         // registry id blamed by the parse_error (or the throwing action's rule)
      std::size_t xbegin = 0; // where the blamed attempt began (parse_error position must be >= this)
      int nested_depth = 0;   // how many raise_nested wrappers were applied
      std::size_t xb = 0, xe = 0;  // span of the throwing action
   };

   enum evtype : int { E_VISIT = 0, E_ACT = 1, E_SCOPE = 2, E_CLSACT = 3 };

   struct event
   {
      int type;
      int vid;            // rule registry id / scope type / class action id
      std::size_t b, e;
      int depth;          // nesting depth among visible matches (E_VISIT)
      bool lookahead;     // inside at/not_at
      bool act;           // actions enabled at this point
      int fam;            // action family
      int cfam;           // control family
      int scope;          // index of the enclosing E_SCOPE event (-1: the top-level state)
      bool vetoed;
   };

   struct ctx
   {
      bool act = true;
      int fam = 0;
      int cfam = 0;
      int scope = -1;
      int la = 0;
   };

   struct interp
   {
      const node* n = nullptr;
      const int* akinds = nullptr;   // per registry id (action family A)
      const int* akinds_b = nullptr; // per registry id (action family B)
      const char* const* mif = nullptr;   // must_if messages per registry id: a local failure of such a rule is raised as a global one
      unsigned salt = 0;
      int eolpol = 3;                // 0 lf, 1 cr, 2 crlf, 3 lf_crlf, 4 cr_crlf
      std::string_view in;
      long fuel = 4000000;
      long steps = 0;
      int maxdepth = 0, curdepth = 0;
      bool loop = false;
      bool uses_discard = false;
      std::vector< event > evs;
      struct rawact { int vid; std::size_t b, e; };
      std::vector< rawact > raw;       // every action invocation in evaluation order, backtracked ones included (never truncated)
      int depth = 0;
      std::set< std::pair< std::pair< int, std::size_t >, std::size_t > > stack;

      static outcome ok( std::size_t e ) { return { OK, e }; }
      static outcome fail( std::size_t p ) { return { FAIL, p }; }

      char eolch() const { return ( eolpol == 1 || eolpol == 4 ) ? '\r' : '\n'; }

      std::size_t match_eol( std::size_t p, std::size_t e ) const
      {
         const bool lf = p < e && in[ p ] == '\n';
         const bool cr = p < e && in[ p ] == '\r';
         const bool crlf = p + 1 < e && in[ p ] == '\r' && in[ p + 1 ] == '\n';
         switch( eolpol ) {
            case 0: return lf ? 1 : 0;
            case 1: return cr ? 1 : 0;
            case 2: return crlf ? 2 : 0;
            case 3: return lf ? 1 : crlf ? 2 : 0;
            default: return crlf ? 2 : cr ? 1 : 0;
         }
      }

      // one well-formed UTF-8 sequence at p (end e): returns length and code point, 0 if none
      unsigned u8( std::size_t p, std::size_t e, std::uint32_t& cp ) const
      {
         if( p >= e ) return 0;
         auto B = [ & ]( std::size_t i ) { return (unsigned char)in[ i ]; };
         const unsigned c0 = B( p );
         if( c0 < 0x80 ) { cp = c0; return 1; }
         if( c0 >= 0xC2 && c0 <= 0xDF ) { if( p + 1 < e && ( B( p + 1 ) & 0xC0 ) == 0x80 ) { cp = ( ( c0 & 0x1F ) << 6 ) | ( B( p + 1 ) & 0x3F ); return 2; } return 0; }
         if( c0 >= 0xE0 && c0 <= 0xEF ) {
            if( p + 2 >= e ) return 0;
            const unsigned c1 = B( p + 1 ), c2 = B( p + 2 );
            if( ( c1 & 0xC0 ) != 0x80 || ( c2 & 0xC0 ) != 0x80 ) return 0;
            cp = ( ( c0 & 0x0F ) << 12 ) | ( ( c1 & 0x3F ) << 6 ) | ( c2 & 0x3F );
            if( cp < 0x800 || ( cp >= 0xD800 && cp <= 0xDFFF ) ) return 0;
            return 3;
         }
         if( c0 >= 0xF0 && c0 <= 0xF4 ) {
            if( p + 3 >= e ) return 0;
            const unsigned c1 = B( p + 1 ), c2 = B( p + 2 ), c3 = B( p + 3 );
            if( ( c1 & 0xC0 ) != 0x80 || ( c2 & 0xC0 ) != 0x80 || ( c3 & 0xC0 ) != 0x80 ) return 0;
            cp = ( ( c0 & 0x07 ) << 18 ) | ( ( c1 & 0x3F ) << 12 ) | ( ( c2 & 0x3F ) << 6 ) | ( c3 & 0x3F );
            if( cp < 0x10000 || cp > 0x10FFFF ) return 0;
            return 4;
         }
         return 0;
      }

      outcome ev( int id, std::size_t p, std::size_t e, const ctx& c )
      {
         const std::size_t mark = evs.size();
         if( ++curdepth > maxdepth ) maxdepth = curdepth;
         outcome r = ( curdepth > 1500 ) ? ( loop = true, outcome{ LOOP, p } ) : ev1( id, p, e, c );
         --curdepth;
         if( r.st != OK ) evs.resize( mark );
         return r;
      }

      int kind_in( int vid, int fam ) const
      {
         const int* t = fam ? akinds_b : akinds;
         return ( t && vid >= 0 ) ? t[ vid ] : A_NONE;
      }

      static outcome raise_mif( int vid, std::size_t p )
      {
         outcome r{ RAISED, p };
         r.xkind = X_PARSE_ERROR;
         r.blame = vid;
         r.xbegin = p;
         return r;
      }

      // a visible rule: switches attached through its action's match() wrap the body; then its own action runs
      outcome visible( const node& x, std::size_t p, std::size_t e, const ctx& c )
      {
         const int k = kind_in( x.vid, c.fam );
         ctx c2 = c;
         int scope_idx = -1;
         bool own_action_in_new_family = false;
         if( k == A_CHANGE_STATE || k == A_CHANGE_STATES || k == A_CHANGE_ACTION_AND_STATE ) {
            scope_idx = int( evs.size() );
            evs.push_back( { E_SCOPE, state_type_of( x.vid ), p, p, depth, c.la > 0, c.act, c.fam, c.cfam, c.scope, false } );
            c2.scope = scope_idx;
         }
         if( k == A_CHANGE_ACTION || k == A_CHANGE_ACTION_AND_STATE ) { c2.fam = 1; own_action_in_new_family = true; }
         if( k == A_CHANGE_CONTROL ) c2.cfam = 1;
         if( k == A_ENABLE_ACTION ) c2.act = true;
         if( k == A_DISABLE_ACTION ) c2.act = false;
         const std::size_t idx = evs.size();
         evs.push_back( { E_VISIT, x.vid, p, p, depth, c.la > 0, c2.act, c2.fam, c2.cfam, c2.scope, false } );
         ++depth;
         outcome r = ev( x.kids[ 0 ], p, e, c2 );
         --depth;
         if( r.st == FAIL && mif && x.vid >= 0 && mif[ x.vid ] ) return raise_mif( x.vid, p );
         if( r.st != OK ) return r;
         evs[ idx ].e = r.end;
         if( own_action_in_new_family ) {
            // the rule is re-entered with the new action family: its own action comes from that family
            outcome a = run_action( x.vid, p, r.end, c2 );
            if( a.st == FAIL && mif && x.vid >= 0 && mif[ x.vid ] ) return raise_mif( x.vid, p );
            if( a.st != OK ) return a;
         }
         else if( k < A_CHANGE_STATE ) {
            outcome a = run_action( x.vid, p, r.end, c2 );
            if( a.st == FAIL && mif && x.vid >= 0 && mif[ x.vid ] ) return raise_mif( x.vid, p );
            if( a.st != OK ) return a;
         }
         if( scope_idx >= 0 ) {
            evs[ scope_idx ].e = r.end;
            evs[ scope_idx ].vetoed = !c.act;   // "vetoed" reused: success() is only delivered when actions are enabled
         }
         return r;
      }

      // after a visible node matched [b,e): run its attached action (if any)
      outcome run_action( int vid, std::size_t b, std::size_t e, const ctx& c )
      {
         const int k = kind_in( vid, c.fam );
         if( k == A_NONE || k >= A_CHANGE_STATE || !c.act ) return ok( e );
         event a{ E_ACT, vid, b, e, depth, c.la > 0, c.act, c.fam, c.cfam, c.scope, false };
         if( raw.size() < 200000 ) raw.push_back( { vid, b, e } );
         if( k == A_VETO || k == A_VETO0 ) {
            if( veto_pred( vid, b, e, salt ) ) return fail( b );
         }
         if( k == A_THROW || k == A_THROW_ALIEN ) {
            if( throw_pred( vid, b, e, salt ) ) {
               outcome r{ RAISED, b };
               r.xkind = ( k == A_THROW ) ? X_STD : X_ALIEN;
               r.blame = vid;
               r.xb = b;
               r.xe = e;
               return r;
            }
         }
         evs.push_back( a );
         return ok( e );
      }

      outcome ev1( int id, std::size_t p, std::size_t e, const ctx& c )
      {
         ++steps;
         if( --fuel < 0 ) { loop = true; return { LOOP, p }; }
         const node& x = n[ id ];
         auto at = [ & ]( std::size_t i ) { return (unsigned char)in[ i ]; };
         switch( x.k ) {
            case ANY: return p < e ? ok( p + 1 ) : fail( p );
            case ONE: return ( p < e && x.arg.find( in[ p ] ) != std::string_view::npos ) ? ok( p + 1 ) : fail( p );
            case NOTONE: return ( p < e && x.arg.find( in[ p ] ) == std::string_view::npos ) ? ok( p + 1 ) : fail( p );
            case RANGE: return ( p < e && (unsigned char)x.arg[ 0 ] <= at( p ) && at( p ) <= (unsigned char)x.arg[ 1 ] ) ? ok( p + 1 ) : fail( p );
            case NOTRANGE: return ( p < e && !( (unsigned char)x.arg[ 0 ] <= at( p ) && at( p ) <= (unsigned char)x.arg[ 1 ] ) ) ? ok( p + 1 ) : fail( p );
            case RANGES: {
               if( p >= e ) return fail( p );
               std::size_t i = 0;
               for( ; i + 1 < x.arg.size(); i += 2 )
                  if( (unsigned char)x.arg[ i ] <= at( p ) && at( p ) <= (unsigned char)x.arg[ i + 1 ] ) return ok( p + 1 );
               if( i < x.arg.size() && x.arg[ i ] == in[ p ] ) return ok( p + 1 );
               return fail( p );
            }
            case STRING: return ( e - p >= x.arg.size() && in.substr( p, x.arg.size() ) == x.arg ) ? ok( p + x.arg.size() ) : fail( p );
            case ISTRING: {
               if( e - p < x.arg.size() ) return fail( p );
               for( std::size_t i = 0; i < x.arg.size(); ++i ) {
                  auto low = []( unsigned char ch ) { return ( ch >= 'A' && ch <= 'Z' ) ? (unsigned char)( ch + 32 ) : ch; };
                  if( low( at( p + i ) ) != low( (unsigned char)x.arg[ i ] ) ) return fail( p );
               }
               return ok( p + x.arg.size() );
            }
            case EOF_: return p == e ? ok( p ) : fail( p );
            case EOL: { const std::size_t l = match_eol( p, e ); return l ? ok( p + l ) : fail( p ); }
            case BOL: return ( p == 0 || in[ p - 1 ] == eolch() ) ? ok( p ) : fail( p );
            case BOF: return p == 0 ? ok( p ) : fail( p );
            case BYTES: return ( e - p >= std::size_t( x.a0 ) ) ? ok( p + std::size_t( x.a0 ) ) : fail( p );
            case REQUIRE: return ( e - p >= std::size_t( x.a0 ) ) ? ok( p ) : fail( p );
            case SUCCESS: return ok( p );
            case DISCARD: uses_discard = true; return ok( p );
            case FAILURE: return fail( p );
            case U8ANY: { std::uint32_t cp; const unsigned l = u8( p, e, cp ); return l ? ok( p + l ) : fail( p ); }
            case U8ONE: case U8NOTONE: {
               // arg holds the code points as UTF-8 text
               std::uint32_t cp;
               const unsigned l = u8( p, e, cp );
               if( !l ) return fail( p );
               bool found = false;
               interp tmp;
               tmp.in = x.arg;
               for( std::size_t i = 0; i < x.arg.size(); ) { std::uint32_t c2; const unsigned l2 = tmp.u8( i, x.arg.size(), c2 ); if( !l2 ) break; if( c2 == cp ) found = true; i += l2; }
               return ( found == ( x.k == U8ONE ) ) ? ok( p + l ) : fail( p );
            }
            case U8RANGE: { std::uint32_t cp; const unsigned l = u8( p, e, cp ); return ( l && std::uint32_t( x.a0 ) <= cp && cp <= std::uint32_t( x.a1 ) ) ? ok( p + l ) : fail( p ); }
            case REP_ONE_MIN_MAX: {
               std::size_t q = p;
               while( q < e && x.arg.find( in[ q ] ) != std::string_view::npos ) ++q;
               const std::size_t cnt = q - p;
               return ( cnt >= std::size_t( x.a0 ) && cnt <= std::size_t( x.a1 ) ) ? ok( q ) : fail( p );
            }
            case RAWSTRING: {
               const char open = x.arg[ 0 ], marker = x.arg[ 1 ], close = x.arg[ 2 ];
               std::size_t q = p;
               if( q >= e || in[ q ] != open ) return fail( p );
               ++q;
               std::size_t level = 0;
               while( q < e && in[ q ] == marker ) { ++q; ++level; }
               if( q >= e || in[ q ] != open ) return fail( p );
               ++q;
               q += match_eol( q, e );
               for( std::size_t i = q; i + level + 2 <= e; ++i ) {
                  if( in[ i ] != close || in[ i + level + 1 ] != close ) continue;
                  bool all = true;
                  for( std::size_t k = 0; k < level; ++k )
                     if( in[ i + 1 + k ] != marker ) { all = false; break; }
                  if( all ) return ok( i + level + 2 );
               }
               return fail( p );
            }
            case UNSIGNED_RULE: case SIGNED_RULE: case MAXIMUM_RULE: {
               std::size_t q = p;
               if( x.k == SIGNED_RULE && q < e && ( in[ q ] == '+' || in[ q ] == '-' ) ) ++q;
               if( q >= e || in[ q ] < '0' || in[ q ] > '9' ) return fail( p );
               if( in[ q ] == '0' ) {
                  ++q;
                  if( q < e && in[ q ] >= '0' && in[ q ] <= '9' ) return fail( p );  // no superfluous leading zeros
                  return ok( q );
               }
               unsigned __int128 v = 0;
               const unsigned __int128 mx = ( (unsigned __int128)(std::uint64_t)x.a0 << 32 ) | (std::uint64_t)x.a1;
               while( q < e && in[ q ] >= '0' && in[ q ] <= '9' ) {
                  v = v * 10 + unsigned( in[ q ] - '0' );
                  if( x.k == MAXIMUM_RULE && v > mx ) return fail( p );
                  if( v > ( (unsigned __int128)1 << 100 ) ) v = ( (unsigned __int128)1 << 100 );
                  ++q;
               }
               return ok( q );
            }
            case SEQ: {
               std::size_t q = p;
               for( int k : x.kids ) {
                  outcome r = ev( k, q, e, c );
                  if( r.st != OK ) { if( r.st == FAIL ) r.end = p; return r; }
                  q = r.end;
               }
               return ok( q );
            }
            case SOR: {
               for( int k : x.kids ) { outcome r = ev( k, p, e, c ); if( r.st != FAIL ) return r; }
               return fail( p );
            }
            case STAR: {
               std::size_t q = p;
               for( ;; ) {
                  outcome r = ev( x.kids[ 0 ], q, e, c );
                  if( r.st == FAIL ) return ok( q );
                  if( r.st != OK ) return r;
                  if( r.end == q ) { loop = true; return { LOOP, q }; }
                  q = r.end;
               }
            }
            case PLUS: {
               outcome r = ev( x.kids[ 0 ], p, e, c );
               if( r.st != OK ) return r;
               std::size_t q = r.end;
               for( ;; ) {
                  outcome r2 = ev( x.kids[ 0 ], q, e, c );
                  if( r2.st == FAIL ) return ok( q );
                  if( r2.st != OK ) return r2;
                  if( r2.end == q ) { loop = true; return { LOOP, q }; }
                  q = r2.end;
               }
            }
            case OPT: { outcome r = ev( x.kids[ 0 ], p, e, c ); if( r.st == FAIL ) return ok( p ); return r; }
            case AT: {
               ctx c2 = c; c2.act = false; ++c2.la;
               outcome r = ev( x.kids[ 0 ], p, e, c2 );
               if( r.st == OK ) return ok( p );
               return r;
            }
            case NOTAT: {
               ctx c2 = c; c2.act = false; ++c2.la;
               const std::size_t mark = evs.size();
               outcome r = ev( x.kids[ 0 ], p, e, c2 );
               if( r.st == OK ) { evs.resize( mark ); return fail( p ); }
               if( r.st == FAIL ) return ok( p );
               return r;
            }
            case RAISE: {
               outcome r{ RAISED, p };
               r.xkind = X_PARSE_ERROR;
               r.blame = x.vid;
               r.xbegin = p;
               return r;
            }
            case TRY: {
               outcome r = ev( x.kids[ 0 ], p, e, c );
               if( r.st != RAISED ) return r;
               const bool caught = ( r.xkind == X_PARSE_ERROR && ( x.a0 & 1 ) ) || ( r.xkind == X_STD && ( x.a0 & 2 ) ) || ( r.xkind == X_ALIEN && ( x.a0 & 4 ) );
               if( !caught ) return r;
               if( x.a1 == 0 ) return fail( p );
               outcome w{ RAISED, p };
               w.xkind = X_PARSE_ERROR;
               w.blame = int( x.a2 );
               w.xbegin = p;
               w.nested_depth = r.nested_depth + 1;
               return w;
            }
            case REMATCH: {
               outcome r = ev( x.kids[ 0 ], p, e, c );
               if( r.st != OK ) return r;
               for( std::size_t i = 1; i < x.kids.size(); ++i ) {
                  outcome s = ev( x.kids[ i ], p, r.end, c );
                  if( s.st == OK ) continue;
                  if( s.st == FAIL ) return fail( p );
                  return s;
               }
               return r;
            }
            case PARTIAL: {
               std::size_t q = p;
               for( int k : x.kids ) {
                  outcome r = ev( k, q, e, c );
                  if( r.st == FAIL ) return ok( q );
                  if( r.st != OK ) return r;
                  q = r.end;
               }
               return ok( q );
            }
            case STARPARTIAL: {
               std::size_t q = p;
               for( ;; ) {
                  const std::size_t it = q;
                  bool all = true;
                  for( int k : x.kids ) {
                     outcome r = ev( k, q, e, c );
                     if( r.st == FAIL ) { all = false; break; }
                     if( r.st != OK ) return r;
                     q = r.end;
                  }
                  if( !all ) return ok( q );
                  if( q == it ) { loop = true; return { LOOP, q }; }
               }
            }
            case ENABLE: { ctx c2 = c; c2.act = true; return ev( x.kids[ 0 ], p, e, c2 ); }
            case DISABLE: { ctx c2 = c; c2.act = false; return ev( x.kids[ 0 ], p, e, c2 ); }
            case ACTFAM: { ctx c2 = c; c2.fam = int( x.a0 ); return ev( x.kids[ 0 ], p, e, c2 ); }
            case CTLFAM: { ctx c2 = c; c2.cfam = int( x.a0 ); return ev( x.kids[ 0 ], p, e, c2 ); }
            case STATE: {
               const int idx = int( evs.size() );
               evs.push_back( { E_SCOPE, int( x.a0 ), p, p, depth, c.la > 0, c.act, c.fam, c.cfam, c.scope, false } );
               ctx c2 = c; c2.scope = idx;
               outcome r = ev( x.kids[ 0 ], p, e, c2 );
               if( r.st == OK ) evs[ idx ].e = r.end;
               return r;
            }
            case APPLY: case APPLY0: {
               if( !c.act ) return ok( p );
               for( int a : x.ids ) {
                  // class-action ids: even = void, odd = veto
                  if( ( a & 1 ) && veto_pred( 1000 + a, p, p, salt ) ) return fail( p );
                  evs.push_back( { E_CLSACT, a, p, p, depth, c.la > 0, c.act, c.fam, c.cfam, c.scope, false } );
               }
               return ok( p );
            }
            case IFAPPLY: {
               outcome r = ev( x.kids[ 0 ], p, e, c );
               if( r.st != OK || !c.act ) return r;
               for( int a : x.ids ) {
                  if( ( a & 1 ) && veto_pred( 1000 + a, p, r.end, salt ) ) return fail( p );
                  evs.push_back( { E_CLSACT, a, p, r.end, depth, c.la > 0, c.act, c.fam, c.cfam, c.scope, false } );
               }
               return r;
            }
            case VIS: return visible( x, p, e, c );
            case NAMED: {
               const auto key = std::make_pair( std::make_pair( id, p ), e );
               if( !stack.insert( key ).second ) { loop = true; return { LOOP, p }; }
               outcome r = visible( x, p, e, c );
               stack.erase( key );
               return r;
            }
         }
         return fail( p );
      }
   };

   // position function of C06: (byte, line, column) after consuming in[0..upto)
   struct pos3 { std::size_t byte, line, column; };
   inline pos3 position_of( std::string_view in, std::size_t upto, char eolch, pos3 init = { 0, 1, 1 } )
   {
      pos3 r = init;
      for( std::size_t i = 0; i < upto; ++i ) {
         ++r.byte;
         if( in[ i ] == eolch ) { ++r.line; r.column = 1; }
         else ++r.column;
      }
      return r;
   }
}  // namespace ref
