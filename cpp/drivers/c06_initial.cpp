// C06 (part): "byte equals the number of bytes consumed so far PLUS THE INITIAL OFFSET, line equals the INITIAL LINE plus the
// number of end-of-line characters in the consumed prefix, column is one plus the number of bytes since the last of them"
// for inputs that are constructed with an initial position other than 0:1:1 (a fragment of a larger document), and "eager and
// lazy tracking always report identical positions".
//
// Case = (byte string, initial position, end-of-line policy, tracking mode, how the input object was constructed).  The
// grammar tokenises the whole string through rules with different bump strategies; every action records the position of the
// action input (begin of the match) and of the parse input (end of the match); the run then ends in a must<> failure at a
// chosen place, which yields a parse_error position.  Oracle: the position function of the consumed prefix, started from the
// initial position (the column continues from the initial column until the first end-of-line byte).
#include <tao/pegtl.hpp>

#include "common/verif.hpp"

namespace pegtl = tao::pegtl;
using verif::V;

namespace
{
   struct p3 { std::size_t byte, line, column; };
   bool operator==( const p3& a, const p3& b ) { return a.byte == b.byte && a.line == b.line && a.column == b.column; }
   bool operator!=( const p3& a, const p3& b ) { return !( a == b ); }
   std::string str( const p3& p ) { return std::to_string( p.byte ) + ":" + std::to_string( p.line ) + ":" + std::to_string( p.column ); }

   p3 position_of( std::string_view in, std::size_t upto, char eolch, p3 r )
   {
      for( std::size_t i = 0; i < upto; ++i ) {
         ++r.byte;
         if( in[ i ] == eolch ) { ++r.line; r.column = 1; }
         else ++r.column;
      }
      return r;
   }

   struct obs { int what; std::size_t b, e; p3 pb, pe; std::size_t inbyte = 0; };   // what: 0 action, 1 parse_error, 2 final position of the input
   struct state { const char* base = nullptr; std::vector< obs > log; };

   // tokens with different consumption paths: eol rule, multi-byte string, single bytes that can / cannot be the eol byte
   struct t_eol : pegtl::eol {};
   struct t_ab : pegtl::string< 'a', 'b' > {};
   struct t_a : pegtl::one< 'a' > {};
   struct t_nota : pegtl::not_one< 'a', '!' > {};
   struct t_any2 : pegtl::seq< pegtl::one< 'b' >, pegtl::any > {};
   struct t_bang : pegtl::one< '!' > {};
   struct tokens : pegtl::star< pegtl::sor< t_eol, t_ab, t_a, t_any2, t_nota > > {};
   struct grammar : pegtl::seq< tokens, pegtl::must< pegtl::one< '?' > > > {};   // the text never contains '?': always ends in a parse_error

   template< typename Rule > struct action {};
   template< typename Rule > struct rec
   {
      template< typename AI >
      static void apply( const AI& in, state& s )
      {
         const auto pb = in.position();
         const auto pe = in.input().position();
         s.log.push_back( { 0, std::size_t( in.begin() - s.base ), std::size_t( in.end() - s.base ), { pb.byte, pb.line, pb.column }, { pe.byte, pe.line, pe.column }, in.input().byte() } );
      }
   };
   template<> struct action< t_eol > : rec< t_eol > {};
   template<> struct action< t_ab > : rec< t_ab > {};
   template<> struct action< t_a > : rec< t_a > {};
   template<> struct action< t_nota > : rec< t_nota > {};
   template<> struct action< t_any2 > : rec< t_any2 > {};
   template<> struct action< tokens > : rec< tokens > {};

   template< typename In >
   void run( In& in, state& s, const std::string& text )
   {
      s.base = in.begin();
      try {
         (void)pegtl::parse< grammar, action >( in, s );
         s.log.push_back( { 3, 0, 0, {}, {} } );   // cannot happen: no '?' in the text
      }
      catch( const pegtl::parse_error& e ) {
         const auto& p = e.position_object();
         s.log.push_back( { 1, 0, 0, { p.byte, p.line, p.column }, {} } );
      }
      const auto pe = in.position();
      s.log.push_back( { 2, std::size_t( in.current() - s.base ), 0, { pe.byte, pe.line, pe.column }, {}, in.byte() } );
      (void)text;
   }

   template< pegtl::tracking_mode T, typename Eol >
   std::vector< obs > run_one( const verif::guarded_buffer& gb, const std::string& text, const p3& init, int ctor )
   {
      state s;
      using in_t = pegtl::memory_input< T, Eol, std::string >;
      if( ctor == 0 ) {
         in_t in( gb.begin(), gb.end(), "src", init.byte, init.line, init.column );
         run( in, s, text );
      }
      else {
         const pegtl::internal::inputerator it( gb.begin(), init.byte, init.line, init.column );
         in_t in( it, gb.end(), "src" );
         run( in, s, text );
      }
      return s.log;
   }

   const char* const eol_names[] = { "lf", "cr", "crlf", "lf_crlf", "cr_crlf" };

   template< pegtl::tracking_mode T >
   std::vector< obs > dispatch( int eolpol, const verif::guarded_buffer& gb, const std::string& text, const p3& init, int ctor )
   {
      switch( eolpol ) {
         case 0: return run_one< T, pegtl::eol::lf >( gb, text, init, ctor );
         case 1: return run_one< T, pegtl::eol::cr >( gb, text, init, ctor );
         case 2: return run_one< T, pegtl::eol::crlf >( gb, text, init, ctor );
         case 3: return run_one< T, pegtl::eol::lf_crlf >( gb, text, init, ctor );
         default: return run_one< T, pegtl::eol::cr_crlf >( gb, text, init, ctor );
      }
   }

   void one_case( const std::string& text, const p3& init, int eolpol, int ctor )
   {
      const std::string label = std::string( eol_names[ eolpol ] ) + "|init=" + str( init ) + "|ctor=" + std::to_string( ctor );
      if( !V.begin_case( "C06", label.c_str(), text.data(), text.size() ) ) return;
      const char eolch = ( eolpol == 1 || eolpol == 4 ) ? '\r' : '\n';
      verif::guarded_buffer gb( text, 0 );
      const bool dflt = ( init.byte == 0 && init.line == 1 && init.column == 1 );
      const std::string kinit = dflt ? "default-initial-position" : ( init.column == 1 ? "initial-byte-or-line" : "initial-column" );
      std::vector< obs > logs[ 2 ];
      for( int lazy = 0; lazy < 2; ++lazy ) {
         logs[ lazy ] = lazy ? dispatch< pegtl::tracking_mode::lazy >( eolpol, gb, text, init, ctor ) : dispatch< pegtl::tracking_mode::eager >( eolpol, gb, text, init, ctor );
         ++V.evaluations;
         const std::string tm = lazy ? "lazy" : "eager";
         bool reported = false;   // one error has many consequences: only the first discrepancy of a run is reported
         std::size_t stop = 0;    // where the tokens stopped = end of the last recorded match (the star<> itself)
         for( const obs& o : logs[ lazy ] ) {
            if( reported ) break;
            if( o.what == 3 ) { V.violation( "C06", "C06|initial|harness-grammar-did-not-raise", "the run did not end in the expected parse_error" ); reported = true; break; }
            if( o.what == 0 ) {
               stop = o.e;
               V.count( "initial:action-positions", 2 );
               const p3 xb = position_of( text, o.b, eolch, init );
               const p3 xe = position_of( text, o.e, eolch, init );
               if( o.pb != xb ) { V.violation( "C06", "C06|initial|action-input-position|" + tm + "|" + kinit, label + " on \"" + verif::show( text ) + "\": action_input::position() of the match [" + std::to_string( o.b ) + "," + std::to_string( o.e ) + ") is " + str( o.pb ) + ", the prefix gives " + str( xb ) ); reported = true; }
               else if( o.inbyte != xe.byte ) { V.violation( "C06", "C06|initial|input-byte|" + tm + "|" + kinit, label + " on \"" + verif::show( text ) + "\": in.byte() after the match [" + std::to_string( o.b ) + "," + std::to_string( o.e ) + ") is " + std::to_string( o.inbyte ) + ", initial offset plus consumed bytes is " + std::to_string( xe.byte ) ); reported = true; }
               else if( o.pe != xe ) { V.violation( "C06", "C06|initial|input-position-in-action|" + tm + "|" + kinit, label + " on \"" + verif::show( text ) + "\": in.input().position() after the match [" + std::to_string( o.b ) + "," + std::to_string( o.e ) + ") is " + str( o.pe ) + ", the prefix gives " + str( xe ) ); reported = true; }
            }
            else if( o.what == 1 ) {
               V.count( "initial:parse_error-positions" );
               // the must<> is attempted where the tokens stopped
               const p3 x = position_of( text, stop, eolch, init );
               if( o.pb != x ) { V.violation( "C06", "C06|initial|parse-error-position|" + tm + "|" + kinit, label + " on \"" + verif::show( text ) + "\": parse_error at " + str( o.pb ) + ", the prefix of " + std::to_string( stop ) + " bytes gives " + str( x ) ); reported = true; }
            }
            else {
               V.count( "initial:final-positions" );
               const p3 x = position_of( text, o.b, eolch, init );
               if( o.inbyte != x.byte ) { V.violation( "C06", "C06|initial|input-byte|" + tm + "|" + kinit, label + " on \"" + verif::show( text ) + "\": in.byte() after the run (cursor at " + std::to_string( o.b ) + ") is " + std::to_string( o.inbyte ) + ", initial offset plus consumed bytes is " + std::to_string( x.byte ) ); reported = true; }
               else if( o.pb != x ) { V.violation( "C06", "C06|initial|final-position|" + tm + "|" + kinit, label + " on \"" + verif::show( text ) + "\": in.position() after the run (cursor at " + std::to_string( o.b ) + ") is " + str( o.pb ) + ", the prefix gives " + str( x ) ); reported = true; }
            }
         }
      }
      // eager and lazy report identical positions, observation by observation
      if( logs[ 0 ].size() != logs[ 1 ].size() ) V.violation( "C06", "C06|initial|eager-lazy-differ|observations", label + " on \"" + verif::show( text ) + "\": " + std::to_string( logs[ 0 ].size() ) + " observations with eager tracking, " + std::to_string( logs[ 1 ].size() ) + " with lazy tracking" );
      else {
         for( std::size_t i = 0; i < logs[ 0 ].size(); ++i ) {
            const obs &a = logs[ 0 ][ i ], &b = logs[ 1 ][ i ];
            if( a.what != b.what || a.b != b.b || a.e != b.e || a.pb != b.pb || a.pe != b.pe || a.inbyte != b.inbyte ) {
               V.violation( "C06", "C06|initial|eager-lazy-differ|" + kinit, label + " on \"" + verif::show( text ) + "\": observation " + std::to_string( i ) + " is " + str( a.pb ) + " / " + str( a.pe ) + " with eager and " + str( b.pb ) + " / " + str( b.pe ) + " with lazy tracking" );
               break;
            }
         }
      }
      V.count( "initial:" + kinit );
      V.count( std::string( "initial:eol-policy:" ) + eol_names[ eolpol ] );
      if( text.size() > 1 ) ++V.nontrivial;
      if( V.samples.size() < V.max_samples && text.size() >= 4 && !dflt ) V.sample( "{\"input\":\"" + verif::jesc( verif::show( text ) ) + "\",\"config\":\"" + verif::jesc( label ) + "\",\"observations\":" + std::to_string( logs[ 0 ].size() ) + "}" );
   }
}  // namespace

int main( int argc, char** argv )
{
   verif::init( argc, argv );
   static const p3 inits[] = { { 0, 1, 1 }, { 5, 1, 7 }, { 1000, 3, 1 }, { 17, 9, 4 }, { 0, 1, 2 }, { 1, 1, 1 } };
   static const char alphabet[] = { 'a', 'b', '\n', '\r', '!' };
   const std::size_t maxlen = V.thorough() ? 6 : 5;
   // all strings over the alphabet up to maxlen, shortest first
   std::vector< std::string > texts{ "" };
   for( std::size_t lo = 0, len = 1; len <= maxlen; ++len ) {
      const std::size_t hi = texts.size();
      for( std::size_t i = lo; i < hi; ++i )
         for( const char c : alphabet ) texts.push_back( texts[ i ] + c );
      lo = hi;
   }
   verif::rng r( V.seed * 7919 + 17 );
   for( std::size_t i = 0, n = V.thorough() ? 4000 : 1000; i < n; ++i ) {
      std::string t;
      const std::size_t len = 7 + r.below( 40 );
      for( std::size_t k = 0; k < len; ++k ) t += alphabet[ r.below( 100 ) < 4 ? 4 : r.below( 4 ) ];
      texts.push_back( t );
   }
   for( const std::string& t : texts )
      for( int eolpol = 0; eolpol < 5; ++eolpol ) {
         // every string with two of the initial positions and one way of construction (rotating), the seeded long ones with all
         const bool all = t.size() > maxlen || t.size() <= 3;
         const std::size_t h = std::hash< std::string >{}( t ) + std::size_t( eolpol );
         for( std::size_t k = 0; k < 6; ++k ) {
            if( !all && k != h % 6 && k != ( h / 6 + 1 + h % 6 ) % 6 ) continue;
            for( int ctor = 0; ctor < 2; ++ctor ) {
               if( !all && ctor != int( ( h / 36 + k ) % 2 ) ) continue;
               one_case( t, inits[ k ], eolpol, ctor );
            }
         }
      }
   V.finish();
   return 0;
}
