// C18 — depth and byte limits are enforced exactly and leave no residue.
//
// Trace/invariant monitor.  The real guards (limit_depth<N> on input_with_depth<>, limit_bytes<N>,
// check_bytes<N>, all attached the documented way: the action of the guarded rule derives from the
// guard) run under a control class that observes every guarded invocation:
//
//   bytes:  at the `start` hook of the guarded rule (which runs *inside* the guard)
//              in.end() == start + min( N, ambient_end - start )            [limit_bytes]
//              in.end() == ambient_end                                       [check_bytes]
//           when the guarded invocation ends (success / local failure / exception)
//              in.end() == ambient_end again, consumed <= N on success,
//              (result, consumed, message, error position) == model
//           model: the same rule *without* guard on a fresh exact-size input holding only the bytes
//           [ start, start + min( N, remaining ) ), plus the guard's own documented error
//           ("maximum allowed rule consumption reached" when the rule used up a window that is
//           shorter than the remaining input; "... exceeded" for check_bytes when consumed > N).
//   depth:  tiny model = own count of the nesting of the guarded rule (RAII in the control's match
//           wrapper, outside the guard); at every `start` hook current_depth() == own count, own
//           count <= N inside the guarded rule; after every run current_depth() == 0; the result
//           equals the unguarded baseline when the baseline's maximal nesting is <= N and is the
//           documented parse_error at the first position where nesting N+1 is entered otherwise.
//
// C18_PART lets the spec build the parts as separate binaries (the grammar tables are expensive to compile):
// 0 everything, 1 depth, 2 limit_bytes at top level, 3 limit_bytes under try_catch_return_false,
// 4 check_bytes, 5 limit_bytes in a rematch<> sub-input, 6 / 7 limit_bytes<N> inside limit_bytes<2> / <5>.
#include <tao/pegtl.hpp>
#include <tao/pegtl/contrib/check_bytes.hpp>
#include <tao/pegtl/contrib/input_with_depth.hpp>
#include <tao/pegtl/contrib/limit_bytes.hpp>
#include <tao/pegtl/contrib/limit_depth.hpp>

#include <array>
#include <set>
#include <stdexcept>
#include <unordered_map>
#include <utility>

#include "common/verif.hpp"

#ifndef C18_PART
#define C18_PART 0
#endif

namespace pegtl = tao::pegtl;
using verif::V;

namespace
{
   // ------------------------------------------------------------------ shared
   // st: 1 success (pos = byte reached / bytes consumed), 0 local failure, 2 parse_error (pos = byte of
   // the error position), 3 other std::exception, 4 run cut short by the monitor, 5 unknown exception type
   struct res
   {
      int st = 0;
      std::size_t pos = 0;
      std::string msg;
   };

   bool same( const res& a, const res& b )
   {
      return a.st == b.st && ( a.st == 0 || a.st == 3 || a.pos == b.pos ) && a.msg == b.msg;
   }

   const char* st_name( const int st )
   {
      switch( st ) {
         case 0: return "local-failure";
         case 1: return "success";
         case 2: return "parse_error";
         case 3: return "exception";
         case 4: return "monitor-abort";
         default: return "unknown-exception";
      }
   }

   std::string show( const res& r )
   {
      std::string s = st_name( r.st );
      if( r.st == 1 || r.st == 2 ) s += "@" + std::to_string( r.pos );
      if( !r.msg.empty() ) s += " '" + r.msg + "'";
      return s;
   }

   // thrown by the monitor itself when letting the run go on would read outside the buffer
   struct monitor_abort
   {};

   constexpr std::size_t NN = 7;  // limits 0..6

   // a few samples per binary, from its first shard only (the evidence file keeps 12 in all)
   void sample_few( const std::string& json )
   {
      static int n = 0;
      if( V.shard == 0 && n < 2 ) {
         ++n;
         V.sample( json );
      }
   }

   [[maybe_unused]] constexpr bool part_on( const int p ) { return C18_PART == 0 || C18_PART == p; }

   // =================================================================== bytes
#if C18_PART != 1
   struct inv  // one finished guarded invocation
   {
      int guard;  // 0 limit_bytes, 1 check_bytes
      std::size_t N;
      std::size_t start;  // offset in the buffer
      res r;              // pos: bytes consumed (success) / absolute byte (parse_error)
   };

   struct frame
   {
      const char* start;
      const char* ambient;  // in.end() when the guarded rule was entered
      std::size_t N;
      int guard;
   };

   struct mon
   {
      const char* base = nullptr;
      const char* ambient0 = nullptr;  // end of the (sub-)input in which the outermost guarded rule runs
      std::size_t off[ 3 ] = { 0, 0, 0 };
      std::vector< frame > frames;
      std::vector< inv > invs;
      bool tainted = false;          // a wrong window or a residue was reported: results of this run are consequences
      bool residue_reported = false;  // an unrestored end was already reported in this run
      // description of the case for reports
      const char* ctx = "";
      const char* kind = "";
      std::size_t N = 0;
      int mode = 0;
      const std::string* input = nullptr;

      std::string describe() const
      {
         std::string s = std::string( ctx ) + " rule " + kind + " N=" + std::to_string( N ) + " input '" + ( input ? verif::show( *input ) : std::string() ) + "' offsets " + std::to_string( off[ 0 ] ) + "," + std::to_string( off[ 1 ] ) + "," + std::to_string( off[ 2 ] ) + " buffer-mode " + std::to_string( mode );
         return s;
      }
      std::string replay() const
      {
         return "{\"ctx\":\"" + std::string( ctx ) + "\",\"rule\":\"" + kind + "\",\"N\":" + std::to_string( N ) + ",\"input\":\"" + ( input ? verif::jesc( *input ) : std::string() ) + "\",\"off\":[" + std::to_string( off[ 0 ] ) + "," + std::to_string( off[ 1 ] ) + "," + std::to_string( off[ 2 ] ) + "],\"mode\":" + std::to_string( mode ) + "}";
      }
   };

   const char* gname( const int g ) { return g == 0 ? "limit_bytes" : "check_bytes"; }

   void bviol( const mon& m, const int guard, const std::string& cls, const std::string& text )
   {
      V.violation( "C18", std::string( "C18|" ) + gname( guard ) + "|" + cls, m.describe() + ": " + text, m.replay() );
   }

   const mon* g_cur = nullptr;  // run in flight (for the window hook)

   namespace gr
   {
      using namespace tao::pegtl;

      // consumes m.off[ Slot ] bytes: puts the guarded rule at a run-time offset
      template< int Slot >
      struct skip
      {
         using rule_t = skip;
         using subs_t = empty_list;

         template< apply_mode A, rewind_mode M, template< typename... > class Action, template< typename... > class Control, typename In >
         [[nodiscard]] static bool match( In& in, mon& m )
         {
            const std::size_t n = m.off[ Slot ];
            if( in.size( n ) < n ) return false;
            in.bump( n );
            return true;
         }
      };

      struct bang : one< '!' > {};  // its action throws std::runtime_error

      constexpr int NK = 8;
      template< int K > struct body;
      template<> struct body< 0 > : star< one< 'a' > > {};                                       // greedy
      template<> struct body< 1 > : plus< any > {};                                              // greedy
      template<> struct body< 2 > : until< one< 'b' > > {};                                      // greedy, fails without terminator
      template<> struct body< 3 > : seq< at< rep< 3, any > >, one< 'a' > > {};                   // inspects 3, consumes 1
      template<> struct body< 4 > : seq< at< string< 'a', 'a', 'a', 'a' > >, one< 'a' > > {};    // inspects 4 (size + memcmp), consumes 1
      template<> struct body< 5 > : seq< plus< one< 'a' > >, one< 'b' > > {};                    // consumes, then may fail
      template<> struct body< 6 > : seq< one< 'a' >, must< one< 'b' > > > {};                    // throws parse_error from must<>
      template<> struct body< 7 > : seq< star< one< 'a' > >, opt< bang > > {};                   // throws from an action

      template< int G, std::size_t N, int K > struct guarded : body< K > {};

      struct tail : seq< star< any >, eof > {};

      template< int G, std::size_t N, int K > struct g_top : seq< skip< 0 >, opt< guarded< G, N, K > >, tail > {};
      template< int G, std::size_t N, int K > struct g_catch : seq< skip< 0 >, opt< try_catch_return_false< guarded< G, N, K > > >, tail > {};
      template< std::size_t N, int K > struct g_rematch : seq< skip< 0 >, rematch< skip< 1 >, seq< skip< 2 >, opt< guarded< 0, N, K > >, tail > >, tail > {};
      template< std::size_t M, std::size_t N, int K > struct outerg : seq< skip< 1 >, opt< guarded< 0, N, K > >, star< one< 'a' > > > {};
      template< std::size_t M, std::size_t N, int K > struct g_nested : seq< skip< 0 >, opt< outerg< M, N, K > >, tail > {};

      template< typename R > struct bact : nothing< R > {};
      template< std::size_t N, int K > struct bact< guarded< 0, N, K > > : limit_bytes< N > {};
      template< std::size_t N, int K > struct bact< guarded< 1, N, K > > : check_bytes< N > {};
      template< std::size_t M, std::size_t N, int K > struct bact< outerg< M, N, K > > : limit_bytes< M > {};
      template<> struct bact< bang >
      {
         static void apply0( mon& /*unused*/ ) { throw std::runtime_error( "bang" ); }
      };
   }  // namespace gr

   const char* const kind_name[ gr::NK ] = { "star_a", "plus_any", "until_b", "at_rep3", "at_str4", "seq_ab", "must_b", "act_throw" };
   const char* const kind_class[ gr::NK ] = { "greedy", "greedy", "greedy", "look-ahead", "look-ahead", "failing", "throwing", "throwing" };
   const char* const kind_filler[ gr::NK ] = { "a", "a", "ab", "aaa", "aaaa", "ab", "b", "a!" };

   template< typename R > struct ginfo { static constexpr int guard = -1; static constexpr std::size_t N = 0; };
   template< int G, std::size_t N_, int K > struct ginfo< gr::guarded< G, N_, K > > { static constexpr int guard = G; static constexpr std::size_t N = N_; };
   template< std::size_t M, std::size_t N_, int K > struct ginfo< gr::outerg< M, N_, K > > { static constexpr int guard = 0; static constexpr std::size_t N = M; };

   template< typename In >
   void check_restored( const In& in, mon& m, const int guard, const char* ambient, const char* outcome )
   {
      if( in.end() != ambient ) m.tainted = true;
      if( in.end() != ambient && !m.residue_reported ) {
         m.residue_reported = true;
         bviol( m, guard, std::string( "end-not-restored-after-" ) + outcome, "after the guarded rule ended (" + std::string( outcome ) + ") in.end() is at offset " + std::to_string( in.end() - m.base ) + ", before the guard it was at " + std::to_string( ambient - m.base ) );
      }
   }

   template< typename Rule >
   struct bctl : pegtl::normal< Rule >
   {
      template< typename In >
      static void start( const In& in, mon& m )
      {
         if constexpr( ginfo< Rule >::guard >= 0 ) {
            const frame& f = m.frames.back();
            const std::size_t remaining = std::size_t( f.ambient - f.start );
            const char* expected = ( f.guard == 0 ) ? f.start + std::min( f.N, remaining ) : f.ambient;
            if( in.current() != f.start ) bviol( m, f.guard, "cursor-moved-before-start", "cursor at the start hook differs from the cursor at entry" );
            if( in.end() != expected ) {
               m.tainted = true;
               const bool nonzero = ( f.start != in.begin() );
               bviol( m, f.guard, std::string( f.guard == 0 ? "end-not-at-start-plus-N|" : "end-changed|" ) + ( nonzero ? "offset-nonzero" : "offset-zero" ),
                      "guarded rule starts at buffer offset " + std::to_string( f.start - m.base ) + " (" + std::to_string( f.start - in.begin() ) + " from the begin() of its input), " + std::to_string( remaining ) + " bytes remain: inside the guard in.end() must be at offset " + std::to_string( expected - m.base ) + " but is at " + std::to_string( in.end() - m.base ) + " (in.size() = " + std::to_string( in.size() ) + ")" );
               if( in.end() < in.current() || in.end() > f.ambient ) throw monitor_abort();  // going on would read outside the buffer
            }
         }
      }

      template< pegtl::apply_mode A, pegtl::rewind_mode M, template< typename... > class Action, template< typename... > class Control, typename In >
      [[nodiscard]] static bool match( In& in, mon& m )
      {
         if constexpr( ginfo< Rule >::guard < 0 ) {
            return pegtl::normal< Rule >::template match< A, M, Action, Control >( in, m );
         }
         else {
            constexpr int G = ginfo< Rule >::guard;
            constexpr std::size_t N = ginfo< Rule >::N;
            const char* const s = in.current();
            const char* const ae = in.end();
            if( m.frames.empty() && ae != m.ambient0 ) bviol( m, G, "ambient-end-wrong-at-entry", "in.end() at entry of the outermost guarded rule is at offset " + std::to_string( ae - m.base ) + ", expected " + std::to_string( m.ambient0 - m.base ) );
            m.frames.push_back( frame{ s, ae, N, G } );
            const std::size_t level = m.frames.size();
            inv rec{ G, N, std::size_t( s - m.base ), {} };
            bool r = false;
            try {
               r = pegtl::normal< Rule >::template match< A, M, Action, Control >( in, m );
            }
            catch( const pegtl::parse_error& e ) {
               m.frames.resize( level - 1 );
               rec.r = res{ 2, e.position_object().byte, std::string( e.message() ) };
               m.invs.push_back( rec );
               check_restored( in, m, G, ae, "exception" );
               throw;
            }
            catch( const monitor_abort& ) {
               m.frames.resize( level - 1 );
               check_restored( in, m, G, ae, "exception" );
               throw;
            }
            catch( const std::exception& e ) {
               m.frames.resize( level - 1 );
               rec.r = res{ 3, 0, e.what() };
               m.invs.push_back( rec );
               check_restored( in, m, G, ae, "exception" );
               throw;
            }
            m.frames.resize( level - 1 );
            const std::size_t consumed = std::size_t( in.current() - s );
            rec.r = r ? res{ 1, consumed, "" } : res{ 0, 0, "" };
            m.invs.push_back( rec );
            check_restored( in, m, G, ae, r ? "success" : "local-failure" );
            if( r && consumed > N ) bviol( m, G, G == 0 ? "consumed-more-than-N" : "success-with-more-than-N-consumed", "guarded rule succeeded having consumed " + std::to_string( consumed ) + " bytes from offset " + std::to_string( s - m.base ) );
            if( !r && in.current() != s && M != pegtl::rewind_mode::optional ) bviol( m, G, "cursor-moved-on-local-failure", "guarded rule failed with the cursor moved by " + std::to_string( in.current() - s ) );
            return r;
         }
      }
   };

   void on_window( int op, const void* /*unused*/, std::size_t request, std::size_t available )
   {
      if( g_cur != nullptr ) {
         bviol( *g_cur, 0, "access-beyond-window", "input operation " + std::to_string( op ) + " requested " + std::to_string( request ) + " with " + std::to_string( available ) + " bytes in [current,end)" );
      }
      else {
         V.violation( "C18", "C18|model|access-beyond-window", "unguarded model run: input operation " + std::to_string( op ) + " requested " + std::to_string( request ) + " with " + std::to_string( available ) + " available" );
      }
   }

   // ---- the real run
   template< typename Grammar >
   res run_grammar( const verif::guarded_buffer& gb, mon& m )
   {
      pegtl::memory_input<> in( gb.begin(), gb.end(), "c18" );
      m.base = gb.begin();
      m.frames.clear();
      m.invs.clear();
      m.tainted = false;
      m.residue_reported = false;
      res r;
      g_cur = &m;
      try {
         const bool ok = pegtl::parse< Grammar, gr::bact, bctl >( in, m );
         r = ok ? res{ 1, in.byte(), "" } : res{ 0, 0, "" };
      }
      catch( const pegtl::parse_error& e ) {
         r = res{ 2, e.position_object().byte, std::string( e.message() ) };
      }
      catch( const monitor_abort& ) {
         r = res{ 4, 0, "" };
      }
      catch( const std::exception& e ) {
         r = res{ 3, 0, e.what() };
      }
      catch( ... ) {
         r = res{ 5, 0, "" };
      }
      g_cur = nullptr;
      if( in.end() != gb.end() ) m.tainted = true;
      if( in.end() != gb.end() && !m.residue_reported ) bviol( m, 0, std::string( "end-not-restored-after-" ) + ( r.st == 1 ? "success" : r.st == 0 ? "local-failure" : "exception" ), "after parse() returned (" + show( r ) + ") in.end() is at offset " + std::to_string( in.end() - gb.begin() ) + " of " + std::to_string( gb.size ) );
      if( !m.frames.empty() ) V.violation( "C18", "C18|harness|frame-stack-not-empty", m.describe() );
      return r;
   }

   using runfn = res ( * )( const verif::guarded_buffer&, mon& );

   template< template< std::size_t, int > class Ctx, std::size_t... I >
   constexpr std::array< runfn, sizeof...( I ) > make_table( std::index_sequence< I... > /*unused*/ )
   {
      return { { &run_grammar< Ctx< I / gr::NK, int( I % gr::NK ) > >... } };
   }
   using table_t = std::array< runfn, NN * gr::NK >;
   using table_seq = std::make_index_sequence< NN * gr::NK >;

   // the table of a context is only instantiated in the binaries that use it
   template< bool Enable, template< std::size_t, int > class Ctx >
   table_t table_if()
   {
      if constexpr( Enable ) return make_table< Ctx >( table_seq() );
      else return table_t();
   }

   // ---- the model
   template< int K >
   res model_run( const std::string& window )
   {
      verif::guarded_buffer gb( window, 0 );
      pegtl::memory_input<> in( gb.begin(), gb.end(), "model" );
      mon dummy;
      try {
         const bool ok = pegtl::parse< gr::body< K >, gr::bact >( in, dummy );
         return ok ? res{ 1, in.byte(), "" } : res{ 0, 0, "" };
      }
      catch( const pegtl::parse_error& e ) {
         return res{ 2, e.position_object().byte, std::string( e.message() ) };
      }
      catch( const std::exception& e ) {
         return res{ 3, 0, e.what() };
      }
   }

   template< std::size_t... K >
   constexpr std::array< res ( * )( const std::string& ), sizeof...( K ) > make_models( std::index_sequence< K... > /*unused*/ )
   {
      return { { &model_run< int( K ) >... } };
   }

   const res& model_body( const int K, const std::string& window )
   {
      static const auto fns = make_models( std::make_index_sequence< gr::NK >() );
      static std::unordered_map< std::string, res > memo[ gr::NK ];
      auto it = memo[ K ].find( window );
      if( it == memo[ K ].end() ) it = memo[ K ].emplace( window, fns[ K ]( window ) ).first;
      return it->second;
   }

   struct expect
   {
      res r;               // of the guarded invocation; pos: consumed (success) / absolute byte (parse_error)
      bool limit = false;  // r is the guard's own error
   };

   const char* const msg_reached = "maximum allowed rule consumption reached";
   const char* const msg_exceeded = "maximum allowed rule consumption exceeded";

   expect model_guard( const int G, const std::size_t N, const int K, const std::string& input, const std::size_t start, const std::size_t ambient )
   {
      const std::size_t remaining = ambient - start;
      expect e;
      if( G == 0 ) {
         const std::size_t w = std::min( N, remaining );
         e.r = model_body( K, input.substr( start, w ) );
         if( e.r.st == 2 ) e.r.pos += start;
         if( e.r.st == 1 && e.r.pos == w && w != remaining ) {
            e.r = res{ 2, start + w, msg_reached };
            e.limit = true;
         }
      }
      else {
         e.r = model_body( K, input.substr( start, remaining ) );
         if( e.r.st == 2 ) e.r.pos += start;
         if( e.r.st == 1 && e.r.pos > N ) {
            e.r = res{ 2, start + e.r.pos, msg_exceeded };
            e.limit = true;
         }
      }
      return e;
   }

   // smallest window from which on the unguarded rule behaves as on the whole remaining input
   std::size_t needed_bytes( const int K, const std::string& input, const std::size_t start, const std::size_t ambient )
   {
      const std::size_t remaining = ambient - start;
      const res full = model_body( K, input.substr( start, remaining ) );
      std::size_t w = remaining;
      while( w > 0 ) {
         const res& r = model_body( K, input.substr( start, w - 1 ) );
         if( !( r.st == full.st && r.pos == full.pos && r.msg == full.msg ) ) break;
         --w;
      }
      return w;
   }

   const char* outcome_cell( const expect& e )
   {
      if( e.limit ) return "limit-error";
      switch( e.r.st ) {
         case 1: return "success";
         case 0: return "local-failure";
         case 2: return "inner-parse_error";
         default: return "inner-exception";
      }
   }

   bool compare_inv( const mon& m, const inv& got, const int G, const std::size_t N, const std::size_t start, const expect& e )
   {
      if( got.guard != G || got.N != N || got.start != start ) {
         bviol( m, G, "guarded-invocation-out-of-place", "expected the invocation of " + std::string( gname( G ) ) + "<" + std::to_string( N ) + "> at offset " + std::to_string( start ) + ", observed " + gname( got.guard ) + "<" + std::to_string( got.N ) + "> at " + std::to_string( got.start ) );
         return false;
      }
      if( same( got.r, e.r ) ) return true;
      std::string cls;
      if( e.limit ) {
         if( got.r.st != 2 ) cls = "no-error-beyond-limit";
         else if( got.r.msg != e.r.msg ) cls = "wrong-message";
         else cls = "wrong-error-position";
      }
      else {
         cls = ( G == 0 ) ? "result-differs-from-unguarded-on-window" : "result-differs-from-unguarded-within-limit";
      }
      bviol( m, G, cls, "guarded invocation at offset " + std::to_string( start ) + ": model " + show( e.r ) + ", observed " + show( got.r ) );
      return false;
   }

   struct bcase
   {
      const char* ctx;
      int G;
      std::string input;
      std::size_t off[ 3 ];
      bool inner_at_begin;  // the guarded rule starts at the begin() of the input it runs in
   };

   // One (context, input, offsets) x all rule kinds x all N x both buffer modes.
   // expected( K, N, invs, overall ) fills the model's list of guarded invocations and the overall parse result.
   template< typename Expected >
   void sweep( const bcase& c, const table_t& table, const std::size_t ambient0, const std::size_t inner_start, Expected&& expected )
   {
      mon m;
      m.ctx = c.ctx;
      m.input = &c.input;
      m.off[ 0 ] = c.off[ 0 ];
      m.off[ 1 ] = c.off[ 1 ];
      m.off[ 2 ] = c.off[ 2 ];
      for( int K = 0; K < gr::NK; ++K ) {
         m.kind = kind_name[ K ];
         for( std::size_t N = 0; N < NN; ++N ) {
            m.N = N;
            std::vector< std::pair< inv, expect > > exp_invs;  // inv.r unused
            res exp_overall;
            long needed = -2;
            expected( K, N, exp_invs, exp_overall, needed );
            const bool nontrivial = ( needed + 1 >= long( N ) );
            const expect* inner = nullptr;
            for( const auto& p : exp_invs )
               if( p.first.start == inner_start && p.first.N == N ) {
                  inner = &p.second;  // the innermost guarded rule finishes first
                  break;
               }
            const char* oc = inner ? outcome_cell( *inner ) : "not-reached";
            for( int mode = 0; mode < 2; ++mode ) {
               m.mode = mode;
               char extra[ 96 ];
               std::snprintf( extra, sizeof extra, "%s rule=%s N=%zu mode=%d off=%zu,%zu,%zu", c.ctx, kind_name[ K ], N, mode, c.off[ 0 ], c.off[ 1 ], c.off[ 2 ] );
               V.set_extra( extra );
               verif::guarded_buffer gb( c.input, mode, kind_filler[ K ] );
               m.ambient0 = gb.begin() + ambient0;
               const res got = table[ N * gr::NK + std::size_t( K ) ]( gb, m );
               ++V.evaluations;
               if( m.tainted ) {
                  V.count( "bytes-tainted-runs|" + std::string( c.ctx ) );
                  continue;
               }
               bool invs_ok = true;
               if( m.invs.size() != exp_invs.size() ) {
                  invs_ok = false;
                  bviol( m, c.G, "number-of-guarded-invocations", "model expects " + std::to_string( exp_invs.size() ) + " guarded invocations, observed " + std::to_string( m.invs.size() ) );
               }
               else {
                  // innermost first; a difference in an inner invocation explains those of the enclosing ones
                  for( std::size_t i = 0; i < exp_invs.size() && invs_ok; ++i ) invs_ok = compare_inv( m, m.invs[ i ], exp_invs[ i ].first.guard, exp_invs[ i ].first.N, exp_invs[ i ].first.start, exp_invs[ i ].second );
               }
               if( invs_ok && !same( got, exp_overall ) ) bviol( m, c.G, "parse-result-differs-from-model", "whole parse: model " + show( exp_overall ) + ", observed " + show( got ) );
            }
            const bool off0 = c.inner_at_begin;
            V.count( std::string( "bytes|" ) + gname( c.G ) + "|N" + std::to_string( N ) + "|" + oc + "|" + ( off0 ? "offset-zero" : "offset-nonzero" ), 2 );
            V.count( std::string( "bytes-ctx|" ) + c.ctx + "|" + kind_name[ K ], 2 );
            V.count( std::string( "bytes-kind|" ) + kind_class[ K ] + "|" + kind_name[ K ] + "|" + oc, 2 );
            if( nontrivial ) {
               ++V.nontrivial;
               V.count( std::string( "bytes-nontrivial|" ) + gname( c.G ) );
            }
            if( inner && N == 3 && K == 0 && inner_start >= 2 && inner->limit ) sample_few( "{\"part\":\"bytes\",\"ctx\":\"" + std::string( c.ctx ) + "\",\"rule\":\"" + kind_name[ K ] + "\",\"N\":3,\"input\":\"" + verif::jesc( c.input ) + "\",\"offset\":" + std::to_string( inner_start ) + ",\"model\":\"" + verif::jesc( show( inner->r ) ) + "\"}" );
         }
      }
   }

   std::vector< std::string > bodies( const std::size_t maxlen )
   {
      static const char alpha[] = "ab!";
      std::vector< std::string > out;
      out.emplace_back();
      std::size_t from = 0;
      for( std::size_t l = 1; l <= maxlen; ++l ) {
         const std::size_t to = out.size();
         for( std::size_t i = from; i < to; ++i )
            for( const char* a = alpha; *a; ++a ) out.push_back( out[ i ] + *a );
         from = to;
      }
      return out;
   }

   constexpr std::size_t MAXLEN = 10;
#endif

   // ------------------------------------------------------------------ bytes, guarded rule directly in the top-level input
#if C18_PART == 0 || ( C18_PART >= 2 && C18_PART <= 4 )
   template< std::size_t N, int K > using c_top = gr::g_top< 0, N, K >;
   template< std::size_t N, int K > using c_catch = gr::g_catch< 0, N, K >;
   template< std::size_t N, int K > using c_check = gr::g_top< 1, N, K >;

   void top_case( const char* ctx, const int G, const bool catching, const table_t& table, const std::string& input, const std::size_t o )
   {
      if( !V.begin_case( "C18", gname( G ), input.data(), input.size() ) ) return;
      bcase c{ ctx, G, input, { o, 0, 0 }, o == 0 };
      const std::size_t len = input.size();
      sweep( c, table, len, o, [ & ]( const int K, const std::size_t N, std::vector< std::pair< inv, expect > >& invs, res& overall, long& needed ) {
         const expect e = model_guard( G, N, K, input, o, len );
         invs.push_back( { inv{ G, N, o, {} }, e } );
         if( e.r.st == 3 || ( e.r.st == 2 && !catching ) ) overall = e.r;  // try_catch_return_false swallows parse_errors only
         else overall = res{ 1, len, "" };
         if( G == 0 ) {
            needed = long( needed_bytes( K, input, o, len ) );
         }
         else {
            // check_bytes only comes near its boundary when the rule succeeds: needed = bytes it consumes
            const res& full = model_body( K, input.substr( o ) );
            needed = ( full.st == 1 ) ? long( full.pos ) : -2;
         }
      } );
   }

   void part_bytes_top()
   {
      static const table_t t_top = table_if< part_on( 2 ), c_top >();
      static const table_t t_catch = table_if< part_on( 3 ), c_catch >();
      static const table_t t_check = table_if< part_on( 4 ), c_check >();
      const std::vector< std::string > bs = bodies( V.thorough() ? 8 : 5 );
      for( std::size_t o = 0; o <= MAXLEN; ++o ) {
         for( const std::string& b : bs ) {
            if( o + b.size() > MAXLEN ) continue;
            const std::string input = std::string( o, 'a' ) + b;
            if( part_on( 2 ) ) top_case( "top", 0, false, t_top, input, o );
            if( part_on( 3 ) && ( V.thorough() || b.size() <= 4 ) ) top_case( "top-caught", 0, true, t_catch, input, o );
            if( part_on( 4 ) ) top_case( "top", 1, false, t_check, input, o );
         }
      }
      // seeded: longer bodies (up to the whole length 10) at random offsets, prefix bytes not all 'a'
      verif::rng r( V.seed * 7919 + 18 );
      const int nrand = V.thorough() ? 20000 : 1000;
      for( int i = 0; i < nrand; ++i ) {
         const std::size_t o = r.below( MAXLEN + 1 );
         const std::size_t l = r.below( MAXLEN - o + 1 );
         std::string input;
         for( std::size_t k = 0; k < o; ++k ) input += "ab!"[ r.below( 3 ) ];
         for( std::size_t k = 0; k < l; ++k ) input += r.chance( 3, 5 ) ? 'a' : "ab!"[ r.below( 3 ) ];
         if( l <= ( V.thorough() ? 8u : 5u ) && input.find_first_not_of( 'a' ) >= o ) continue;  // part of the exhaustive sweep
         if( !V.distinct( input, o + 1000 ) ) continue;
         if( part_on( 2 ) ) top_case( "top", 0, false, t_top, input, o );
         if( part_on( 3 ) ) top_case( "top-caught", 0, true, t_catch, input, o );
         if( part_on( 4 ) ) top_case( "top", 1, false, t_check, input, o );
      }
   }
#endif

   // ------------------------------------------------------------------ bytes, guarded rule inside a rematch<> sub-input and inside another guard
#if C18_PART == 0 || C18_PART >= 5
   template< std::size_t N, int K > using c_rematch = gr::g_rematch< N, K >;
   template< std::size_t N, int K > using c_nested2 = gr::g_nested< 2, N, K >;
   template< std::size_t N, int K > using c_nested5 = gr::g_nested< 5, N, K >;

   void part_bytes_sub()
   {
      static const table_t t_rematch = table_if< part_on( 5 ), c_rematch >();
      static const table_t t_nested2 = table_if< part_on( 6 ), c_nested2 >();
      static const table_t t_nested5 = table_if< part_on( 7 ), c_nested5 >();
      const std::vector< std::string > bs = bodies( V.thorough() ? 6 : 4 );
      // rematch: input = 'a'*o1 . [ 'a'*o2 . body ] . trailer ; the bracketed part is the sub-input
      static const std::size_t o1s[] = { 0, 2, 1, 3 };
      static const char* const trailers[] = { "", "ab" };
      for( std::size_t i1 = 0; i1 < ( V.thorough() ? 4u : 2u ); ++i1 )
         for( const char* tr : trailers ) {
            if( !part_on( 5 ) ) break;
            const std::size_t o1 = o1s[ i1 ];
            for( std::size_t o2 = 0; o2 <= 5; ++o2 )
               for( const std::string& b : bs ) {
                  const std::size_t hl = o2 + b.size();
                  if( o1 + hl + std::strlen( tr ) > MAXLEN ) continue;
                  const std::string input = std::string( o1, 'a' ) + std::string( o2, 'a' ) + b + tr;
                  if( !V.begin_case( "C18", "limit_bytes", input.data(), input.size() ) ) continue;
                  bcase c{ "rematch", 0, input, { o1, hl, o2 }, o2 == 0 };
                  const std::size_t len = input.size();
                  const std::size_t start = o1 + o2;
                  const std::size_t amb = o1 + hl;
                  sweep( c, t_rematch, amb, start, [ & ]( const int K, const std::size_t N, std::vector< std::pair< inv, expect > >& invs, res& overall, long& needed ) {
                     const expect e = model_guard( 0, N, K, input, start, amb );
                     invs.push_back( { inv{ 0, N, start, {} }, e } );
                     overall = ( e.r.st >= 2 ) ? e.r : res{ 1, len, "" };
                     needed = long( needed_bytes( K, input, start, amb ) );
                  } );
               }
         }
      // nested: input = 'a'*o1 . { 'a'*o2 . body . 'a'*t } ; limit_bytes<M> on the braces' rule, limit_bytes<N> on body's
      for( int mi = 0; mi < 2; ++mi ) {
         if( !part_on( 6 + mi ) ) continue;
         const std::size_t M = mi == 0 ? 2 : 5;
         const table_t& table = mi == 0 ? t_nested2 : t_nested5;
         for( std::size_t o1 = 0; o1 <= 2; ++o1 )
            for( std::size_t o2 = 0; o2 <= ( V.thorough() ? 3u : 2u ); ++o2 )
               for( std::size_t t = 0; t <= 3; t += 3 )
                  for( const std::string& b : bs ) {
                     if( o1 + o2 + b.size() + t > MAXLEN ) continue;
                     const std::string input = std::string( o1 + o2, 'a' ) + b + std::string( t, 'a' );
                     if( !V.begin_case( "C18", "limit_bytes", input.data(), input.size() ) ) continue;
                     bcase c{ mi == 0 ? "nested-in-limit2" : "nested-in-limit5", 0, input, { o1, o2, 0 }, o1 + o2 == 0 };
                     const std::size_t len = input.size();
                     const std::size_t w1end = o1 + std::min( M, len - o1 );
                     const std::size_t start = o1 + o2;
                     sweep( c, table, len, start, [ & ]( const int K, const std::size_t N, std::vector< std::pair< inv, expect > >& invs, res& overall, long& needed ) {
                        expect outer;
                        needed = -2;
                        if( start > w1end ) {
                           outer.r = res{ 0, 0, "" };  // skip< 1 > does not fit into the outer window
                        }
                        else {
                           const expect e = model_guard( 0, N, K, input, start, w1end );
                           invs.push_back( { inv{ 0, N, start, {} }, e } );
                           needed = long( needed_bytes( K, input, start, w1end ) );
                           if( e.r.st >= 2 ) {
                              outer = e;  // passes through the outer guard unchanged
                              outer.limit = false;
                           }
                           else {
                              std::size_t pos = start + ( e.r.st == 1 ? e.r.pos : 0 );
                              while( pos < w1end && input[ pos ] == 'a' ) ++pos;  // star< one< 'a' > > inside the outer window
                              if( pos == w1end && w1end != len ) {
                                 outer.r = res{ 2, w1end, msg_reached };
                                 outer.limit = true;
                              }
                              else {
                                 outer.r = res{ 1, pos - o1, "" };
                              }
                           }
                        }
                        invs.push_back( { inv{ 0, M, o1, {} }, outer } );
                        overall = ( outer.r.st >= 2 ) ? outer.r : res{ 1, len, "" };
                     } );
                  }
      }
   }
#endif

   // =================================================================== depth
#if C18_PART == 0 || C18_PART == 1
   struct dmon
   {
      bool guarded = false;
      std::size_t N = 0;
      std::size_t nest = 0;     // own count of active invocations of the guarded rule
      std::size_t maxnest = 0;
      std::size_t first_entry[ 40 ] = { 0 };  // byte position at which nesting level k was first entered
      bool tainted = false;                    // the counter was seen wrong during this run: its result is a consequence
      const char* grammar = "";
      const std::string* input = nullptr;
      const char* mode = "";   // "" = apply_mode::action; otherwise a key suffix naming the run mode

      std::string describe() const
      {
         return std::string( "grammar " ) + grammar + " limit_depth<" + std::to_string( N ) + ">" + ( mode[ 0 ] ? " (actions attached, parse run with apply_mode::nothing)" : "" ) + " input '" + verif::show( *input ) + "'";
      }
      std::string replay() const
      {
         return std::string( "{\"grammar\":\"" ) + grammar + "\",\"N\":" + std::to_string( N ) + ",\"input\":\"" + verif::jesc( *input ) + "\"}";
      }
   };

   void dviol( dmon& m, const std::string& cls, const std::string& text, const bool taints = false )
   {
      if( taints ) {
         if( m.tainted ) return;  // once per run
         m.tainted = true;
      }
      V.violation( "C18", "C18|limit_depth|" + cls + m.mode, m.describe() + ": " + text, m.replay() );
   }

   namespace dg
   {
      using namespace tao::pegtl;

      template< std::size_t N > struct lim {};
      struct unl {};

      template< typename T > struct bomb : one< '!' > {};  // its action throws std::runtime_error

      // 1: plain recursion; 2: a list of such groups (the counter has to come back between siblings)
      template< typename T > struct nest : seq< one< '(' >, opt< sor< bomb< T >, nest< T > > >, one< ')' > > {};
      template< typename T > struct g1 : seq< nest< T >, eof > {};
      template< typename T > struct g2 : seq< star< nest< T > >, eof > {};
      // 3: recursion through sor<> and must<>
      template< typename T > struct value;
      template< typename T > struct arr : if_must< one< '[' >, value< T >, one< ']' > > {};
      template< typename T > struct value : sor< one< 'x' >, bomb< T >, arr< T > >
      {
         static constexpr const char* error_message = "value expected";  // same text with and without guard (the default names the type)
      };
      template< typename T > struct g3 : seq< value< T >, eof > {};
      // 4: the depth error is swallowed by a try_catch_return_false at a non-zero depth and the group is parsed by an unguarded fallback
      template< typename T > struct ugroup : seq< one< '(' >, opt< ugroup< T > >, one< ')' > > {};
      template< typename T > struct nest4 : seq< one< '(' >, opt< sor< try_catch_return_false< nest4< T > >, ugroup< T > > >, one< ')' > > {};
      template< typename T > struct g4 : seq< star< nest4< T > >, eof > {};

      template< typename R > struct dact : nothing< R > {};
      template< std::size_t N > struct dact< nest< lim< N > > > : limit_depth< N > {};
      template< std::size_t N > struct dact< value< lim< N > > > : limit_depth< N > {};
      template< std::size_t N > struct dact< nest4< lim< N > > > : limit_depth< N > {};
      template< typename T > struct dact< bomb< T > >
      {
         static void apply0( dmon& /*unused*/ ) { throw std::runtime_error( "bomb" ); }
      };
   }  // namespace dg

   template< typename R > struct counted : std::false_type {};
   template< typename T > struct counted< dg::nest< T > > : std::true_type {};
   template< typename T > struct counted< dg::value< T > > : std::true_type {};
   template< typename T > struct counted< dg::nest4< T > > : std::true_type {};

   template< typename Rule >
   struct dctl : pegtl::normal< Rule >
   {
      template< typename In >
      static void start( const In& in, dmon& m )
      {
         if( m.guarded ) {
            if( in.current_depth() != m.nest ) dviol( m, "counter-differs-from-nesting", "at the start of " + std::string( pegtl::demangle< Rule >() ) + " at byte " + std::to_string( in.byte() ) + " current_depth() is " + std::to_string( in.current_depth() ) + " with " + std::to_string( m.nest ) + " guarded invocations active", true );
            if constexpr( counted< Rule >::value ) {
               if( m.nest > m.N ) dviol( m, "depth-exceeded", "guarded rule runs at nesting " + std::to_string( m.nest ) + " at byte " + std::to_string( in.byte() ), true );
            }
         }
      }

      template< pegtl::apply_mode A, pegtl::rewind_mode M, template< typename... > class Action, template< typename... > class Control, typename In >
      [[nodiscard]] static bool match( In& in, dmon& m )
      {
         if constexpr( counted< Rule >::value ) {
            struct leave
            {
               std::size_t& n;
               ~leave() { --n; }
            };
            ++m.nest;
            const leave l{ m.nest };
            if( m.nest > m.maxnest ) {
               m.maxnest = m.nest;
               if( m.nest < 40 ) m.first_entry[ m.nest ] = in.byte();
            }
            return pegtl::normal< Rule >::template match< A, M, Action, Control >( in, m );
         }
         else {
            return pegtl::normal< Rule >::template match< A, M, Action, Control >( in, m );
         }
      }
   };

   using din = pegtl::input_with_depth< pegtl::memory_input<> >;

   template< typename Grammar, pegtl::apply_mode A >
   res run_depth( din& in, dmon& m )
   {
      m.nest = 0;
      m.maxnest = 0;
      m.tainted = false;
      try {
         const bool ok = pegtl::parse< Grammar, dg::dact, dctl, A >( in, m );
         return ok ? res{ 1, in.byte(), "" } : res{ 0, 0, "" };
      }
      catch( const pegtl::parse_error& e ) {
         return res{ 2, e.position_object().byte, std::string( e.message() ) };
      }
      catch( const std::exception& e ) {
         return res{ 3, 0, e.what() };
      }
      catch( ... ) {
         return res{ 5, 0, "" };
      }
   }

   using dfn = res ( * )( din&, dmon& );
   template< template< typename > class G, pegtl::apply_mode A, std::size_t... N >
   constexpr std::array< dfn, sizeof...( N ) + 1 > make_dtable( std::index_sequence< N... > /*unused*/ )
   {
      return { { &run_depth< G< dg::lim< N > >, A >..., &run_depth< G< dg::unl >, A > } };
   }
   using dtable_t = std::array< dfn, NN + 1 >;

   const char* const msg_depth = "maximum parser rule nesting depth exceeded";

   // mode: "" for the ordinary run; "|apply_mode::nothing" when the guard's action class is attached but the run is started with
   // actions disabled (what at<>, not_at<>, disable<> do to a sub-tree): the limit is a property of the rule, not of its actions
   void depth_case( const char* gname_, const int gi, const dtable_t& table, const std::string& input, const char* mode = "" )
   {
      if( !V.begin_case( "C18", mode[ 0 ] ? "limit_depth, apply_mode::nothing" : "limit_depth", input.data(), input.size() ) ) return;
      // unguarded baseline: result and the nesting the input needs
      dmon bm;
      bm.grammar = gname_;
      bm.input = &input;
      bm.mode = mode;
      verif::guarded_buffer bgb( input, 0 );
      din bin( bgb.begin(), bgb.end(), "c18" );
      const res base = table[ NN ]( bin, bm );
      const std::size_t needed = bm.maxnest;
      if( bin.current_depth() != 0 ) dviol( bm, "counter-moved-without-guard", "current_depth() = " + std::to_string( bin.current_depth() ) + " after an unguarded run" );
      for( std::size_t N = 0; N < NN; ++N ) {
         dmon m;
         m.guarded = true;
         m.N = N;
         m.grammar = gname_;
         m.input = &input;
         m.mode = mode;
         char extra[ 64 ];
         std::snprintf( extra, sizeof extra, "%s N=%zu", gname_, N );
         V.set_extra( extra );
         res exp;
         bool beyond;
         if( gi == 4 ) beyond = ( N == 0 && needed >= 1 );  // every deeper error is swallowed at depth N >= 1 and the group re-parsed by the fallback
         else beyond = ( needed > N );
         exp = beyond ? res{ 2, bm.first_entry[ N + 1 ], msg_depth } : base;
         verif::guarded_buffer gb( input, int( N & 1 ), "((((" );
         din in( gb.begin(), gb.end(), "c18" );
         for( int round = 0; round < 2; ++round ) {
            if( round == 1 ) in.restart();
            const res got = table[ N ]( in, m );
            ++V.evaluations;
            const char* oc = st_name( got.st );
            const bool residue = ( in.current_depth() != 0 );
            if( residue ) dviol( m, std::string( "depth-not-restored-after-" ) + ( got.st >= 2 ? "exception" : oc ), "current_depth() = " + std::to_string( in.current_depth() ) + " after the run ended with " + show( got ) );
            if( m.nest != 0 ) V.violation( "C18", "C18|harness|nesting-count-not-zero", m.describe() );
            if( !m.tainted && !same( got, exp ) ) {
               std::string cls;
               if( round == 1 ) cls = "rerun-after-restart-differs";
               else if( beyond ) cls = ( got.st != 2 ) ? "no-error-beyond-limit" : ( got.msg != exp.msg ) ? "wrong-message" : "wrong-error-position";
               else cls = "result-differs-from-unguarded-within-limit";
               dviol( m, cls, "input needs nesting " + std::to_string( needed ) + ": expected " + show( exp ) + ( beyond ? "" : " (as without the guard)" ) + ", observed " + show( got ) + ( round == 1 ? " on the second run after restart()" : "" ) );
               break;
            }
            if( residue || m.tainted ) break;  // a second run would only show consequences
         }
         const char* rel = needed < N ? "below" : needed == N ? "at-limit" : needed == N + 1 ? "one-over" : "beyond";
         if( mode[ 0 ] ) V.count( std::string( "depth-with-actions-disabled|" ) + rel, 2 );
         V.count( "depth|N" + std::to_string( N ) + "|" + rel + "|" + st_name( base.st ), 2 );
         V.count( std::string( "depth-grammar|" ) + gname_ + "|" + st_name( base.st ) + ( needed > N ? "|over-limit" : "|within-limit" ), 2 );
         if( needed + 1 >= N ) {
            ++V.nontrivial;
            V.count( "depth-nontrivial" );
         }
         if( needed == N + 1 && N == 2 && gi != 4 && base.st == 1 ) sample_few( "{\"part\":\"depth\",\"grammar\":\"" + std::string( gname_ ) + "\",\"N\":2,\"input\":\"" + verif::jesc( input ) + "\",\"needs\":" + std::to_string( needed ) + ",\"unguarded\":\"" + verif::jesc( show( base ) ) + "\",\"expected\":\"" + verif::jesc( show( exp ) ) + "\"}" );
      }
   }

   void all_strings( const char* alpha, const std::size_t maxlen, std::set< std::string >& out )
   {
      std::vector< std::string > cur{ "" };
      out.insert( "" );
      for( std::size_t l = 1; l <= maxlen; ++l ) {
         std::vector< std::string > next;
         for( const auto& s : cur )
            for( const char* a = alpha; *a; ++a ) next.push_back( s + *a );
         for( const auto& s : next ) out.insert( s );
         cur.swap( next );
      }
   }

   std::string rep( const char c, const std::size_t n ) { return std::string( n, c ); }

   void part_depth()
   {
      static const dtable_t t1 = make_dtable< dg::g1, pegtl::apply_mode::action >( std::make_index_sequence< NN >() );
      static const dtable_t n1 = make_dtable< dg::g1, pegtl::apply_mode::nothing >( std::make_index_sequence< NN >() );
      static const dtable_t t2 = make_dtable< dg::g2, pegtl::apply_mode::action >( std::make_index_sequence< NN >() );
      static const dtable_t n2 = make_dtable< dg::g2, pegtl::apply_mode::nothing >( std::make_index_sequence< NN >() );
      static const dtable_t t3 = make_dtable< dg::g3, pegtl::apply_mode::action >( std::make_index_sequence< NN >() );
      static const dtable_t n3 = make_dtable< dg::g3, pegtl::apply_mode::nothing >( std::make_index_sequence< NN >() );
      static const dtable_t t4 = make_dtable< dg::g4, pegtl::apply_mode::action >( std::make_index_sequence< NN >() );
      static const dtable_t n4 = make_dtable< dg::g4, pegtl::apply_mode::nothing >( std::make_index_sequence< NN >() );
      const std::size_t D = NN + 3;  // nesting 0..N+3 for the largest N (6): up to 9
      std::set< std::string > parens;
      all_strings( "()", V.thorough() ? 14 : 10, parens );
      for( std::size_t d = 0; d <= D; ++d ) {
         parens.insert( rep( '(', d ) + rep( ')', d ) );                                  // balanced
         if( d ) parens.insert( rep( '(', d ) + rep( ')', d - 1 ) );                       // a closer is missing
         parens.insert( rep( '(', d ) + rep( ')', d ) + ")" );                             // one closer too many
         parens.insert( rep( '(', d ) + "x" + rep( ')', d ) );                             // garbage at depth d
         parens.insert( rep( '(', d ) + "!" + rep( ')', d ) );                             // throwing action at depth d
         for( std::size_t k = 1; k < d; ++k ) parens.insert( rep( '(', d ) + rep( ')', k ) + "x" + rep( ')', d - k ) );  // garbage after k closers
         for( std::size_t e = 1; e <= D; ++e ) {
            parens.insert( rep( '(', d ) + rep( ')', d ) + rep( '(', e ) + rep( ')', e ) );          // two groups
            if( e <= 3 ) parens.insert( rep( '(', d ) + rep( ')', d ) + rep( '(', e ) + "!" + rep( ')', e ) );  // second group throws
            if( e <= 3 ) parens.insert( rep( '(', d ) + rep( ')', d ) + rep( '(', e ) + rep( ')', e ) + rep( '(', d ) + rep( ')', d ) );
         }
      }
      // every balanced word up to length 14 (thorough 18); up to length 10 also with a throwing '!' inserted or one byte deleted at every position
      {
         std::vector< std::string > dyck;
         const std::size_t pairs = V.thorough() ? 9 : 7;
         std::string w;
         const auto gen = [ & ]( const auto& self, const std::size_t open, const std::size_t close ) -> void {
            if( open == close ) dyck.push_back( w );
            if( open < pairs ) {
               w.push_back( '(' );
               self( self, open + 1, close );
               w.pop_back();
            }
            if( close < open ) {
               w.push_back( ')' );
               self( self, open, close + 1 );
               w.pop_back();
            }
         };
         gen( gen, 0, 0 );
         for( const auto& d : dyck ) {
            // gen() emits every prefix-balanced word whose counts are equal at this point: all of them are complete balanced words
            parens.insert( d );
            if( d.size() <= 10 ) {
               for( std::size_t i = 0; i <= d.size(); ++i ) parens.insert( d.substr( 0, i ) + "!" + d.substr( i ) );
               for( std::size_t i = 0; i < d.size(); ++i ) parens.insert( d.substr( 0, i ) + d.substr( i + 1 ) );
            }
         }
      }
      for( const auto& s : parens ) {
         depth_case( "nest", 1, t1, s );
         depth_case( "star-of-nest", 2, t2, s );
         depth_case( "nest-with-swallowed-depth-error", 4, t4, s );
         if( s.size() <= 10 ) {
            depth_case( "nest", 1, n1, s, "|apply_mode::nothing" );
            depth_case( "star-of-nest", 2, n2, s, "|apply_mode::nothing" );
            depth_case( "nest-with-swallowed-depth-error", 4, n4, s, "|apply_mode::nothing" );
         }
      }
      std::set< std::string > brackets;
      all_strings( "[]x", V.thorough() ? 9 : 7, brackets );
      for( std::size_t d = 0; d <= D; ++d ) {
         brackets.insert( rep( '[', d ) + "x" + rep( ']', d ) );
         if( d ) brackets.insert( rep( '[', d ) + "x" + rep( ']', d - 1 ) );              // must< one< ']' > > fails at depth 1
         for( std::size_t k = 0; k < d; ++k ) brackets.insert( rep( '[', d ) + "x" + rep( ']', k ) + "y" );  // must<> fails at depth d-k
         brackets.insert( rep( '[', d ) + rep( ']', d ) );                                 // must< value > fails at depth d
         brackets.insert( rep( '[', d ) + "!" + rep( ']', d ) );                           // throwing action at depth d
         brackets.insert( rep( '[', d ) + "y" );                                           // garbage at depth d
         brackets.insert( rep( '[', d ) + "x" + rep( ']', d ) + "]" );
      }
      for( const auto& s : brackets ) {
         depth_case( "sor-must-recursion", 3, t3, s );
         depth_case( "sor-must-recursion", 3, n3, s, "|apply_mode::nothing" );
      }
   }
#endif
}  // namespace

int main( int argc, char** argv )
{
   verif::init( argc, argv );
#if C18_PART == 0 || C18_PART == 1
   part_depth();
#endif
#if C18_PART != 1
   tao::pegtl::internal::verif::hooks.window_violation = &on_window;
#endif
#if C18_PART == 0 || ( C18_PART >= 2 && C18_PART <= 4 )
   part_bytes_top();
#endif
#if C18_PART == 0 || C18_PART >= 5
   part_bytes_sub();
#endif
   V.finish();
   return 0;
}
