// C14 — the JSON grammar accepts exactly RFC 8259 JSON texts, and never throws.
// Monitor: parse< seq< json::text, eof > > runs on exact-size guarded buffers beside the independent
// recogniser cpp/oracles/json_rfc8259.hpp; every disagreement in acceptance and every exception
// (the grammar contains no must<>, so parse_error is not a way of rejecting) is reported.
#include <cstring>
#include <tao/pegtl.hpp>
#include <tao/pegtl/buffer_input.hpp>
#include <tao/pegtl/contrib/json.hpp>

#include <pthread.h>

#include "common/verif.hpp"
#include "oracles/json_rfc8259.hpp"

namespace pegtl = tao::pegtl;
using verif::V;

namespace
{
   using grammar = pegtl::seq< pegtl::json::text, pegtl::eof >;

   // ------------------------------------------------------------------ the real code
   int g_window_op = -1;  // set by the window hook when a peek/bump reaches outside [current,end)

   struct real_result
   {
      int st;  // 1 accepted, 0 rejected (local failure), 2 exception
      const char* ex;
   };

   real_result run_real( std::string_view s, int mode = 0, std::string_view filler = {} )
   {
      verif::guarded_buffer gb( s, mode, filler );
      try {
         pegtl::memory_input<> in( gb.begin(), gb.end(), "c14" );
         const bool r = pegtl::parse< grammar >( in );
         return { r ? 1 : 0, "" };
      }
      catch( const pegtl::parse_error& ) {
         return { 2, "parse_error" };
      }
      catch( const std::bad_alloc& ) {
         return { 2, "bad_alloc" };
      }
      catch( const std::exception& ) {
         return { 2, "std::exception" };
      }
      catch( ... ) {
         return { 2, "unknown" };
      }
   }

   // the same bytes through an incremental input: a reader that hands out `step` bytes per call (multi-byte characters,
   // escapes and literals then straddle the end of the buffered data)
   struct step_reader
   {
      const char* p;
      const char* e;
      std::size_t step;
      std::size_t operator()( char* buf, const std::size_t len )
      {
         const std::size_t n = std::min( { len, step, std::size_t( e - p ) } );
         std::memcpy( buf, p, n );
         p += n;
         return n;
      }
   };

   real_result run_incremental( std::string_view s, const std::size_t step )
   {
      verif::guarded_buffer gb( s, 0 );
      try {
         pegtl::buffer_input< step_reader, pegtl::eol::lf_crlf, std::string, 4 > in( "c14", s.size() + 16, step_reader{ gb.begin(), gb.end(), step } );
         const bool r = pegtl::parse< grammar >( in );
         return { r ? 1 : 0, "" };
      }
      catch( const pegtl::parse_error& ) {
         return { 2, "parse_error" };
      }
      catch( const std::bad_alloc& ) {
         return { 2, "bad_alloc" };
      }
      catch( const std::exception& ) {
         return { 2, "std::exception" };
      }
      catch( ... ) {
         return { 2, "unknown" };
      }
   }

   // ------------------------------------------------------------------ bookkeeping
   enum gen_id { G_SMALL, G_WIDE, G_DOC, G_MUT1, G_MUT2, G_UTF8, G_ESC, G_LIT, G_NUM, G_WS, G_DEEP, G_COUNT };
   const char* const gen_name[ G_COUNT ] = { "sweep-small", "sweep-wide", "doc", "mut1", "mut2", "utf8", "escape", "literal", "number", "ws", "deep" };

   long g_out[ G_COUNT ][ 2 ];              // [gen][accepted by the oracle]
   long g_len[ 2 ][ 9 ][ 2 ];               // sweeps: [sweep][length][accepted]
   long g_why[ oracle::json_why_count ];    // reject reasons given by the oracle
   long g_top[ 5 ];                         // accepted texts by kind of the top-level value
   long g_mode1 = 0, g_trivial = 0, g_dup = 0, g_dup_swept = 0, g_incremental = 0;
   std::string g_sample[ G_COUNT ];

   int top_index( char k ) { return k == 'n' ? 0 : k == 's' ? 1 : k == 'l' ? 2 : k == 'a' ? 3 : 4; }
   const char* const top_name[ 5 ] = { "number", "string", "literal", "array", "object" };

   // open-addressing set of 64-bit hashes (the texts of all per-item cases, identical in every shard)
   struct hash_set
   {
      std::vector< std::uint64_t > t;
      std::size_t used = 0;
      hash_set() : t( std::size_t( 1 ) << 16, 0 ) {}
      static std::uint64_t hash( std::string_view s )
      {
         std::uint64_t h = 1469598103934665603ull;
         for( unsigned char c : s ) { h ^= c; h *= 1099511628211ull; }
         h ^= h >> 29;
         h *= 0xBF58476D1CE4E5B9ull;
         h ^= h >> 32;
         return h ? h : 1;
      }
      bool put( std::uint64_t h )
      {
         if( ( used + 1 ) * 2 > t.size() ) {
            std::vector< std::uint64_t > old( t.size() * 2, 0 );
            old.swap( t );
            used = 0;
            for( std::uint64_t x : old ) if( x ) put( x );
         }
         std::size_t i = std::size_t( h ) & ( t.size() - 1 );
         while( t[ i ] != 0 ) {
            if( t[ i ] == h ) return false;
            i = ( i + 1 ) & ( t.size() - 1 );
         }
         t[ i ] = h;
         ++used;
         return true;
      }
      bool insert( std::string_view s ) { return put( hash( s ) ); }
   };
   hash_set g_seen;

   // ------------------------------------------------------------------ classification of a disagreement
   const char* class_of_false_accept( const oracle::json_verdict& v, const unsigned char* d, std::size_t n )
   {
      using W = oracle::json_why;
      switch( v.why ) {
         case W::literal: return "literal";
         case W::number_no_int: case W::number_leading_zero: case W::number_frac: case W::number_exp: return "number";
         case W::string_escape: case W::string_hex: return "string-escape";
         case W::string_utf8: return "utf8";
         case W::string_control: case W::string_unterminated: return "string";
         default: break;
      }
      if( v.pos < n ) {
         const unsigned char c = d[ v.pos ];
         if( c < 0x20 || c == 0x7F || c >= 0x80 ) return "whitespace";  // something blank-like taken for ws
         if( ( v.why == W::trailing || v.why == W::separator_expected ) && v.pos > 0 && d[ v.pos - 1 ] >= '0' && d[ v.pos - 1 ] <= '9' && std::strchr( "0123456789.eE+-", c ) != nullptr ) return "number";
      }
      return "structure";
   }

   // The oracle accepts, the grammar does not: find the smallest piece the grammar refuses on its own.
   const char* class_of_false_reject( const unsigned char* d, std::size_t n )
   {
      std::vector< oracle::json_token > toks;
      oracle::json_check( d, n, &toks );
      auto ok = []( const std::string& s ) { return run_real( s ).st == 1; };
      for( const auto& t : toks ) {
         if( t.kind != 'n' && t.kind != 'l' && t.kind != 's' && t.kind != 'k' ) continue;
         const std::string sub( reinterpret_cast< const char* >( d ) + t.begin, t.end - t.begin );
         const std::string pre = ( t.kind == 'k' ) ? "{" : "";
         const std::string post = ( t.kind == 'k' ) ? ":0}" : "";
         if( ok( pre + sub + post ) ) continue;
         if( t.kind == 'n' ) return "number";
         if( t.kind == 'l' ) return "literal";
         for( std::size_t i = 1; i + 1 < sub.size(); ) {
            const unsigned char c = static_cast< unsigned char >( sub[ i ] );
            std::size_t len = 1;
            const char* cls = "string";
            if( c == '\\' ) {
               len = ( sub[ i + 1 ] == 'u' ) ? 6 : 2;
               cls = "string-escape";
            }
            else if( c >= 0x80 ) {
               len = oracle::utf8_decode( reinterpret_cast< const unsigned char* >( sub.data() ) + i, sub.size() - i ).len;
               if( len == 0 ) len = 1;
               cls = "utf8";
            }
            if( !ok( pre + "\"" + sub.substr( i, len ) + "\"" + post ) ) return cls;
            i += len;
         }
         return "string";
      }
      std::string joined;
      for( const auto& t : toks )
         if( t.kind != 'w' ) joined.append( reinterpret_cast< const char* >( d ) + t.begin, t.end - t.begin );
      if( joined.size() != n && ok( joined ) ) return "whitespace";
      return "structure";
   }

   std::string describe( const unsigned char* d, std::size_t n )
   {
      const std::string_view sv( reinterpret_cast< const char* >( d ), n < 200 ? n : 200 );
      return "'" + verif::show( sv ) + ( n > 200 ? "...' (" + std::to_string( n ) + " bytes)" : "'" ) + ( n <= 64 ? " hex " + verif::hex( d, n ) : std::string() );
   }

   void compare( const oracle::json_verdict& v, const real_result& r, const unsigned char* d, std::size_t n, int mode, std::string_view filler, const std::string& replay_extra )
   {
      std::string replay = "{\"hex\":\"" + ( n <= 4096 ? verif::hex( d, n ) : std::string( "(long)" ) ) + "\",\"mode\":" + std::to_string( mode ) + ",\"filler\":\"" + verif::hex( filler ) + "\"" + replay_extra + "}";
      const std::string where = mode == 2 ? std::string( " [buffer_input with a reader handing out 1-3 bytes per call, Chunk 4]" ) : " [buffer mode " + std::to_string( mode ) + ( mode ? ", poisoned tail filled with '" + verif::show( filler ) + "'" : "" ) + "]";
      if( g_window_op >= 0 ) {
         V.violation( "C14", "C14|text|window-violation|op" + std::to_string( g_window_op ), "peek/bump outside [current,end) while parsing " + describe( d, n ) + where, replay );
         g_window_op = -1;
      }
      if( r.st == 2 ) {
         V.violation( "C14", std::string( "C14|throws|" ) + r.ex, "parse< seq< json::text, eof > > threw " + std::string( r.ex ) + " on " + describe( d, n ) + " (oracle: " + ( v.ok ? "valid" : std::string( "invalid, " ) + oracle::json_why_name( v.why ) + " at offset " + std::to_string( v.pos ) ) + ")" + where, replay );
         return;
      }
      if( r.st == 1 && !v.ok ) {
         V.violation( "C14", std::string( "C14|false-accept|" ) + class_of_false_accept( v, d, n ), "grammar accepts " + describe( d, n ) + " which is not an RFC 8259 JSON text: " + oracle::json_why_name( v.why ) + " at offset " + std::to_string( v.pos ) + where, replay );
      }
      else if( r.st == 0 && v.ok ) {
         V.violation( "C14", std::string( "C14|false-reject|" ) + class_of_false_reject( d, n ), "grammar rejects the valid RFC 8259 JSON text " + describe( d, n ) + where, replay );
      }
   }

   const std::string_view fillers[] = { "1111111111111111", "\"\"\"\"\"\"\"\"\"\"\"\"\"\"\"\"", "\x80\x80\x80\x80\x80\x80\x80\x80\x80\x80\x80\x80\x80\x80\x80\x80", "]]]]]]]]]]]]]]]]", "e1e1e1e1e1e1e1e1", "0041004100410041", "rue,alse,ull,rue", "                " };
   constexpr unsigned nfillers = sizeof fillers / sizeof fillers[ 0 ];

   // A filler that would extend the match if the parser looked past the end: chosen from the last
   // byte(s) of the input (contextual) or by rotation.
   std::string_view filler_for( const unsigned char* d, std::size_t n, bool contextual, unsigned salt )
   {
      if( n && contextual ) {
         const unsigned char c = d[ n - 1 ];
         if( c >= 0xC0 || ( c >= 0x80 && n >= 2 && d[ n - 2 ] >= 0xE0 ) || ( c >= 0x80 && n >= 3 && d[ n - 3 ] >= 0xF0 ) ) return fillers[ 2 ];
         if( ( c >= '0' && c <= '9' ) || c == '-' || c == '.' || c == '+' ) return fillers[ 0 ];
         if( c == 'e' || c == 'E' ) return fillers[ ( salt & 1 ) ? 0 : 4 ];
         if( c == 'u' || c == '\\' ) return fillers[ 5 ];
         if( c == 't' || c == 'f' || c == 'n' ) return fillers[ 6 ];
         if( c == ',' || c == '[' || c == ':' ) return fillers[ ( salt & 1 ) ? 0 : 3 ];
         if( c == '"' || c == ']' || c == '}' ) return fillers[ ( salt & 1 ) ? 7 : 3 ];
         return fillers[ 1 ];
      }
      return fillers[ salt % nfillers ];
   }

   // One distinct input: oracle, real code in mode 0, optionally in mode 1 with `nmode1` fillers.
   oracle::json_verdict check_one( int gen, const unsigned char* d, std::size_t n, unsigned nmode1, unsigned salt, const std::string& replay_extra = std::string() )
   {
      V.cur_data = d;
      V.cur_len = n;
      const oracle::json_verdict v = oracle::json_check( d, n );
      const std::string_view sv( reinterpret_cast< const char* >( d ), n );
      const real_result r0 = run_real( sv, 0 );
      ++V.evaluations;
      compare( v, r0, d, n, 0, {}, replay_extra );
      for( unsigned k = 0; k < nmode1; ++k ) {
         const std::string_view f = filler_for( d, n, k == 0, salt );
         const real_result r1 = run_real( sv, 1, f );
         ++V.evaluations;
         ++g_mode1;
         compare( v, r1, d, n, 1, f, replay_extra );
      }
      // incremental input: every generated / mutated document, and the swept strings that contain a non-ASCII byte
      bool high = false;
      for( std::size_t i = 0; i < n && !high; ++i ) high = d[ i ] >= 0x80;
      if( ( gen != G_SMALL && gen != G_WIDE && gen != G_DEEP ) || high ) {
         const real_result r2 = run_incremental( sv, 1 + ( salt + n ) % 3 );
         ++V.evaluations;
         ++g_incremental;
         compare( v, r2, d, n, 2, {}, replay_extra );
      }
      ++g_out[ gen ][ v.ok ];
      if( v.ok ) ++g_top[ top_index( v.top_kind ) ];
      else ++g_why[ unsigned( v.why ) ];
      // non-trivial: the verdict needed more than the first byte (accepted, or rejected at offset >= 1)
      if( v.ok || v.pos >= 1 ) ++V.nontrivial;
      else ++g_trivial;
      return v;
   }

   // ------------------------------------------------------------------ alphabets of the exhaustive sweeps
   // small: 15 symbols; wide: the same 15 first, then 27 more
   const unsigned char small_alpha[] = { '{', '}', '[', ']', ':', ',', '"', '\\', '0', '1', '-', '.', 'e', 't', ' ' };
   const unsigned char wide_alpha[] = { '{', '}', '[', ']', ':', ',', '"', '\\', '0', '1', '-', '.', 'e', 't', ' ',
                                        'u', 'a', 'b', 'f', 'l', 's', 'n', 'r', '+', 'E', '/', '9', '\t', '\n', '\r', 0x00, 0x0B, 0x1F, 0x7F,
                                        0x80, 0xA0, 0xBF, 0xC2, 0xE0, 0xED, 0xF0, 0xF4, 0xFF };
   constexpr unsigned n_small = sizeof small_alpha, n_wide = sizeof wide_alpha;
   bool in_small[ 256 ], in_wide[ 256 ];
   unsigned small_maxlen = 6, wide_maxlen = 4;

   bool swept( std::string_view s )
   {
      if( s.size() > small_maxlen && s.size() > wide_maxlen ) return false;
      bool sm = s.size() <= small_maxlen, wd = s.size() <= wide_maxlen;
      for( unsigned char c : s ) {
         sm = sm && in_small[ c ];
         wd = wd && in_wide[ c ];
      }
      return sm || wd;
   }

   void sweep( int gen, const unsigned char* alpha, unsigned na, unsigned maxlen, unsigned skip_below, unsigned skip_maxlen, unsigned mode1_maxlen, unsigned block_digits )
   {
      unsigned char buf[ 16 ];
      unsigned dig[ 16 ];
      for( unsigned len = 0; len <= maxlen; ++len ) {
         std::uint64_t total = 1;
         for( unsigned i = 0; i < len; ++i ) total *= na;
         std::uint64_t block = 1;
         for( unsigned i = 0; i < len && i < block_digits; ++i ) block *= na;
         for( std::uint64_t base = 0; base < total; base += block ) {
            if( !V.begin_case( "C14", "json::text", buf, len ) ) continue;
            V.set_extra( gen_name[ gen ] );
            std::uint64_t c = base;
            for( unsigned i = 0; i < len; ++i ) { dig[ i ] = unsigned( c % na ); c /= na; }  // dig[0] is the fastest digit; it is the LAST byte
            for( std::uint64_t k = 0; k < block; ++k ) {
               bool all_low = len <= skip_maxlen;
               for( unsigned i = 0; i < len; ++i ) {
                  buf[ len - 1 - i ] = alpha[ dig[ i ] ];
                  all_low = all_low && dig[ i ] < skip_below;
               }
               if( all_low && skip_below ) {
                  ++g_dup_swept;
               }
               else {
                  const oracle::json_verdict v = check_one( gen, buf, len, len <= mode1_maxlen ? 1 : 0, unsigned( base + k ) );
                  ++g_len[ gen == G_SMALL ? 0 : 1 ][ len ][ v.ok ];
               }
               for( unsigned i = 0; i < len; ++i ) {
                  if( ++dig[ i ] < na ) break;
                  dig[ i ] = 0;
               }
            }
            V.cur_data = nullptr;
            V.cur_len = 0;
         }
      }
   }

   // ------------------------------------------------------------------ per-item cases
   unsigned g_item_mode1 = 2;

   // returns true when the case ran in this shard
   bool item( int gen, const std::string& s, oracle::json_verdict* out = nullptr, const std::string& replay_extra = std::string() )
   {
      if( swept( s ) ) { ++g_dup_swept; return false; }
      if( !g_seen.insert( s ) ) { ++g_dup; return false; }
      if( !V.begin_case( "C14", "json::text", s.data(), s.size() ) ) return false;
      V.set_extra( gen_name[ gen ] );
      const oracle::json_verdict v = check_one( gen, reinterpret_cast< const unsigned char* >( s.data() ), s.size(), g_item_mode1, unsigned( g_seen.used ), replay_extra );
      if( out ) *out = v;
      if( g_sample[ gen ].empty() && s.size() <= 120 && s.size() >= 3 ) {
         g_sample[ gen ] = ( std::string( "{\"generator\":\"" ) + gen_name[ gen ] + "\",\"text\":\"" + verif::jesc( s ) + "\",\"oracle\":\"" + ( v.ok ? "accept" : std::string( "reject: " ) + oracle::json_why_name( v.why ) + " at " + std::to_string( v.pos ) ) + "\"}" );
      }
      V.cur_data = nullptr;
      V.cur_len = 0;
      return true;
   }

   // ------------------------------------------------------------------ grammar-derived documents
   std::string enc( std::uint32_t cp ) { return oracle::utf8_encode( cp ); }

   struct docgen
   {
      verif::rng& r;
      std::string out;
      std::map< std::string, long > feat;
      std::size_t budget = 0;
      int wsrate = 3;  // 1 in wsrate gaps gets whitespace

      explicit docgen( verif::rng& rr ) : r( rr ) {}
      void f( const char* name ) { ++feat[ name ]; }

      void ws()
      {
         if( !r.chance( 1, unsigned( wsrate ) ) ) return;
         const unsigned k = 1 + unsigned( r.below( 3 ) );
         for( unsigned i = 0; i < k; ++i ) {
            static const char w[] = { ' ', '\t', '\n', '\r' };
            static const char* const wn[] = { "ws:space", "ws:tab", "ws:lf", "ws:cr" };
            const unsigned j = unsigned( r.below( 4 ) );
            out += w[ j ];
            f( wn[ j ] );
         }
      }
      void digits( unsigned lo, unsigned hi )
      {
         const unsigned k = lo + unsigned( r.below( hi - lo + 1 ) );
         for( unsigned i = 0; i < k; ++i ) out += char( '0' + r.below( 10 ) );
      }
      void number()
      {
         f( "value:number" );
         if( r.chance( 1, 3 ) ) { out += '-'; f( "number:minus" ); }
         if( r.chance( 1, 3 ) ) { out += '0'; f( "number:int-zero" ); }
         else { out += char( '1' + r.below( 9 ) ); digits( 0, r.chance( 1, 8 ) ? 24 : 3 ); f( "number:int-nonzero" ); }
         if( r.chance( 1, 3 ) ) { out += '.'; digits( 1, 4 ); f( "number:frac" ); }
         if( r.chance( 1, 3 ) ) {
            const bool up = r.chance( 1, 2 );
            out += up ? 'E' : 'e';
            f( up ? "number:exp-E" : "number:exp-e" );
            const unsigned s = unsigned( r.below( 3 ) );
            if( s == 1 ) { out += '+'; f( "number:exp-plus" ); }
            if( s == 2 ) { out += '-'; f( "number:exp-minus" ); }
            digits( 1, 3 );
         }
      }
      void string_body()
      {
         out += '"';
         const unsigned k = r.chance( 1, 6 ) ? 0 : unsigned( r.below( r.chance( 1, 10 ) ? 24 : 7 ) );
         if( k == 0 ) f( "string:empty" );
         for( unsigned i = 0; i < k; ++i ) {
            switch( r.below( 10 ) ) {
               case 0: case 1: case 2: {
                  char c;
                  do { c = char( 0x20 + r.below( 0x5F ) ); } while( c == '"' || c == '\\' );
                  out += c;
                  f( "char:ascii" );
                  break;
               }
               case 3: {
                  static const char e[] = { '"', '\\', '/', 'b', 'f', 'n', 'r', 't' };
                  static const char* const en[] = { "escape:quote", "escape:backslash", "escape:slash", "escape:b", "escape:f", "escape:n", "escape:r", "escape:t" };
                  const unsigned j = unsigned( r.below( 8 ) );
                  out += '\\';
                  out += e[ j ];
                  f( en[ j ] );
                  break;
               }
               case 4: {
                  static const unsigned special[] = { 0x0000, 0x001F, 0x0022, 0x005C, 0x007F, 0xD7FF, 0xD800, 0xDBFF, 0xDC00, 0xDFFF, 0xE000, 0xFFFF };
                  const unsigned u = r.chance( 1, 2 ) ? special[ r.below( 12 ) ] : unsigned( r.below( 0x10000 ) );
                  char b[ 8 ];
                  std::snprintf( b, sizeof b, r.chance( 1, 2 ) ? "\\u%04X" : "\\u%04x", u );
                  out += b;
                  f( ( u >= 0xD800 && u <= 0xDFFF ) ? "escape:u-surrogate" : "escape:u" );
                  if( u >= 0xD800 && u <= 0xDBFF && r.chance( 1, 2 ) ) {
                     std::snprintf( b, sizeof b, "\\u%04x", 0xDC00 + unsigned( r.below( 0x400 ) ) );
                     out += b;
                     f( "escape:u-pair" );
                  }
                  break;
               }
               case 5: {
                  static const unsigned bnd[] = { 0x80, 0x7FF };
                  out += enc( r.chance( 1, 3 ) ? bnd[ r.below( 2 ) ] : 0x80 + unsigned( r.below( 0x780 ) ) );
                  f( "char:utf8-2" );
                  break;
               }
               case 6: {
                  static const unsigned bnd[] = { 0x800, 0xFFF, 0x1000, 0xCFFF, 0xD000, 0xD7FF, 0xE000, 0xFFFF, 0xFEFF, 0x2028 };
                  unsigned cp;
                  if( r.chance( 1, 3 ) ) cp = bnd[ r.below( 10 ) ];
                  else do { cp = 0x800 + unsigned( r.below( 0xF800 ) ); } while( cp >= 0xD800 && cp <= 0xDFFF );
                  out += enc( cp );
                  f( "char:utf8-3" );
                  break;
               }
               case 7: {
                  static const unsigned bnd[] = { 0x10000, 0x3FFFF, 0x40000, 0xFFFFF, 0x100000, 0x10FFFF };
                  out += enc( r.chance( 1, 3 ) ? bnd[ r.below( 6 ) ] : 0x10000 + unsigned( r.below( 0x100000 ) ) );
                  f( "char:utf8-4" );
                  break;
               }
               case 8: {
                  static const char c[] = { ' ', '/', 0x7F, '!', '#', '[', ']', '{', '}', ',', ':', '\'' };
                  out += c[ r.below( sizeof c ) ];
                  f( "char:ascii-boundary" );
                  break;
               }
               default:
                  out += char( 'a' + r.below( 26 ) );
                  f( "char:ascii" );
            }
         }
         out += '"';
      }
      void value( int depth_left, int spine )
      {
         unsigned kind;
         if( spine > 0 ) kind = 5 + unsigned( r.below( 2 ) );
         else if( depth_left <= 0 || out.size() >= budget ) kind = unsigned( r.below( 5 ) );
         else kind = unsigned( r.below( 8 ) ) % 7;
         switch( kind ) {
            case 0: number(); break;
            case 1: f( "value:string" ); string_body(); break;
            case 2: out += "true"; f( "value:true" ); break;
            case 3: out += "false"; f( "value:false" ); break;
            case 4: out += "null"; f( "value:null" ); break;
            case 5: {
               out += '[';
               ws();
               unsigned k = spine > 0 ? 1 + unsigned( r.below( 2 ) ) : unsigned( r.below( 4 ) );
               if( out.size() >= budget && spine <= 0 ) k = unsigned( r.below( 2 ) );
               f( k ? "value:array" : "value:empty-array" );
               const unsigned sp = spine > 0 ? unsigned( r.below( k ) ) : k;
               for( unsigned i = 0; i < k; ++i ) {
                  if( i ) { out += ','; ws(); }
                  value( depth_left - 1, i == sp ? spine - 1 : 0 );
                  ws();
               }
               out += ']';
               break;
            }
            default: {
               out += '{';
               ws();
               unsigned k = spine > 0 ? 1 + unsigned( r.below( 2 ) ) : unsigned( r.below( 4 ) );
               if( out.size() >= budget && spine <= 0 ) k = unsigned( r.below( 2 ) );
               f( k ? "value:object" : "value:empty-object" );
               const unsigned sp = spine > 0 ? unsigned( r.below( k ) ) : k;
               for( unsigned i = 0; i < k; ++i ) {
                  if( i ) { out += ','; ws(); }
                  string_body();
                  ws();
                  out += ':';
                  ws();
                  value( depth_left - 1, i == sp ? spine - 1 : 0 );
                  ws();
               }
               out += '}';
            }
         }
      }
      void text( int maxdepth, int spine, std::size_t budget_, int wsrate_ )
      {
         out.clear();
         feat.clear();
         budget = budget_;
         wsrate = wsrate_;
         ws();
         value( maxdepth, spine );
         ws();
      }
   };

   struct hostile
   {
      const char* cat;
      std::string bytes;
   };

   std::vector< hostile > make_hostile()
   {
      std::vector< hostile > h;
      auto add = [ & ]( const char* cat, std::initializer_list< std::string > l ) { for( const auto& s : l ) h.push_back( { cat, s } ); };
      add( "quote", { "\"", "\"\"", "\\\"" } );
      add( "backslash", { "\\", "\\\\", "\\u", "\\u12", "\\ud800", "\\a", "\\x", "\\0", "\\U", "\\'", "\\ " } );
      add( "control", { std::string( 1, '\0' ), "\x01", "\x08", "\x0b", "\x0c", "\x1f", "\x7f" } );
      add( "ws", { " ", "\t", "\n", "\r", "\r\n" } );
      add( "blank-like", { "\xc2\xa0", "\xe2\x80\xa8", "\xef\xbb\xbf", "\xc2\x85", "\xa0", "\x85" } );
      add( "utf8-overlong", { "\xc0\x80", "\xc0\xaf", "\xc1\xbf", "\xe0\x80\x80", "\xe0\x9f\xbf", "\xf0\x80\x80\x80", "\xf0\x8f\xbf\xbf", "\xc0\xa2" } );
      add( "utf8-surrogate", { "\xed\xa0\x80", "\xed\xaf\xbf", "\xed\xb0\x80", "\xed\xbf\xbf" } );
      add( "utf8-above-max", { "\xf4\x90\x80\x80", "\xf5\x80\x80\x80", "\xf7\xbf\xbf\xbf", "\xf8\x88\x80\x80\x80", "\xfc\x84\x80\x80\x80\x80", "\xfe", "\xff" } );
      add( "utf8-truncated", { "\xc2", "\xdf", "\xe0\xa0", "\xe2\x82", "\xed\x9f", "\xf0\x90\x80", "\xf4\x8f\xbf", "\xf0\x90", "\xe1", "\xf1" } );
      add( "utf8-continuation", { "\x80", "\xbf", "\x80\x80", "\xc2\xc2\x80", "\xe0\xa0\xc0" } );
      add( "utf8-valid", { "\xc2\x80", "\xdf\xbf", "\xe0\xa0\x80", "\xed\x9f\xbf", "\xee\x80\x80", "\xef\xbf\xbf", "\xf0\x90\x80\x80", "\xf4\x8f\xbf\xbf" } );
      add( "digit", { "0", "1", "9", "00", "01" } );
      add( "sign", { "-", "+", "--" } );
      add( "exp", { "e", "E", "e+", "e1", "E-" } );
      add( "dot", { ".", ".0", ".." } );
      add( "bracket", { "[", "]", "{", "}", "[]", "{}", "(", ")" } );
      add( "separator", { ",", ":", ",,", ";", "=" } );
      add( "letter", { "t", "r", "u", "e", "f", "a", "l", "s", "n", "true", "null", "false", "x", "N", "T", "nan", "Infinity" } );
      add( "comment", { "/", "//", "/**/", "#" } );
      add( "quote-single", { "'" } );
      return h;
   }

   // one random edit of s; returns the category
   const char* edit( std::string& s, verif::rng& r, const std::vector< hostile >& H )
   {
      const unsigned op = unsigned( r.below( 10 ) );
      if( s.empty() || op < 4 ) {  // insert
         const hostile& h = H[ r.below( H.size() ) ];
         s.insert( r.below( s.size() + 1 ), h.bytes );
         return h.cat;
      }
      if( op < 7 ) {  // replace one byte
         const hostile& h = H[ r.below( H.size() ) ];
         const std::size_t at = r.below( s.size() );
         s.replace( at, 1, h.bytes );
         return h.cat;
      }
      if( op < 9 ) {  // delete 1 (mostly) .. 3 bytes
         const std::size_t at = r.below( s.size() );
         s.erase( at, r.chance( 3, 4 ) ? 1 : 1 + r.below( 3 ) );
         return "delete";
      }
      if( r.chance( 1, 2 ) ) {  // truncate
         s.resize( r.below( s.size() ) );
         return "truncate";
      }
      if( s.size() >= 2 ) {  // swap two adjacent bytes
         const std::size_t at = r.below( s.size() - 1 );
         std::swap( s[ at ], s[ at + 1 ] );
      }
      return "swap";
   }

   std::map< std::string, long > g_feat, g_mutcat, g_depth;

   const char* depth_bucket( std::size_t d )
   {
      return d == 0 ? "doc-depth:00" : d <= 2 ? "doc-depth:01-02" : d <= 4 ? "doc-depth:03-04" : d <= 8 ? "doc-depth:05-08" : d <= 16 ? "doc-depth:09-16" : d <= 32 ? "doc-depth:17-32" : d <= 64 ? "doc-depth:33-64" : "doc-depth:65+";
   }

   void part_documents()
   {
      verif::rng r( V.seed * 7919 + 14 );
      const std::vector< hostile > H = make_hostile();
      docgen g( r );
      const int ndocs = V.thorough() ? 48000 : 20000;
      const int nm1 = V.thorough() ? 40 : 28, nm2 = V.thorough() ? 24 : 16;
      std::string m;
      for( int i = 0; i < ndocs; ++i ) {
         // shapes: small flat, medium, deep spine (up to 64), whitespace-heavy
         const unsigned shape = unsigned( i % 8 );
         if( shape == 0 ) g.text( 1, 0, 8, 3 );
         else if( shape <= 3 ) g.text( 4, 0, 40, 4 );
         else if( shape == 4 ) g.text( 8, 0, 160, 3 );
         else if( shape == 5 ) g.text( 64, 1 + int( r.below( 64 ) ), 60, 6 );
         else if( shape == 6 ) g.text( 64, 1 + int( r.below( 16 ) ), 60, 5 );
         else g.text( 5, 0, 50, 1 );
         const std::string doc = g.out;
         oracle::json_verdict v;
         if( item( G_DOC, doc, &v ) ) {
            for( const auto& [ k, n ] : g.feat ) g_feat[ k ] += n;
            ++g_depth[ depth_bucket( v.max_depth ) ];
            if( !v.ok ) V.violation( "C14", "C14|harness|oracle-rejects-generated-document", "document produced from the RFC grammar by the generator is rejected by the oracle (" + std::string( oracle::json_why_name( v.why ) ) + " at " + std::to_string( v.pos ) + "): " + describe( reinterpret_cast< const unsigned char* >( doc.data() ), doc.size() ) );
         }
         for( int k = 0; k < nm1 + nm2; ++k ) {
            m = doc;
            const char* cat = edit( m, r, H );
            const bool two = k >= nm1;
            if( two ) edit( m, r, H );
            if( item( two ? G_MUT2 : G_MUT1, m, &v ) && !two ) ++g_mutcat[ std::string( "mut1:" ) + cat + ( v.ok ? ":accept" : ":reject" ) ];
         }
      }
   }

   // ------------------------------------------------------------------ UTF-8 inside strings and member names
   const char* utf8_class( const std::string& q )
   {
      const auto* p = reinterpret_cast< const unsigned char* >( q.data() );
      const std::size_t n = q.size();
      const unsigned char a = p[ 0 ];
      if( a < 0x80 ) return a < 0x20 ? "control" : ( a == '"' || a == '\\' ) ? "ascii-special" : "ascii";
      if( a < 0xC0 ) return "lone-continuation";
      if( a >= 0xF8 ) return "invalid-lead";
      const unsigned need = a < 0xE0 ? 2 : a < 0xF0 ? 3 : 4;
      for( unsigned i = 1; i < need; ++i ) {
         if( i >= n ) return "truncated";
         if( p[ i ] < 0x80 || p[ i ] > 0xBF ) return "bad-continuation";
      }
      if( a < 0xC2 ) return "overlong-2";
      if( a == 0xE0 && p[ 1 ] < 0xA0 ) return "overlong-3";
      if( a == 0xF0 && p[ 1 ] < 0x90 ) return "overlong-4";
      if( a == 0xED && p[ 1 ] >= 0xA0 ) return "surrogate";
      if( ( a == 0xF4 && p[ 1 ] >= 0x90 ) || a > 0xF4 ) return "above-max";
      if( n > need ) return "valid-then-more";
      return need == 2 ? "valid-2" : need == 3 ? "valid-3" : "valid-4";
   }

   std::map< std::string, long > g_utf8;

   void utf8_item( const std::string& seq )
   {
      static const char* const pre[] = { "\"", "{\"", "[\"a" };
      static const char* const post[] = { "\"", "\":0}", "z\"]" };
      const char* cls = utf8_class( seq );
      for( int c = 0; c < 3; ++c ) {
         if( c == 2 && seq.size() < 3 ) continue;
         oracle::json_verdict v;
         if( item( G_UTF8, pre[ c ] + seq + post[ c ], &v ) ) ++g_utf8[ std::string( "utf8:" ) + cls + ( v.ok ? ":accept" : ":reject" ) ];
      }
   }

   void part_utf8()
   {
      std::string s;
      for( unsigned a = 0; a < 256; ++a ) utf8_item( std::string( 1, char( a ) ) );
      // every 2-byte sequence with a first byte >= 0x80 or a control / special first byte
      for( unsigned a = 0x80; a < 256; ++a )
         for( unsigned b = 0; b < 256; ++b ) {
            if( !V.thorough() && a >= 0xC4 && a < 0xDE && ( b & 7 ) != ( a & 7 ) && b != 0x7F && b != 0x80 && b != 0xBF && b != 0xC0 ) continue;  // interior leads: thinned in quick
            s.assign( 1, char( a ) );
            s += char( b );
            utf8_item( s );
         }
      static const unsigned char lead3[] = { 0xE0, 0xE1, 0xEC, 0xED, 0xEE, 0xEF };
      static const unsigned char edge[] = { 0x00, 0x22, 0x7F, 0x80, 0x8F, 0x90, 0x9F, 0xA0, 0xBF, 0xC0, 0xFF };
      for( unsigned char a : lead3 )
         for( unsigned b = 0x70; b < 0xD0; ++b )
            for( unsigned char c : edge ) {
               s.assign( 1, char( a ) );
               s += char( b );
               s += char( c );
               utf8_item( s );
            }
      static const unsigned char lead4[] = { 0xF0, 0xF1, 0xF3, 0xF4, 0xF5, 0xF7, 0xF8, 0xFC };
      for( unsigned char a : lead4 )
         for( unsigned char b : edge )
            for( unsigned char c : edge )
               for( unsigned char d : edge ) {
                  s.assign( 1, char( a ) );
                  s += char( b );
                  s += char( c );
                  s += char( d );
                  utf8_item( s );
               }
      // 5- and 6-byte forms of the original UTF-8, and UTF-16 surrogate pairs encoded as two 3-byte sequences (CESU-8)
      for( const char* x : { "\xf8\x88\x80\x80\x80", "\xfc\x84\x80\x80\x80\x80", "\xed\xa0\x80\xed\xb0\x80", "\xed\xaf\xbf\xed\xbf\xbf", "\xef\xbb\xbf", "\xf4\x8f\xbf\xbf\xf4\x90\x80\x80" } ) utf8_item( x );
   }

   // ------------------------------------------------------------------ escapes
   std::map< std::string, long > g_misc;

   void both_contexts( int gen, const std::string& quoted, const char* cell )
   {
      oracle::json_verdict v;
      if( item( gen, quoted, &v ) ) ++g_misc[ std::string( cell ) + ( v.ok ? ":accept" : ":reject" ) ];
      if( item( gen, "{" + quoted + ":0}", &v ) ) ++g_misc[ std::string( cell ) + "-in-key" + ( v.ok ? ":accept" : ":reject" ) ];
   }

   void part_escapes()
   {
      for( unsigned a = 0; a < 256; ++a ) {
         both_contexts( G_ESC, std::string( "\"\\" ) + char( a ) + "\"", "escape:single" );
         both_contexts( G_ESC, std::string( "\"x\\" ) + char( a ) + "y\"", "escape:single" );
      }
      static const char hx[] = { '0', '9', 'a', 'f', 'A', 'F', 'g', 'G', '/', ':', '@', '`', ' ', '"', 'D', '8' };
      const unsigned nh = V.thorough() ? 16 : 14;
      for( unsigned a = 0; a < nh; ++a )
         for( unsigned b = 0; b < nh; ++b )
            for( unsigned c = 0; c < nh; ++c )
               for( unsigned d = 0; d < nh; ++d ) {
                  const std::string q = std::string( "\"\\u" ) + hx[ a ] + hx[ b ] + hx[ c ] + hx[ d ] + "\"";
                  oracle::json_verdict v;
                  if( item( G_ESC, q, &v ) ) ++g_misc[ std::string( "escape:u4" ) + ( v.ok ? ":accept" : ":reject" ) ];
                  if( ( ( a + b + c + d ) & 3 ) == 0 && item( G_ESC, "{" + q + ":1}", &v ) ) ++g_misc[ std::string( "escape:u4-in-key" ) + ( v.ok ? ":accept" : ":reject" ) ];
               }
      for( const char* t : { "\"\\u", "\"\\u\"", "\"\\u0", "\"\\u0\"", "\"\\u00", "\"\\u00\"", "\"\\u000", "\"\\u000\"", "\"\\u0000", "\"\\", "\"\\\"", "\"\\\\", "\"\\\\\"", "\"\\u00000\"", "\"\\U0041\"", "\"\\u+041\"", "\"\\u-041\"", "\"\\u 041\"", "\"\\u0x41\"" } ) both_contexts( G_ESC, t, "escape:truncated-or-odd" );
      // surrogate escapes: lone, paired, reversed, separated; all grammatical
      static const char* const unit[] = { "\\uD800", "\\udbff", "\\uDC00", "\\udfff", "\\u0041", "\\uFFFF", "\\uD7FF", "\\uE000" };
      for( const char* a : unit ) {
         both_contexts( G_ESC, std::string( "\"" ) + a + "\"", "escape:surrogates" );
         for( const char* b : unit ) {
            both_contexts( G_ESC, std::string( "\"" ) + a + b + "\"", "escape:surrogates" );
            both_contexts( G_ESC, std::string( "\"" ) + a + "x" + b + "\"", "escape:surrogates" );
            both_contexts( G_ESC, std::string( "\"" ) + a + "\\" + b + "\"", "escape:surrogates" );  // "\uD800\\uDC00"
            both_contexts( G_ESC, std::string( "\"" ) + a + ( b + 1 ) + "\"", "escape:surrogates" );  // "\uD800uDC00"
            for( const char* c : unit ) both_contexts( G_ESC, std::string( "\"" ) + a + b + c + "\"", "escape:surrogates" );
         }
      }
   }

   // ------------------------------------------------------------------ literals
   void part_literals()
   {
      static const char* const ctx_pre[] = { "", "[", " ", "{\"k\":" };
      static const char* const ctx_post[] = { "", "]", "\n", "}" };
      const std::vector< std::string > inserts = { "e", "l", "u", " ", "\"", "\\", "0", "t", "n", "f", "\x80", std::string( 1, '\0' ), "_", "E" };
      for( const char* w : { "true", "false", "null" } ) {
         const std::string word = w;
         std::vector< std::string > forms{ word };
         for( std::size_t i = 0; i < word.size(); ++i ) {
            for( unsigned b = 0; b < 256; ++b ) {
               std::string x = word;
               x[ i ] = char( b );
               forms.push_back( x );
            }
            std::string x = word;
            x.erase( i, 1 );
            forms.push_back( x );
         }
         for( std::size_t i = 0; i <= word.size(); ++i ) {
            forms.push_back( word.substr( 0, i ) );
            for( const std::string& ins : inserts ) {
               std::string x = word;
               x.insert( i, ins );
               forms.push_back( x );
            }
         }
         std::string up = word;
         for( char& c : up ) c = char( c - 32 );
         forms.push_back( up );
         forms.push_back( std::string( 1, char( word[ 0 ] - 32 ) ) + word.substr( 1 ) );
         forms.push_back( word + word );
         forms.push_back( word + " " + word );
         forms.push_back( word + "," + word );
         for( const auto& fm : forms )
            for( int c = 0; c < 4; ++c ) {
               oracle::json_verdict v;
               if( item( G_LIT, ctx_pre[ c ] + fm + ctx_post[ c ], &v ) ) ++g_misc[ std::string( "literal:" ) + w + ( v.ok ? ":accept" : ":reject" ) ];
            }
      }
   }

   // ------------------------------------------------------------------ numbers
   void part_numbers()
   {
      static const char* const sign[] = { "", "-", "+", "--", "- " };
      static const char* const ints[] = { "", "0", "00", "01", "1", "10", "9", "123", "-0", "0x1", "1_0", "\xd9\xa1" /* arabic-indic digit one */ };
      static const char* const frac[] = { "", ".", ".0", ".5", ".00", ".10", "..1", ".1.", ".e", ".-1", ",5", ".1.2" };
      static const char* const expo[] = { "", "e", "E", "e+", "e-", "E+", "e1", "E1", "e+1", "E-1", "e01", "e00", "e+-1", "e1.5", "ee1", "e1e1", "e 1", "e+ 1", "x1", "e1+", "E+10" };
      static const char* const pre[] = { "", "[", " ", "{\"a\":", "[0,", "\t" };
      static const char* const post[] = { "", "]", " ", "}", "]", "\r\n" };
      for( const char* s : sign )
         for( const char* i : ints )
            for( const char* f : frac )
               for( const char* e : expo ) {
                  const std::string num = std::string( s ) + i + f + e;
                  for( int c = 0; c < 6; ++c ) {
                     if( c >= 4 && !V.thorough() && ( num.size() & 1 ) ) continue;
                     oracle::json_verdict v;
                     if( item( G_NUM, pre[ c ] + num + post[ c ], &v ) ) {
                        const char* form = f[ 0 ] ? ( e[ 0 ] ? "number:frac+exp" : "number:frac" ) : ( e[ 0 ] ? "number:exp" : "number:int" );
                        ++g_misc[ std::string( form ) + ( v.ok ? ":accept" : ":reject" ) ];
                     }
                  }
               }
      // long digit runs, many zeros, huge exponents: syntax only, no value limits in the grammar
      for( const char* t : { "123456789012345678901234567890", "-0.000000000000000000000000000001", "1e99999999999999999999", "0.0", "-0.0e0", "-0e-0", "0e0", "0E+0", "1E-1", "1.", ".1", "1e", "1e+", "-", "+1", "00", "01", "-01", "0.e1", "0e", "1.5.5", "1e5e5", "0x10", "1-", "1+1", "Infinity", "-Infinity", "NaN", "nan", "1f", "1d", "1l", "0b1", "0o7", "1,000", "1 000", "\xe0\xa5\xa7" } ) {
         oracle::json_verdict v;
         for( int c = 0; c < 4; ++c )
            if( item( G_NUM, pre[ c ] + std::string( t ) + post[ c ], &v ) ) ++g_misc[ std::string( "number:listed" ) + ( v.ok ? ":accept" : ":reject" ) ];
      }
   }

   // ------------------------------------------------------------------ whitespace placement
   void part_ws()
   {
      struct wsl { const char* name; std::string bytes; bool is_ws; };
      const std::vector< wsl > W = {
         { "space", " ", true }, { "tab", "\t", true }, { "lf", "\n", true }, { "cr", "\r", true }, { "crlf", "\r\n", true }, { "mixed4", " \t\n\r", true },
         { "vt", "\x0b", false }, { "ff", "\x0c", false }, { "nul", std::string( 1, '\0' ), false }, { "bs", "\x08", false }, { "us", "\x1f", false }, { "del", "\x7f", false },
         { "nel-byte", "\x85", false }, { "nbsp-byte", "\xa0", false }, { "nbsp", "\xc2\xa0", false }, { "nel", "\xc2\x85", false }, { "en-quad", "\xe2\x80\x80", false },
         { "line-sep", "\xe2\x80\xa8", false }, { "bom", "\xef\xbb\xbf", false }, { "ideographic", "\xe3\x80\x80", false }, { "escaped-n", "\\n", false }, { "comment", "/**/", false } };
      static const char* const tmpl[] = { "[1,\"a\",{\"k\":true,\"m\":[null]},-0.5e+3]", "{\"a\":[],\"b\":{},\"c\":\"\"}", "0", "\"s\"", "false", "[[],[[]]]", "{\"\":{\"\":-1E2}}" };
      for( const char* t : tmpl ) {
         const std::string base = t;
         for( const auto& w : W )
            for( std::size_t at = 0; at <= base.size(); ++at ) {
               std::string s = base;
               s.insert( at, w.bytes );
               oracle::json_verdict v;
               if( item( G_WS, s, &v ) ) ++g_misc[ std::string( "ws:" ) + w.name + ( v.ok ? ":accept" : ":reject" ) ];
            }
      }
      // ws in every gap at once
      for( const char* t : tmpl ) {
         for( const auto& w : W ) {
            std::vector< oracle::json_token > toks;
            const std::string base = t;
            oracle::json_check( reinterpret_cast< const unsigned char* >( base.data() ), base.size(), &toks );
            std::string s = w.bytes;
            for( const auto& k : toks ) s += base.substr( k.begin, k.end - k.begin ) + w.bytes;
            oracle::json_verdict v;
            if( item( G_WS, s, &v ) ) {
               ++g_misc[ std::string( "ws-everywhere:" ) + w.name + ( v.ok ? ":accept" : ":reject" ) ];
               if( v.ok != w.is_ws ) V.violation( "C14", "C14|harness|oracle-ws-table", "oracle verdict on '" + verif::show( s ) + "' contradicts the ws table of the driver" );
            }
         }
      }
   }

   // ------------------------------------------------------------------ deep nesting (on a large stack: the grammar has no depth limit by design)
   std::string deep_doc( unsigned shape, unsigned d, int defect )
   {
      // shape: 0 arrays, 1 objects, 2 alternating, 3 alternating with ws around every token, 4 arrays with leading siblings and every third level an object
      // defect: 0 none, 1 one close missing, 2 one close too many, 3 innermost close of the wrong kind, 4 comma before the innermost close
      std::string open, close;
      for( unsigned i = 0; i < d; ++i ) {
         const bool obj = shape == 1 || ( ( shape == 2 || shape == 3 ) && ( i & 1 ) ) || ( shape == 4 && ( i % 3 ) == 2 );
         const bool innermost = i + 1 == d;
         std::string c = obj ? "}" : "]";
         if( innermost && defect == 3 ) c = obj ? "]" : "}";
         if( obj ) open += ( shape == 3 ) ? "{ \"k\" : " : "{\"k\":";
         else open += ( shape == 3 ) ? " [ " : ( shape == 4 && ( i & 1 ) ) ? "[0,\"\"," : "[";
         close.insert( 0, ( shape == 3 ? " " : "" ) + c );
      }
      std::string inner = ( shape == 0 ) ? "" : ( shape == 3 ) ? "1" : "null";
      if( defect == 4 ) inner += ",";
      std::string s = open + inner + close;
      if( defect == 1 ) s.pop_back();
      if( defect == 2 ) s += close.back();
      return s;
   }

   std::map< std::string, long > g_deepcells;

   void* deep_thread( void* /*unused*/ )
   {
      std::vector< unsigned > depths = { 65, 66, 100, 127, 128, 129, 200, 256, 400, 512 };
      if( V.thorough() ) depths.insert( depths.end(), { 700, 1000, 1024, 1500, 2000 } );
      for( unsigned d : depths )
         for( unsigned shape = 0; shape < 5; ++shape )
            for( int defect = 0; defect < 5; ++defect ) {
               const std::string s = deep_doc( shape, d, defect );
               oracle::json_verdict v;
               char extra[ 96 ];
               std::snprintf( extra, sizeof extra, ",\"family\":\"deep\",\"depth\":%u,\"shape\":%u,\"defect\":%d", d, shape, defect );
               if( item( G_DEEP, s, &v, extra ) ) {
                  char b[ 64 ];
                  std::snprintf( b, sizeof b, "deep:depth%04u:%s", d, v.ok ? "accept" : "reject" );
                  ++g_deepcells[ b ];
                  if( v.ok != ( defect == 0 ) ) V.violation( "C14", "C14|harness|oracle-deep-family", "oracle verdict on deep document (depth " + std::to_string( d ) + ", shape " + std::to_string( shape ) + ", defect " + std::to_string( defect ) + ") contradicts its construction" );
                  if( v.ok && v.max_depth != d ) V.violation( "C14", "C14|harness|oracle-deep-family", "oracle depth " + std::to_string( v.max_depth ) + " != constructed depth " + std::to_string( d ) );
               }
            }
      return nullptr;
   }

   void part_deep()
   {
      pthread_attr_t at;
      pthread_attr_init( &at );
      pthread_attr_setstacksize( &at, std::size_t( 1 ) << 30 );  // 1 GiB of address space, touched only as far as used
      pthread_t th;
      if( pthread_create( &th, &at, deep_thread, nullptr ) != 0 ) {
         std::fprintf( stderr, "c14_json: cannot create the deep-nesting thread\n" );
         std::exit( 2 );
      }
      pthread_join( th, nullptr );
      pthread_attr_destroy( &at );
   }

   void flush_cells()
   {
      for( int g = 0; g < G_COUNT; ++g ) {
         if( g_out[ g ][ 1 ] ) V.count( std::string( gen_name[ g ] ) + ":accept", g_out[ g ][ 1 ] );
         if( g_out[ g ][ 0 ] ) V.count( std::string( gen_name[ g ] ) + ":reject", g_out[ g ][ 0 ] );
      }
      for( int s = 0; s < 2; ++s )
         for( int l = 0; l < 9; ++l )
            for( int a = 0; a < 2; ++a )
               if( g_len[ s ][ l ][ a ] ) V.count( std::string( gen_name[ s ] ) + ":len" + std::to_string( l ) + ( a ? ":accept" : ":reject" ), g_len[ s ][ l ][ a ] );
      for( unsigned w = 0; w < oracle::json_why_count; ++w )
         if( g_why[ w ] ) V.count( std::string( "oracle-reject:" ) + oracle::json_why_name( oracle::json_why( w ) ), g_why[ w ] );
      for( int k = 0; k < 5; ++k )
         if( g_top[ k ] ) V.count( std::string( "oracle-accept:top-level-" ) + top_name[ k ], g_top[ k ] );
      if( g_mode1 ) V.count( "runs:mode1-poisoned-tail", g_mode1 );
      if( g_incremental ) V.count( "runs:incremental-input", g_incremental );
      if( g_trivial ) V.count( "trivial:rejected-at-first-byte-or-empty", g_trivial );
      for( const auto* m : { &g_feat, &g_mutcat, &g_depth, &g_utf8, &g_misc, &g_deepcells } )
         for( const auto& [ k, n ] : *m ) V.count( ( m == &g_feat ? "doc-feature:" : "" ) + k, n );
   }
}  // namespace

int main( int argc, char** argv )
{
   verif::init( argc, argv );
   tao::pegtl::internal::verif::hooks.window_violation = +[]( int op, const void* /*unused*/, std::size_t /*unused*/, std::size_t /*unused*/ ) { g_window_op = op; };
   for( unsigned char c : small_alpha ) in_small[ c ] = true;
   for( unsigned char c : wide_alpha ) in_wide[ c ] = true;
   small_maxlen = V.thorough() ? 7 : 6;
   wide_maxlen = V.thorough() ? 5 : 4;

   // exhaustive sweeps (bulk cases: one case per block of a few 10^4 strings)
   sweep( G_SMALL, small_alpha, n_small, small_maxlen, 0, 0, 5, 3 );
   sweep( G_WIDE, wide_alpha, n_wide, wide_maxlen, n_small, small_maxlen, 3, 2 );
   if( V.shard == 0 ) V.sample( "{\"generator\":\"sweep-small\",\"alphabet\":\"{}[]:,\\\"\\\\01-.et and space\",\"lengths\":\"0.." + std::to_string( small_maxlen ) + "\",\"wide-alphabet-size\":" + std::to_string( n_wide ) + ",\"wide-lengths\":\"0.." + std::to_string( wide_maxlen ) + "\"}" );

   part_numbers();
   part_literals();
   part_escapes();
   part_utf8();
   part_ws();
   part_deep();
   part_documents();

   for( int g : { G_DOC, G_MUT1, G_UTF8, G_ESC, G_NUM, G_MUT2, G_LIT, G_WS, G_DEEP } )
      if( !g_sample[ g ].empty() ) V.sample( g_sample[ g ] );
   flush_cells();
   V.finish();
   return 0;
}
