// C16 — raw_string implements Lua long-bracket literals.
// Monitor: the real rule raw_string< Open, Marker, Close, Contents... > is run through tao::pegtl::parse
// (directly under rewind_mode::required, with and without an action on ::content, and embedded under
// sor / opt / star) on every string up to a length bound over { Open, Marker, Close, '\n', '\r', 'a' }
// and on seeded longer strings, for every end-of-line policy; match result, consumed length, the span
// handed to the content action and the cursor after a local failure are compared with the independent
// scanner cpp/oracles/lua_longbracket.hpp.
#include <cstring>
#include <tao/pegtl.hpp>
#include <tao/pegtl/buffer_input.hpp>
#include <tao/pegtl/contrib/raw_string.hpp>

#include <type_traits>

#include "common/verif.hpp"
#include "oracles/lua_longbracket.hpp"

namespace pegtl = tao::pegtl;
using verif::V;

namespace
{
   // ------------------------------------------------------------------ observation
   struct obs_t
   {
      const char* base = nullptr;
      unsigned ncontent = 0;
      std::size_t cb[ 24 ];
      std::size_t ce[ 24 ];
      unsigned nrest = 0;
      std::size_t rest_begin = 0;
   };
   obs_t G;

   bool window_hit = false;
   int w_op = 0;
   std::size_t w_req = 0, w_avail = 0;

   struct rec_content
   {
      // the content rule is matched with extra internal states (the marker size): variadic in the states
      template< typename ActionInput, typename... States >
      static void apply( const ActionInput& in, States&&... /*unused*/ )
      {
         if( G.ncontent < 24 ) {
            G.cb[ G.ncontent ] = std::size_t( in.begin() - G.base );
            G.ce[ G.ncontent ] = std::size_t( in.end() - G.base );
         }
         ++G.ncontent;
      }
   };

   struct rest : pegtl::star< pegtl::any > {};

   struct rec_rest
   {
      template< typename ActionInput, typename... States >
      static void apply( const ActionInput& in, States&&... /*unused*/ )
      {
         G.rest_begin = std::size_t( in.begin() - G.base );
         ++G.nrest;
      }
   };

   template< typename RAW >
   struct actions
   {
      template< typename Rule >
      struct act
         : std::conditional_t< std::is_same_v< Rule, typename RAW::content >, rec_content, std::conditional_t< std::is_same_v< Rule, rest >, rec_rest, pegtl::nothing< Rule > > >
      {};
   };

   // ------------------------------------------------------------------ instantiations
   bool cls_any( char /*unused*/ ) { return true; }
   bool cls_not_a( char c ) { return c != 'a'; }
   bool cls_not_lf( char c ) { return c != '\n'; }

   template< char O, char M, char C, int K > struct pick;
   template< char O, char M, char C > struct pick< O, M, C, 0 > { using type = pegtl::raw_string< O, M, C >; };
   template< char O, char M, char C > struct pick< O, M, C, 1 > { using type = pegtl::raw_string< O, M, C, pegtl::any >; };
   template< char O, char M, char C > struct pick< O, M, C, 2 > { using type = pegtl::raw_string< O, M, C, pegtl::not_one< 'a' > >; };
   template< char O, char M, char C > struct pick< O, M, C, 3 > { using type = pegtl::raw_string< O, M, C, pegtl::any, pegtl::not_one< 'a' > >; };
   template< char O, char M, char C > struct pick< O, M, C, 4 > { using type = pegtl::raw_string< O, M, C, pegtl::not_one< '\n' > >; };

   struct tally
   {
      long level[ 5 ] = { 0, 0, 0, 0, 0 };
      long no_open = 0, unterminated = 0, rejected = 0;
   };
   std::vector< std::pair< std::string, tally* > > tallies;

   template< char Open, char Marker, char Close, int K >
   struct inst
   {
      using raw = typename pick< Open, Marker, Close, K >::type;
      static constexpr char O = Open, M = Marker, C = Close;
      static constexpr int kind = K;
      static const std::string& name()
      {
         static const std::string n = [] {
            static const char* suffix[] = { "", ",any", ",not_one<a>", ",any,not_one<a>", ",not_one<\\n>" };
            std::string s = "raw_string<";
            s += Open;
            s += Marker;
            s += Close;
            s += suffix[ K ];
            s += ">";
            return s;
         }();
         return n;
      }
      static oracle::content_model model()
      {
         oracle::content_model m;
         switch( K ) {
            case 1: m.width = 1; m.cls[ 0 ] = cls_any; break;
            case 2: m.width = 1; m.cls[ 0 ] = cls_not_a; break;
            case 3: m.width = 2; m.cls[ 0 ] = cls_any; m.cls[ 1 ] = cls_not_a; break;
            case 4: m.width = 1; m.cls[ 0 ] = cls_not_lf; break;
            default: break;
         }
         return m;
      }
      static tally& counts()
      {
         static tally* t = [] {
            tally* p = new tally;
            tallies.emplace_back( name(), p );
            return p;
         }();
         return *t;
      }
   };

   template< typename Eol > struct pol_of;
   template<> struct pol_of< pegtl::eol::lf > { static constexpr oracle::eol_policy value = oracle::eol_policy::lf; };
   template<> struct pol_of< pegtl::eol::cr > { static constexpr oracle::eol_policy value = oracle::eol_policy::cr; };
   template<> struct pol_of< pegtl::eol::crlf > { static constexpr oracle::eol_policy value = oracle::eol_policy::crlf; };
   template<> struct pol_of< pegtl::eol::lf_crlf > { static constexpr oracle::eol_policy value = oracle::eol_policy::lf_crlf; };
   template<> struct pol_of< pegtl::eol::cr_crlf > { static constexpr oracle::eol_policy value = oracle::eol_policy::cr_crlf; };

   // what stands right behind the opening bracket, per policy: 0 nothing eol-like, 1 lf skipped, 2 cr skipped,
   // 3 crlf skipped, 4 lf kept (not a line ending under the policy), 5 cr kept
   long eolcells[ 5 ][ 6 ];
   const char* const eolcell_name[ 6 ] = { "no-eol-char", "skipped-lf", "skipped-cr", "skipped-crlf", "kept-lf", "kept-cr" };

   // ------------------------------------------------------------------ running the real code
   struct res
   {
      bool ok = false;
      bool threw = false;
      bool window = false;
      std::size_t cursor = 0;
   };

   template< typename Grammar, template< typename... > class Action, pegtl::rewind_mode RM, typename Eol, pegtl::tracking_mode T >
   res run( const char* b, const char* e )
   {
      G.base = b;
      G.ncontent = 0;
      G.nrest = 0;
      G.rest_begin = 0;
      window_hit = false;
      pegtl::memory_input< T, Eol, const char* > in( b, e, "c16" );
      res r;
      try {
         r.ok = pegtl::parse< Grammar, Action, pegtl::normal, pegtl::apply_mode::action, RM >( in );
      }
      catch( ... ) {
         r.threw = true;
      }
      r.cursor = std::size_t( in.current() - b );
      r.window = window_hit;
      ++V.evaluations;
      return r;
   }

   // the same rule with actions attached but disabled from the top (what at<>, not_at<>, disable<> do to it): same result, no action call
   template< typename Grammar, template< typename... > class Action, typename Eol, pegtl::tracking_mode T >
   res run_disabled( const char* b, const char* e )
   {
      G.base = b;
      G.ncontent = 0;
      G.nrest = 0;
      G.rest_begin = 0;
      window_hit = false;
      pegtl::memory_input< T, Eol, const char* > in( b, e, "c16" );
      res r;
      try {
         r.ok = pegtl::parse< Grammar, Action, pegtl::normal, pegtl::apply_mode::nothing, pegtl::rewind_mode::required >( in );
      }
      catch( ... ) {
         r.threw = true;
      }
      r.cursor = std::size_t( in.current() - b );
      r.window = window_hit;
      ++V.evaluations;
      return r;
   }

   // incremental input: a reader that hands out Step bytes per call, buffer chunk Chunk (the bracket, the skipped line
   // ending and the closing bracket then straddle the end of the buffered data at every offset)
   struct step_reader
   {
      const char* p;
      const char* e;
      std::size_t step;
      std::size_t operator()( char* buf, const std::size_t len )
      {
         const std::size_t n = std::min( { len, step, std::size_t( e - p ) } );
         std::memcpy( buf, p, n );
         p += n;
         return n;
      }
   };

   template< typename Grammar, typename Eol, std::size_t Chunk >
   res run_incremental( const char* b, const char* e, const std::size_t step )
   {
      G.ncontent = 0;
      G.nrest = 0;
      window_hit = false;
      res r;
      pegtl::buffer_input< step_reader, Eol, const char*, Chunk > in( "c16", std::size_t( e - b ) + Chunk + 8, step_reader{ b, e, step } );
      try {
         r.ok = pegtl::parse< Grammar, pegtl::nothing, pegtl::normal, pegtl::apply_mode::action, pegtl::rewind_mode::required >( in );
      }
      catch( ... ) {
         r.threw = true;
      }
      r.cursor = in.byte();
      r.window = window_hit;
      ++V.evaluations;
      return r;
   }

   // ------------------------------------------------------------------ judging
   struct where
   {
      const std::string* inst;
      const char* pol;
      const char* track;
      const char* buf;
      const char* how;
      std::string_view text;
   };

   const std::string KEY_MOVED = "C16|raw_string|fails-with-cursor-moved";
   const std::string KEY_MOVED_OTHER = "C16|raw_string|fails-with-cursor-elsewhere";

   std::string spans()
   {
      std::string s = "content-action calls " + std::to_string( G.ncontent ) + " [";
      for( unsigned i = 0; i < G.ncontent && i < 24; ++i ) s += ( i ? "," : "" ) + std::to_string( G.cb[ i ] ) + ".." + std::to_string( G.ce[ i ] );
      s += "] rest-action calls " + std::to_string( G.nrest ) + " at " + std::to_string( G.rest_begin );
      return s;
   }

   void viol( const std::string& key, const where& w, const std::string& expected, const res& r )
   {
      const auto it = V.violcount.find( key );
      if( it != V.violcount.end() && it->second >= long( V.max_per_key ) ) {
         ++it->second;
         return;
      }
      std::string what = *w.inst + " eol::" + w.pol + " tracking " + w.track + " buffer " + w.buf + ", " + w.how + ", input \"" + verif::show( w.text ) + "\": expected " + expected + "; got " + ( r.threw ? "exception" : r.ok ? "success" : "local failure" ) + " with cursor at " + std::to_string( r.cursor ) + ", " + spans();
      if( r.window ) what += "; window hook: op " + std::to_string( w_op ) + " request " + std::to_string( w_req ) + " available " + std::to_string( w_avail );
      const std::string replay = "{\"inst\":\"" + verif::jesc( *w.inst ) + "\",\"eol\":\"" + w.pol + "\",\"tracking\":\"" + w.track + "\",\"buffer\":\"" + w.buf + "\",\"how\":\"" + w.how + "\",\"input_hex\":\"" + verif::hex( w.text ) + "\"}";
      V.violation( "C16", key, what, replay );
   }

   std::string describe( const oracle::lb_result& o )
   {
      if( o.matched ) return "match of level " + std::to_string( o.level ) + " consuming " + std::to_string( o.consumed ) + " with content " + std::to_string( o.content_begin ) + ".." + std::to_string( o.content_end );
      return std::string( "local failure without consuming (" ) + ( o.outcome == oracle::lb_outcome::no_open ? "no opening bracket" : o.outcome == oracle::lb_outcome::unterminated ? "no closing bracket of the level" : "content rule rejects" ) + ")";
   }

   // direct invocation under rewind_mode::required
   void check_direct( const where& w, const oracle::lb_result& o, const res& r, const bool with_action )
   {
      const std::string exp = describe( o );
      if( r.window ) viol( "C16|" + *w.inst + "|reads-past-end", w, exp, r );
      if( r.threw ) {
         viol( "C16|" + *w.inst + "|unexpected-exception", w, exp, r );
         return;
      }
      if( r.ok != o.matched ) {
         viol( "C16|" + *w.inst + ( r.ok ? "|false-accept" : "|false-reject" ), w, exp, r );
         return;
      }
      if( o.matched ) {
         if( r.cursor != o.consumed ) viol( "C16|" + *w.inst + "|wrong-consumed", w, exp, r );
         if( with_action && ( G.ncontent != 1 || G.cb[ 0 ] != o.content_begin || G.ce[ 0 ] != o.content_end ) ) viol( "C16|" + *w.inst + "|wrong-content-span", w, exp, r );
         return;
      }
      if( G.ncontent != 0 ) viol( "C16|" + *w.inst + "|content-action-on-failure", w, exp, r );
      if( r.cursor != 0 ) viol( ( o.opened && r.cursor == o.body ) ? KEY_MOVED : KEY_MOVED_OTHER, w, exp, r );
   }

   // the embedded forms always succeed (the trailing rest = star< any > takes whatever is left); what is judged
   // is where `rest` starts and which content spans were reported
   void check_context( const where& w, const res& r, const std::vector< std::pair< std::size_t, std::size_t > >& exp_spans, const bool exp_rest, const std::size_t exp_rest_begin, const std::size_t exp_cursor, const oracle::lb_result& failed_attempt, const std::size_t failed_at )
   {
      std::string exp = "success, cursor " + std::to_string( exp_cursor ) + ", " + std::to_string( exp_spans.size() ) + " content spans";
      for( const auto& s : exp_spans ) exp += " " + std::to_string( s.first ) + ".." + std::to_string( s.second );
      exp += exp_rest ? ", rest starting at " + std::to_string( exp_rest_begin ) : ", rest not reached";
      if( r.window ) viol( "C16|" + *w.inst + "|reads-past-end", w, exp, r );
      bool good = !r.threw && r.ok && r.cursor == exp_cursor && G.ncontent == exp_spans.size() && G.nrest == ( exp_rest ? 1u : 0u ) && ( !exp_rest || G.rest_begin == exp_rest_begin );
      for( std::size_t i = 0; good && i < exp_spans.size() && i < 24; ++i ) good = G.cb[ i ] == exp_spans[ i ].first && G.ce[ i ] == exp_spans[ i ].second;
      if( good ) return;
      // the failed attempt left the cursor behind its opening bracket and everything else is as expected: same root cause as the direct finding
      bool moved = !r.threw && r.ok && exp_rest && G.nrest == 1 && !failed_attempt.matched && failed_attempt.opened && G.rest_begin == failed_at + failed_attempt.body && G.ncontent == exp_spans.size() && r.cursor == exp_cursor;
      for( std::size_t i = 0; moved && i < exp_spans.size() && i < 24; ++i ) moved = G.cb[ i ] == exp_spans[ i ].first && G.ce[ i ] == exp_spans[ i ].second;
      viol( moved ? KEY_MOVED : "C16|" + *w.inst + "|wrong-in-context", w, exp, r );
   }

   enum : unsigned { DO_NOACTION = 1, DO_CONTEXT = 2, DO_COUNT = 4 };

   template< typename I, typename Eol, pegtl::tracking_mode T, bool Ctx >
   struct battery
   {
      using RAW = typename I::raw;
      template< typename Rule > using act = typename actions< RAW >::template act< Rule >;

      struct g_sor : pegtl::sor< RAW, rest > {};
      struct g_opt : pegtl::seq< pegtl::opt< RAW >, rest > {};
      struct g_star : pegtl::seq< pegtl::star< RAW >, rest > {};

      // text: the input in ordinary memory (for the oracle and for messages); b: the same bytes in a guarded buffer
      static bool go( const std::string_view text, const char* b, const unsigned flags, const char* bufkind )
      {
         constexpr oracle::eol_policy pol = pol_of< Eol >::value;
         const char* e = b + text.size();
         const oracle::content_model cm = I::model();
         const oracle::lb_result o = oracle::lua_longbracket( text, I::O, I::M, I::C, pol, cm );
         where w{ &I::name(), oracle::eol_policy_name( pol ), T == pegtl::tracking_mode::eager ? "eager" : "lazy", bufkind, "direct, rewind_mode::required, action on content", text };

         check_direct( w, o, run< RAW, act, pegtl::rewind_mode::required, Eol, T >( b, e ), true );

         if( flags & DO_COUNT ) {
            tally& t = I::counts();
            switch( o.outcome ) {
               case oracle::lb_outcome::matched: ++t.level[ o.level < 4 ? o.level : 4 ]; break;
               case oracle::lb_outcome::no_open: ++t.no_open; break;
               case oracle::lb_outcome::unterminated: ++t.unterminated; break;
               case oracle::lb_outcome::content_rejected: ++t.rejected; break;
            }
            if( o.opened ) {
               const std::size_t after = o.level + 2;
               const char c = after < text.size() ? text[ after ] : 'x';
               const int cell = o.skipped == 2 ? 3 : o.skipped == 1 ? ( c == '\n' ? 1 : 2 ) : c == '\n' ? 4 : c == '\r' ? 5 : 0;
               ++eolcells[ int( pol ) ][ cell ];
            }
         }
         if( flags & DO_NOACTION ) {
            w.how = "direct, rewind_mode::required, no action";
            check_direct( w, o, run< RAW, pegtl::nothing, pegtl::rewind_mode::required, Eol, T >( b, e ), false );
            w.how = "direct, rewind_mode::required, actions attached, apply_mode::nothing";
            {
               const res r = run_disabled< RAW, act, Eol, T >( b, e );
               check_direct( w, o, r, false );
               if( G.ncontent != 0 ) viol( "C16|" + *w.inst + "|content-action-while-disabled", w, describe( o ), r );
               V.count( "disabled-actions-runs" );
            }
            if constexpr( T == pegtl::tracking_mode::eager ) {
               w.how = "buffer_input, reader hands out 1 byte per call, Chunk 1";
               check_direct( w, o, run_incremental< RAW, Eol, 1 >( b, e, 1 ), false );
               w.how = "buffer_input, reader hands out 3 bytes per call, Chunk 2";
               check_direct( w, o, run_incremental< RAW, Eol, 2 >( b, e, 3 ), false );
               V.count( "incremental-input-runs", 2 );
            }
         }
         if constexpr( Ctx ) {
            if( flags & DO_CONTEXT ) {
               std::vector< std::pair< std::size_t, std::size_t > > sp;
               if( o.matched ) sp.emplace_back( o.content_begin, o.content_end );
               w.how = "sor< RAW, rest >";
               check_context( w, run< g_sor, act, pegtl::rewind_mode::optional, Eol, T >( b, e ), sp, !o.matched, 0, o.matched ? o.consumed : text.size(), o, 0 );
               w.how = "seq< opt< RAW >, rest >";
               check_context( w, run< g_opt, act, pegtl::rewind_mode::optional, Eol, T >( b, e ), sp, true, o.consumed, text.size(), o, 0 );
               // star: repeat the scanner on what is left
               sp.clear();
               std::size_t pos = 0;
               oracle::lb_result k = o;
               while( k.matched ) {
                  sp.emplace_back( pos + k.content_begin, pos + k.content_end );
                  pos += k.consumed;
                  k = oracle::lua_longbracket( text.substr( pos ), I::O, I::M, I::C, pol, cm );
               }
               w.how = "seq< star< RAW >, rest >";
               check_context( w, run< g_star, act, pegtl::rewind_mode::optional, Eol, T >( b, e ), sp, true, pos, text.size(), k, pos );
            }
         }
         return o.opened;
      }
   };

   // ------------------------------------------------------------------ exhaustive sweep
   std::string filler_for( char M, char C, int which )
   {
      // bytes behind the logical end that would complete a closing bracket if they were read
      return which == 0 ? std::string{ C, M, C, M, M, C } : std::string{ M, C, C, M, M, C, M };
   }

   char cur[ 32 ];

   template< typename I, typename Eol, pegtl::tracking_mode T, bool Ctx >
   void sweep( const unsigned lmax, const bool primary, const int mode1_upto, const unsigned flags )
   {
      const char alpha[ 6 ] = { I::O, I::M, I::C, '\n', '\r', 'a' };
      const std::string fa = filler_for( I::M, I::C, 0 ), fb = filler_for( I::M, I::C, 1 );
      const char* pn = oracle::eol_policy_name( pol_of< Eol >::value );
      long sampled = 0;
      for( unsigned len = 0; len <= lmax; ++len ) {
         unsigned long total = 1;
         for( unsigned i = 0; i < len; ++i ) total *= 6;
         const unsigned long bs = 7776;
         for( unsigned long base = 0; base < total; base += bs ) {
            if( !V.begin_case( "C16", I::name().c_str(), cur, len ) ) continue;
            V.set_extra( pn );
            const std::string blank( len, 'x' );
            verif::guarded_buffer g0( blank, 0 ), ga, gb;
            const bool m1 = int( len ) <= mode1_upto;
            if( m1 ) {
               ga.reset( blank, 1, fa );
               gb.reset( blank, 1, fb );
            }
            const unsigned long top = base + bs < total ? base + bs : total;
            long opened = 0;
            for( unsigned long idx = base; idx < top; ++idx ) {
               unsigned long c = idx;
               for( unsigned i = 0; i < len; ++i ) {
                  cur[ len - 1 - i ] = alpha[ c % 6 ];
                  c /= 6;
               }
               if( len ) std::memcpy( g0.base, cur, len );
               const std::string_view text( cur, len );
               opened += battery< I, Eol, T, Ctx >::go( text, g0.begin(), flags | DO_COUNT, "exact-size" ) ? 1 : 0;
               if( m1 ) {
                  verif::guarded_buffer& g = ( idx & 1 ) ? gb : ga;
                  if( len ) std::memcpy( g.base, cur, len );
                  battery< I, Eol, T, Ctx >::go( text, g.begin(), 0, ( idx & 1 ) ? "poisoned-tail-B" : "poisoned-tail-A" );
               }
            }
            if( primary ) V.nontrivial += opened;
            V.count( std::string( "sweep|" ) + I::name() + "|eol::" + pn + ( T == pegtl::tracking_mode::eager ? "|eager" : "|lazy" ) + "|strings", long( top - base ) );
            if( m1 ) V.count( "buffer|poisoned-tail-with-close-completing-filler", long( top - base ) );
            if( primary && len == lmax && sampled < 2 && opened ) {
               ++sampled;
               V.sample( "{\"part\":\"sweep\",\"inst\":\"" + verif::jesc( I::name() ) + "\",\"eol\":\"" + pn + "\",\"length\":" + std::to_string( len ) + ",\"block_last_input\":\"" + verif::jesc( std::string( cur, len ) ) + "\",\"strings_in_block\":" + std::to_string( top - base ) + ",\"with_opening_bracket\":" + std::to_string( opened ) + "}" );
            }
         }
      }
   }

   // ------------------------------------------------------------------ seeded longer strings
   std::string gen( verif::rng& r, const char O, const char M, const char C, const std::size_t minlen )
   {
      const char alpha[ 6 ] = { O, M, C, '\n', '\r', 'a' };
      std::string s;
      auto open = [ & ]( std::size_t n ) { s += O; s.append( n, M ); s += O; };
      auto close = [ & ]( std::size_t n ) { s += C; s.append( n, M ); s += C; };
      const std::size_t level = r.below( 5 );
      switch( r.below( 12 ) ) {
         case 0: s += alpha[ r.below( 6 ) ]; break;
         case 1: s += O; s.append( level, M ); break;  // second Open missing
         default: open( level ); break;
      }
      switch( r.below( 7 ) ) {
         case 0: s += "\n"; break;
         case 1: s += "\r"; break;
         case 2: s += "\r\n"; break;
         case 3: s += "\n\r"; break;
         case 4: s += "\n\n"; break;
         case 5: s += "\r\r\n"; break;
         default: break;
      }
      const unsigned ntok = unsigned( r.below( 12 ) );
      for( unsigned k = 0; k < ntok; ++k ) {
         switch( r.below( 12 ) ) {
            case 0: case 1: s += 'a'; break;
            case 2: s += alpha[ r.below( 6 ) ]; break;
            case 3: close( level + 1 ); break;                                 // one marker too many
            case 4: if( level ) close( level - 1 ); else s += C; break;        // one marker too few
            case 5: s += C; s.append( level, M ); break;                       // last Close missing
            case 6: open( r.below( 5 ) ); break;                               // opening bracket inside
            case 7: close( r.below( 6 ) ); break;
            case 8: s += C; s.append( level, M ); s += 'a'; s += C; break;     // interrupted close
            case 9: s.append( 1 + r.below( 3 ), M ); break;
            case 10: s += C; s.append( level + 1, M ); break;                  // too many markers, then whatever follows
            default: s += r.chance( 1, 2 ) ? "\n" : "\r\n"; break;
         }
      }
      if( r.chance( 7, 10 ) ) close( level );
      if( r.chance( 1, 4 ) ) {  // a second literal, for the star context
         const std::size_t l2 = r.below( 4 );
         open( l2 );
         s.append( r.below( 3 ), 'a' );
         if( r.chance( 3, 4 ) ) close( l2 );
      }
      for( unsigned k = unsigned( r.below( 4 ) ); k; --k ) s += alpha[ r.below( 6 ) ];
      if( s.size() > 64 ) s.resize( 64 );
      while( s.size() < minlen ) s += alpha[ r.below( 6 ) ];
      return s;
   }

   template< typename I, pegtl::tracking_mode T, bool Ctx, typename... Eols >
   bool over_policies( const std::string_view text, const char* b, const unsigned flags, const char* bufkind )
   {
      bool opened = false;
      ( ( opened = battery< I, Eols, T, Ctx >::go( text, b, flags, bufkind ) ), ... );
      return opened;
   }

#define ALL_EOLS pegtl::eol::lf, pegtl::eol::cr, pegtl::eol::crlf, pegtl::eol::lf_crlf, pegtl::eol::cr_crlf
   constexpr auto EAGER = pegtl::tracking_mode::eager;
   constexpr auto LAZY = pegtl::tracking_mode::lazy;

   template< char O, char M, char C >
   bool random_battery( const std::string_view text, const char* b, const unsigned flags, const char* bufkind );

   template<>
   bool random_battery< '[', '=', ']' >( const std::string_view text, const char* b, const unsigned flags, const char* bufkind )
   {
      bool op = over_policies< inst< '[', '=', ']', 0 >, EAGER, true, ALL_EOLS >( text, b, flags, bufkind );
      over_policies< inst< '[', '=', ']', 1 >, EAGER, false, ALL_EOLS >( text, b, flags, bufkind );
      over_policies< inst< '[', '=', ']', 2 >, EAGER, false, ALL_EOLS >( text, b, flags, bufkind );
      over_policies< inst< '[', '=', ']', 3 >, EAGER, false, ALL_EOLS >( text, b, flags, bufkind );
      over_policies< inst< '[', '=', ']', 4 >, EAGER, false, ALL_EOLS >( text, b, flags, bufkind );
      over_policies< inst< '[', '=', ']', 0 >, LAZY, false, ALL_EOLS >( text, b, flags & ~unsigned( DO_COUNT ), bufkind );
      over_policies< inst< '[', '=', ']', 3 >, LAZY, true, pegtl::eol::lf_crlf, pegtl::eol::cr_crlf >( text, b, flags & ~unsigned( DO_COUNT ), bufkind );
      return op;
   }
   template<>
   bool random_battery< '{', '-', '}' >( const std::string_view text, const char* b, const unsigned flags, const char* bufkind )
   {
      bool op = over_policies< inst< '{', '-', '}', 0 >, EAGER, false, ALL_EOLS >( text, b, flags, bufkind );
      over_policies< inst< '{', '-', '}', 2 >, EAGER, true, pegtl::eol::lf_crlf, pegtl::eol::cr >( text, b, flags, bufkind );
      over_policies< inst< '{', '-', '}', 1 >, LAZY, false, pegtl::eol::crlf >( text, b, flags, bufkind );
      return op;
   }
   template<>
   bool random_battery< '<', '#', '>' >( const std::string_view text, const char* b, const unsigned flags, const char* bufkind )
   {
      bool op = over_policies< inst< '<', '#', '>', 0 >, EAGER, false, ALL_EOLS >( text, b, flags, bufkind );
      over_policies< inst< '<', '#', '>', 3 >, EAGER, true, pegtl::eol::lf_crlf, pegtl::eol::cr_crlf >( text, b, flags, bufkind );
      over_policies< inst< '<', '#', '>', 4 >, LAZY, false, pegtl::eol::lf >( text, b, flags, bufkind );
      return op;
   }

   template< char O, char M, char C >
   void random_part( const long count )
   {
      static const std::string label = std::string( "raw_string<" ) + O + M + C + ">/random";
      verif::rng r( V.seed * 7919 + std::uint64_t( O ) );
      const std::string fa = filler_for( M, C, 0 ), fb = filler_for( M, C, 1 );
      int sampled = 0;
      for( long i = 0; i < count; ++i ) {
         const std::string text = gen( r, O, M, C, 11 );
         if( !V.distinct( text ) ) continue;
         if( !V.begin_case( "C16", label.c_str(), text.data(), text.size() ) ) continue;
         verif::guarded_buffer g0( text, 0 );
         const bool opened = random_battery< O, M, C >( text, g0.begin(), DO_COUNT | DO_NOACTION | DO_CONTEXT, "exact-size" );
         verif::guarded_buffer g1( text, 1, ( i & 1 ) ? fb : fa );
         random_battery< O, M, C >( text, g1.begin(), 0, ( i & 1 ) ? "poisoned-tail-B" : "poisoned-tail-A" );
         if( opened ) ++V.nontrivial;
         V.count( "random|" + label + "|strings" );
         V.count( "buffer|poisoned-tail-with-close-completing-filler" );
         if( opened && sampled < 1 && text.size() > 20 ) {
            ++sampled;
            const oracle::lb_result o = oracle::lua_longbracket( text, O, M, C, oracle::eol_policy::lf_crlf );
            V.sample( "{\"part\":\"random\",\"triple\":\"" + verif::jesc( std::string{ O, M, C } ) + "\",\"input\":\"" + verif::jesc( text ) + "\",\"scanner(lf_crlf,no content rules)\":\"" + verif::jesc( describe( o ) ) + "\"}" );
         }
      }
   }
}  // namespace

int main( int argc, char** argv )
{
   verif::init( argc, argv );
   tao::pegtl::internal::verif::hooks.window_violation = +[]( int op, const void* /*unused*/, std::size_t request, std::size_t available ) {
      window_hit = true;
      w_op = op;
      w_req = request;
      w_avail = available;
   };
   const bool th = V.thorough();
   const unsigned L1 = th ? 10 : 9;  // primary instantiation
   const unsigned L2 = th ? 9 : 8;   // secondary instantiations
   const unsigned L3 = th ? 8 : 7;
   const unsigned full = DO_NOACTION | DO_CONTEXT;

   // primary: Lua's own characters, default policy, everything
   sweep< inst< '[', '=', ']', 0 >, pegtl::eol::lf_crlf, EAGER, true >( L1, true, int( L3 ), full );
   // the other end-of-line policies
   sweep< inst< '[', '=', ']', 0 >, pegtl::eol::lf, EAGER, false >( L2, false, -1, 0 );
   sweep< inst< '[', '=', ']', 0 >, pegtl::eol::cr, EAGER, false >( L2, false, -1, 0 );
   sweep< inst< '[', '=', ']', 0 >, pegtl::eol::crlf, EAGER, false >( L2, false, -1, 0 );
   sweep< inst< '[', '=', ']', 0 >, pegtl::eol::cr_crlf, EAGER, false >( L2, false, int( L3 ), 0 );
   // content rules
   sweep< inst< '[', '=', ']', 1 >, pegtl::eol::lf_crlf, EAGER, false >( L2, false, -1, DO_NOACTION );
   sweep< inst< '[', '=', ']', 2 >, pegtl::eol::lf_crlf, EAGER, true >( L2, false, int( L3 ), full );
   sweep< inst< '[', '=', ']', 3 >, pegtl::eol::lf_crlf, EAGER, true >( L2, false, int( L3 ), full );
   sweep< inst< '[', '=', ']', 4 >, pegtl::eol::lf_crlf, EAGER, false >( L2, false, -1, DO_NOACTION );
   sweep< inst< '[', '=', ']', 3 >, pegtl::eol::cr_crlf, LAZY, true >( L3, false, -1, full );
   // lazy tracking
   sweep< inst< '[', '=', ']', 0 >, pegtl::eol::lf_crlf, LAZY, false >( L2, false, -1, DO_NOACTION );
   // custom characters
   sweep< inst< '{', '-', '}', 0 >, pegtl::eol::lf_crlf, EAGER, false >( L2, true, int( L3 ), DO_NOACTION );
   sweep< inst< '{', '-', '}', 2 >, pegtl::eol::cr, EAGER, true >( L3, false, -1, full );
   sweep< inst< '<', '#', '>', 0 >, pegtl::eol::lf_crlf, EAGER, false >( L2, true, int( L3 ), DO_NOACTION );
   sweep< inst< '<', '#', '>', 3 >, pegtl::eol::cr_crlf, EAGER, true >( L3, false, -1, full );
   sweep< inst< '<', '#', '>', 4 >, pegtl::eol::lf, LAZY, false >( L3, false, -1, DO_NOACTION );

   const long nrand = th ? 400000 : 40000;
   random_part< '[', '=', ']' >( nrand );
   random_part< '{', '-', '}' >( nrand / 2 );
   random_part< '<', '#', '>' >( nrand / 2 );

   for( const auto& [ name, t ] : tallies ) {
      for( int l = 0; l < 5; ++l )
         if( t->level[ l ] ) V.count( name + "|match-level-" + ( l < 4 ? std::to_string( l ) : std::string( "4+" ) ), t->level[ l ] );
      if( t->no_open ) V.count( name + "|no-open", t->no_open );
      if( t->unterminated ) V.count( name + "|unterminated", t->unterminated );
      if( t->rejected ) V.count( name + "|content-rule-failed", t->rejected );
   }
   for( int p = 0; p < 5; ++p )
      for( int c = 0; c < 6; ++c )
         if( eolcells[ p ][ c ] ) V.count( std::string( "after-open|eol::" ) + oracle::eol_policy_name( oracle::eol_policy( p ) ) + "|" + eolcell_name[ c ], eolcells[ p ][ c ] );
   V.finish();
   return 0;
}
