// C15 — integer rules and conversions are exact or report overflow.
// Monitor: every rule / action of tao/pegtl/contrib/integer.hpp is instantiated for the eight
// fixed-width integer types (and ~20 explicit maxima per unsigned type) and run on real inputs,
// at top level and embedded under opt<> / sor<>, on exact-size and poisoned-tail buffers, beside
// the independent 128-bit oracle of cpp/oracles/bigdec.hpp.
//
// Build parts (-DC15_PART=n, see tools/specs/C15.py; split only to compile in parallel): 0 all,
// 1 the rules and actions without a maximum, 2..13 the maximum family (three parts per unsigned type).
#include <tao/pegtl.hpp>
#include <tao/pegtl/contrib/integer.hpp>

#include <cstdint>
#include <deque>
#include <limits>
#include <set>
#include <string>
#include <type_traits>
#include <vector>

#include "common/verif.hpp"
#include "oracles/bigdec.hpp"

#ifndef C15_PART
#define C15_PART 0
#endif

namespace pegtl = tao::pegtl;
namespace od = oracle::dec;
using od::i128;
using od::u128;
using verif::V;

namespace
{
   struct no_state
   {};

   template< typename T >
   constexpr const char* type_name()
   {
      if constexpr( std::is_same_v< T, std::int8_t > ) return "int8";
      else if constexpr( std::is_same_v< T, std::int16_t > ) return "int16";
      else if constexpr( std::is_same_v< T, std::int32_t > ) return "int32";
      else if constexpr( std::is_same_v< T, std::int64_t > ) return "int64";
      else if constexpr( std::is_same_v< T, std::uint8_t > ) return "uint8";
      else if constexpr( std::is_same_v< T, std::uint16_t > ) return "uint16";
      else if constexpr( std::is_same_v< T, std::uint32_t > ) return "uint32";
      else if constexpr( std::is_same_v< T, std::uint64_t > ) return "uint64";
      else return "-";
   }

   constexpr std::string_view FILLER = "0123456789";  // a read past the logical end extends the numeral

   // ------------------------------------------------------------------ state of the run in flight
   struct live_t
   {
      verif::guarded_buffer* gb = nullptr;
      int mode = 0;
      int hits = 0;  // firings of the window hook during this run
      int op = 0;
      std::size_t request = 0, available = 0;
      bool defused = false;   // tail unpoisoned by the hook (mode 1): re-poison after the run
      bool reported = false;  // reads-past-end already reported for this run
      void ( *report_now )() = nullptr;
      bool mark_called = false;
      const char* mark_at = nullptr;
      unsigned ctx = 0;
      std::string_view bytes;
   };
   live_t L;
   bool g_in_min_case = false;
   bool g_force_mode0 = false;

   std::size_t alloc_of( const verif::guarded_buffer& gb ) { return ( ( gb.size + gb.tail + 7 ) & ~std::size_t( 7 ) ) + 8; }

   void on_window( int op, const void* /*input*/, std::size_t request, std::size_t available )
   {
      if( L.hits++ == 0 ) {
         L.op = op;
         L.request = request;
         L.available = available;
      }
      if( L.gb == nullptr ) return;
      if( L.mode == 1 ) {
         // the firing is the detection; let the read go on into the filler so that the run ends normally
         VERIF_UNPOISON( L.gb->base + L.gb->size, alloc_of( *L.gb ) - L.gb->size );
         L.defused = true;
      }
      else if( !L.reported && L.report_now ) {
         // exact-size buffer: the read that follows faults under ASan, so write the record now
         L.reported = true;
         L.report_now();
      }
   }

   // second alternative of sor< R, mark >: tells whether R failed and where it left the cursor
   struct mark
   {
      using rule_t = mark;
      using subs_t = pegtl::empty_list;
      template< typename ParseInput >
      [[nodiscard]] static bool match( ParseInput& in ) noexcept
      {
         L.mark_called = true;
         L.mark_at = in.current();
         return true;
      }
   };

   enum : unsigned
   {
      CTX_REQ = 0,
      CTX_DEF = 1,
      CTX_OPT = 2,
      CTX_SOR = 3,
      NCTX = 4
   };
   const char* const ctx_name[ NCTX ] = { "parse<R> with rewind_mode::required", "parse<R> with the default rewind mode", "opt<R>", "sor<R,mark>" };
   const char* const ctx_cell[ NCTX ] = { "ctx:top-required", "ctx:top-default", "ctx:opt", "ctx:sor" };

   enum kind_t { K_FAIL = 0, K_OK = 1, K_PARSE_ERROR = 2, K_OTHER = 3, K_COMBINATOR = 4 };
   enum exp_t { E_REJECT = 0, E_OK = 1, E_OVERFLOW = 2 };
   enum class policy { none, throws, fails, throws_or_fails };
   const char* const exp_name[ 3 ] = { "syntax-reject", "ok", "overflow" };

   struct raw
   {
      int st = 0;
      std::size_t pos = 0;
      i128 stored = 0;
      std::string msg;
   };
   struct observed
   {
      int kind = 0;
      std::size_t pos = 0;
      i128 stored = 0;
      int hits = 0;
      std::string msg;
   };
   struct expect
   {
      int kind = E_REJECT;
      std::size_t len = 0;
      i128 value = 0;
      std::string text;  // exact value as text (may be astronomic)
   };

   long g_ctx_runs[ NCTX ] = { 0, 0, 0, 0 };
   long g_mode_runs[ 2 ] = { 0, 0 };
   long g_trailer[ 4 ] = { 0, 0, 0, 0 };
   const char* const trailer_cell[ 4 ] = { "trailer:end-of-input", "trailer:digit", "trailer:non-digit", "trailer:other" };
   long g_deferred = 0;

   // ------------------------------------------------------------------ configurations
   // Only the four parse<> instantiations are per configuration; everything else works on this record.
   struct cfg
   {
      const char* family = "";  // name used in violation keys
      const char* cell = "";    // name used in coverage cells
      const char* tname = "-";
      std::string label, maxtext;
      bool signed_syntax = false, zeros_ok = false, has_state = false, typed = false, defer_min = false;
      policy overflow = policy::none;
      u128 hi = 0, lo_mag = 0;
      void ( *run )( unsigned, const verif::guarded_buffer&, i128, raw& ) = nullptr;
      long cnt[ 3 ] = { 0, 0, 0 };
      long skipped_mode0 = 0;
      int samples = 0;
      int overreads = -1;
   };
   std::vector< cfg* > g_cfgs;
   cfg* g_cur = nullptr;

   template< typename Host, typename Act >
   struct attach
   {
      template< typename R >
      struct action : std::conditional_t< std::is_same_v< R, Host >, Act, pegtl::nothing< R > >
      {};
   };
   template< typename Act >
   struct attach< void, Act >
   {
      template< typename R >
      struct action : pegtl::nothing< R >
      {};
   };

   void note_error( raw& o, const pegtl::parse_error& e )
   {
      o.st = 2;
      o.msg = std::string( e.message() );
   }

   template< typename G, template< typename... > class Action, pegtl::apply_mode A, pegtl::rewind_mode M, typename S >
   void raw_run( raw& o, const verif::guarded_buffer& gb, [[maybe_unused]] const i128 sentinel )
   {
      pegtl::memory_input<> in( gb.begin(), gb.end(), "c15" );
      try {
         if constexpr( !std::is_same_v< S, no_state > ) {
            S st = S( sentinel );
            o.st = pegtl::parse< G, Action, pegtl::normal, A, M >( in, st ) ? 1 : 0;
            o.stored = i128( st );
         }
         else {
            o.st = pegtl::parse< G, Action, pegtl::normal, A, M >( in ) ? 1 : 0;
         }
      }
      catch( const pegtl::parse_error& e ) {
         note_error( o, e );
      }
      catch( ... ) {
         o.st = 3;
      }
      o.pos = std::size_t( in.current() - gb.begin() );
   }

   template< typename R, typename Host, typename Act, pegtl::apply_mode A, typename S >
   void run4( const unsigned ctx, const verif::guarded_buffer& gb, const i128 sentinel, raw& o )
   {
      switch( ctx ) {
         case CTX_REQ: raw_run< R, attach< Host, Act >::template action, A, pegtl::rewind_mode::required, S >( o, gb, sentinel ); break;
         case CTX_DEF: raw_run< R, attach< Host, Act >::template action, A, pegtl::rewind_mode::optional, S >( o, gb, sentinel ); break;
         case CTX_OPT: raw_run< pegtl::opt< R >, attach< Host, Act >::template action, A, pegtl::rewind_mode::optional, S >( o, gb, sentinel ); break;
         default: raw_run< pegtl::sor< R, mark >, attach< Host, Act >::template action, A, pegtl::rewind_mode::optional, S >( o, gb, sentinel ); break;
      }
   }

   template< typename T >
   u128 tmax() { return u128( ( std::numeric_limits< T >::max )() ); }

   // one record per distinct ( rule, action host, action, apply mode, state type, value type )
   template< typename R, typename Host, typename Act, pegtl::apply_mode A, typename S, typename VT >
   cfg& make( const char* family, const char* cell, const bool signed_syntax, const bool zeros_ok, const policy p, const u128 hi, const u128 lo, const std::string& maxtext )
   {
      static cfg c;
      if( c.run != nullptr ) return c;
      c.family = family;
      c.cell = cell;
      c.tname = type_name< VT >();
      c.maxtext = maxtext;
      c.signed_syntax = signed_syntax;
      c.zeros_ok = zeros_ok;
      c.has_state = !std::is_same_v< S, no_state >;
      c.typed = !std::is_same_v< VT, no_state >;
      c.defer_min = c.has_state && signed_syntax && sizeof( S ) >= sizeof( int );
      c.overflow = p;
      c.hi = hi;
      c.lo_mag = lo;
      c.run = &run4< R, Host, Act, A, S >;
      // label: template arguments behind the template name, in front of any "(...)" / "@..." suffix
      c.label = cell;
      std::string args;
      if( c.typed ) args = c.tname;
      if( !maxtext.empty() ) args += "," + maxtext;
      if( !args.empty() ) {
         std::size_t at = c.label.find_first_of( "(@" );
         if( at == std::string::npos ) at = c.label.size();
         c.label.insert( at, "<" + args + ">" );
      }
      g_cfgs.push_back( &c );
      return c;
   }

   constexpr auto ACT = pegtl::apply_mode::action;
   constexpr auto NOTHING = pegtl::apply_mode::nothing;

   cfg& c_unsigned_rule() { return make< pegtl::unsigned_rule, void, void, ACT, no_state, no_state >( "unsigned_rule", "unsigned_rule", false, false, policy::none, 0, 0, "" ); }
   cfg& c_signed_rule() { return make< pegtl::signed_rule, void, void, ACT, no_state, no_state >( "signed_rule", "signed_rule", true, false, policy::none, 0, 0, "" ); }
   cfg& c_unsigned_rwa_nothing() { return make< pegtl::unsigned_rule_with_action, void, void, NOTHING, no_state, no_state >( "unsigned_rule_with_action", "unsigned_rule_with_action(apply_mode::nothing)", false, false, policy::none, 0, 0, "" ); }
   cfg& c_signed_rwa_nothing() { return make< pegtl::signed_rule_with_action, void, void, NOTHING, no_state, no_state >( "signed_rule_with_action", "signed_rule_with_action(apply_mode::nothing)", true, false, policy::none, 0, 0, "" ); }

   template< typename T >
   cfg& c_unsigned_action() { return make< pegtl::unsigned_rule, pegtl::unsigned_rule, pegtl::unsigned_action, ACT, T, T >( "unsigned_action", "unsigned_action", false, false, policy::throws, tmax< T >(), 0, "" ); }
   template< typename T >
   cfg& c_unsigned_action_old() { return make< pegtl::unsigned_rule_old, pegtl::unsigned_rule_old, pegtl::unsigned_action, ACT, T, T >( "unsigned_action", "unsigned_action@unsigned_rule_old", false, true, policy::throws, tmax< T >(), 0, "" ); }
   template< typename T >
   cfg& c_unsigned_rwa() { return make< pegtl::unsigned_rule_with_action, void, void, ACT, T, T >( "unsigned_rule_with_action", "unsigned_rule_with_action", false, false, policy::throws, tmax< T >(), 0, "" ); }

   template< typename T >
   cfg& c_signed_action() { return make< pegtl::signed_rule, pegtl::signed_rule, pegtl::signed_action, ACT, T, T >( "signed_action", "signed_action", true, false, policy::throws, tmax< T >(), tmax< T >() + 1, "" ); }
   template< typename T >
   cfg& c_signed_action_old() { return make< pegtl::signed_rule_old, pegtl::signed_rule_old, pegtl::signed_action, ACT, T, T >( "signed_action", "signed_action@signed_rule_old", true, true, policy::throws, tmax< T >(), tmax< T >() + 1, "" ); }
   template< typename T >
   cfg& c_signed_rwa() { return make< pegtl::signed_rule_with_action, void, void, ACT, T, T >( "signed_rule_with_action", "signed_rule_with_action", true, false, policy::throws, tmax< T >(), tmax< T >() + 1, "" ); }

   template< typename T, T Max >
   cfg& c_maximum_rule() { return make< pegtl::maximum_rule< T, Max >, void, void, ACT, no_state, T >( "maximum_rule", "maximum_rule", false, false, policy::fails, u128( Max ), 0, od::to_string( u128( Max ) ) ); }
   template< typename T, T Max >
   cfg& c_maximum_rwa() { return make< pegtl::maximum_rule_with_action< T, Max >, void, void, ACT, T, T >( "maximum_rule_with_action", "maximum_rule_with_action", false, false, policy::throws, u128( Max ), 0, od::to_string( u128( Max ) ) ); }
   template< typename T, T Max >
   cfg& c_maximum_rwa_nothing() { return make< pegtl::maximum_rule_with_action< T, Max >, void, void, NOTHING, no_state, T >( "maximum_rule_with_action", "maximum_rule_with_action(apply_mode::nothing)", false, false, policy::throws_or_fails, u128( Max ), 0, od::to_string( u128( Max ) ) ); }
   template< typename T, T Max >
   cfg& c_maximum_action() { return make< pegtl::unsigned_rule, pegtl::unsigned_rule, pegtl::maximum_action< T, Max >, ACT, T, T >( "maximum_action", "maximum_action", false, false, policy::throws, u128( Max ), 0, od::to_string( u128( Max ) ) ); }
   template< typename T, T Max >
   cfg& c_maximum_action_old() { return make< pegtl::unsigned_rule_old, pegtl::unsigned_rule_old, pegtl::maximum_action< T, Max >, ACT, T, T >( "maximum_action", "maximum_action@unsigned_rule_old", false, true, policy::throws, u128( Max ), 0, od::to_string( u128( Max ) ) ); }

   // ------------------------------------------------------------------ the checker
   void viol( const cfg& c, const char* cls, const std::string& detail )
   {
      std::string key = std::string( "C15|" ) + c.family;
      if( c.typed ) key += std::string( "[" ) + c.tname + "]";
      key += std::string( "|" ) + cls;
      long& n = V.violcount[ key ];
      if( n >= long( V.max_per_key ) ) {
         ++n;
         return;
      }
      const std::string what = c.label + " in " + ctx_name[ L.ctx ] + ", buffer mode " + std::to_string( L.mode ) + ", input \"" + verif::show( L.bytes ) + "\": " + detail;
      const std::string replay = "{\"rule\":\"" + verif::jesc( c.label ) + "\",\"ctx\":" + std::to_string( L.ctx ) + ",\"mode\":" + std::to_string( L.mode ) + ",\"input_hex\":\"" + verif::hex( L.bytes ) + "\"}";
      V.violation( "C15", key, what, replay );
   }

   void report_overread()
   {
      viol( *g_cur, "reads-past-end", std::string( L.op == 0 ? "peek_char(" : "bump(" ) + std::to_string( L.request ) + ") with " + std::to_string( L.available ) + " byte(s) left in the input" );
   }

   // one monitored execution; req_failed: the top-level required run of the same input returned false
   observed run_ctx( cfg& c, const unsigned ctx, verif::guarded_buffer& gb, const int mode, const i128 sentinel, const bool req_failed, const std::size_t explen )
   {
      g_cur = &c;
      L.gb = &gb;
      L.mode = mode;
      L.hits = 0;
      L.defused = false;
      L.reported = false;
      L.report_now = &report_overread;
      L.mark_called = false;
      L.mark_at = nullptr;
      L.ctx = ctx;
      V.cur_extra[ 0 ] = 'c';
      V.cur_extra[ 1 ] = char( '0' + ctx );
      V.cur_extra[ 2 ] = 'm';
      V.cur_extra[ 3 ] = char( '0' + mode );
      V.cur_extra[ 4 ] = 0;
      raw r;
      c.run( ctx, gb, sentinel, r );
      if( L.defused ) {
         VERIF_POISON( gb.base + gb.size, alloc_of( gb ) - gb.size );
         L.defused = false;
      }
      L.gb = nullptr;
      observed o;
      o.hits = L.hits;
      o.stored = r.stored;
      o.msg = std::move( r.msg );
      o.pos = r.pos;
      if( r.st >= 2 ) {
         o.kind = r.st;
         return o;
      }
      switch( ctx ) {
         case CTX_REQ:
         case CTX_DEF:
            o.kind = r.st;
            break;
         case CTX_OPT:
            if( r.st != 1 ) o.kind = K_COMBINATOR;
            else if( r.pos == 0 ) o.kind = K_FAIL;
            else if( r.pos == explen ) o.kind = K_OK;
            else o.kind = req_failed ? K_FAIL : K_OK;  // opt<> hides the result of R: take it from the direct run
            break;
         default:
            if( r.st != 1 ) o.kind = K_COMBINATOR;
            else if( L.mark_called ) {
               o.kind = K_FAIL;
               o.pos = std::size_t( L.mark_at - gb.begin() );
            }
            else o.kind = K_OK;
            break;
      }
      return o;
   }

   void judge( const cfg& c, const observed& o, const unsigned ctx, const expect& e )
   {
      const bool rewind_required = ( ctx != CTX_DEF );
      if( o.hits ) {
         if( !L.reported ) report_overread();
         return;  // everything else about this run is a consequence
      }
      if( o.pos > L.bytes.size() ) {
         viol( c, "reads-past-end", "cursor left " + std::to_string( o.pos - L.bytes.size() ) + " byte(s) behind the end of the input" );
         return;
      }
      if( o.kind == K_OTHER ) {
         viol( c, "unexpected-exception", "an exception that is not a parse_error escaped" );
         return;
      }
      if( o.kind == K_COMBINATOR ) {
         viol( c, "unexpected-result", "the enclosing opt<>/sor<> returned false" );
         return;
      }
      const bool value_checked = c.has_state && c.overflow != policy::none;
      switch( e.kind ) {
         case E_REJECT:
            if( o.kind == K_FAIL ) {
               if( rewind_required && o.pos != 0 ) viol( c, "fails-with-cursor-moved", "local failure (correct) but the cursor is " + std::to_string( o.pos ) + " byte(s) behind the start although rewind_mode::required was requested" );
            }
            else if( o.kind == K_OK ) viol( c, "syntax-false-accept", "no numeral of the documented syntax starts here, but the rule matched " + std::to_string( o.pos ) + " byte(s)" + ( c.has_state ? ", state holds " + od::to_string( o.stored ) : std::string() ) );
            else viol( c, "syntax-false-accept", "no numeral of the documented syntax starts here; expected a local failure, but the input was taken for a numeral and parse_error '" + o.msg + "' was thrown" );
            break;
         case E_OK:
            if( o.kind == K_OK ) {
               if( o.pos != e.len ) viol( c, "wrong-consumed", "matched " + std::to_string( o.pos ) + " byte(s), the numeral has " + std::to_string( e.len ) );
               else if( value_checked && o.stored != e.value ) viol( c, "wrong-value", "exact value " + e.text + ", state holds " + od::to_string( o.stored ) );
            }
            else if( o.kind == K_FAIL ) {
               if( c.overflow == policy::fails ) viol( c, "false-reject", "numeral " + e.text + " (" + std::to_string( e.len ) + " byte(s)) is within the maximum " + c.maxtext + ", but the rule failed" );
               else viol( c, "syntax-false-reject", "a numeral of " + std::to_string( e.len ) + " byte(s) starts here, but the rule failed" );
            }
            else viol( c, "spurious-overflow", "value " + e.text + " fits (limit " + od::to_string( c.hi ) + "), but parse_error '" + o.msg + "' was thrown" );
            break;
         default: {
            const std::string lim = ( e.text[ 0 ] == '-' ) ? "-" + od::to_string( c.lo_mag ) : od::to_string( c.hi );
            if( o.kind == K_OK ) viol( c, "missed-overflow", "value " + e.text + " exceeds the limit " + lim + " but the rule matched " + std::to_string( o.pos ) + " byte(s) without reporting overflow" + ( c.has_state ? ", state holds " + od::to_string( o.stored ) : std::string() ) );
            else if( o.kind == K_FAIL ) {
               if( c.overflow == policy::throws ) viol( c, "missed-overflow", "value " + e.text + " exceeds the limit " + lim + "; expected parse_error, got a plain local failure" );
               else if( rewind_required && o.pos != 0 ) viol( c, "fails-with-cursor-moved", "local failure for the too large value " + e.text + " (correct) but the cursor is " + std::to_string( o.pos ) + " byte(s) behind the start although rewind_mode::required was requested" );
            }
            else if( c.overflow == policy::fails ) viol( c, "unexpected-exception", "value " + e.text + " exceeds the maximum; the documented result is a local failure, got parse_error '" + o.msg + "'" );
            break;
         }
      }
   }

   // does this rule read behind the end of its input?  Decides whether exact-size buffers can be used
   // in bulk without an ASan abort per input; the firing itself is reported by judge() in the cases.
   bool overreads( cfg& c )
   {
      if( c.overreads < 0 ) {
         bool any = false;
         for( const std::string_view s : { "1", "7", "2", "10", "12", "0", "123", "-7", "+1" } ) {
            verif::guarded_buffer gb( s, 1, FILLER );
            L.bytes = s;
            for( unsigned ctx = 0; ctx < 2; ++ctx ) any |= ( run_ctx( c, ctx, gb, 1, 123, false, 0 ).hits > 0 );
         }
         c.overreads = any ? 1 : 0;
      }
      return c.overreads == 1;
   }

   // all monitored executions of one input
   void check( cfg& c, const std::string_view bytes, unsigned ctxmask, unsigned modemask, const bool countable, const int trailer )
   {
      const od::leading_zeros z = c.zeros_ok ? od::leading_zeros::tolerated : od::leading_zeros::rejected;
      const od::numeral n = c.signed_syntax ? od::read_signed( bytes, z ) : od::read_unsigned( bytes, z );
      expect e;
      if( n.matched ) {
         e.len = n.length;
         const bool fits = ( c.overflow == policy::none ) || od::representable( n, c.hi, c.lo_mag );
         e.kind = fits ? E_OK : E_OVERFLOW;
         if( n.astronomic ) e.text = std::string( n.negative ? "-" : "" ) + "(more than 38 digits)";
         else {
            e.text = std::string( n.negative && n.magnitude != 0 ? "-" : "" ) + od::to_string( n.magnitude );
            if( fits && c.overflow != policy::none ) e.value = od::value_of( n );
         }
         if( c.defer_min && n.negative && !n.astronomic && n.magnitude == c.lo_mag && !g_in_min_case ) {
            ++g_deferred;  // the type minimum has its own case (known suspect for UBSan)
            return;
         }
      }
      if( !g_force_mode0 && ( modemask & 1u ) && overreads( c ) ) {
         modemask = 2u;
         ++c.skipped_mode0;
      }
      V.cur_data = bytes.data();
      V.cur_len = bytes.size();
      L.bytes = bytes;
      const i128 sentinel = ( e.kind == E_OK && e.value == 123 ) ? 77 : 123;
      ++g_trailer[ trailer ];
      if( countable && bytes.size() >= 2 ) ++V.nontrivial;
      ctxmask |= 1u;
      for( int mode = 0; mode < 2; ++mode ) {
         if( !( modemask & ( 1u << mode ) ) ) continue;
         verif::guarded_buffer gb( bytes, mode, FILLER );
         bool req_failed = false;
         for( unsigned ctx = 0; ctx < NCTX; ++ctx ) {
            if( !( ctxmask & ( 1u << ctx ) ) ) continue;
            const observed o = run_ctx( c, ctx, gb, mode, sentinel, req_failed, e.len );
            if( ctx == CTX_REQ ) req_failed = ( o.kind == K_FAIL );
            ++V.evaluations;
            ++c.cnt[ e.kind ];
            ++g_ctx_runs[ ctx ];
            ++g_mode_runs[ mode ];
            judge( c, o, ctx, e );
         }
      }
      if( c.samples < 1 && bytes.size() >= 3 && e.kind != E_REJECT ) {
         ++c.samples;
         V.sample( "{\"rule\":\"" + verif::jesc( c.label ) + "\",\"input\":\"" + verif::jesc( bytes ) + "\",\"oracle\":\"" + exp_name[ e.kind ] + "\",\"exact\":\"" + e.text + "\",\"numeral_bytes\":" + std::to_string( e.len ) + "}" );
      }
   }

   void flush_cells()
   {
      for( const cfg* c : g_cfgs ) {
         const std::string p = std::string( c->cell ) + "[" + c->tname + "]";
         for( int i = 0; i < 3; ++i )
            if( c->cnt[ i ] ) V.count( p + ":" + exp_name[ i ], c->cnt[ i ] );
         if( c->skipped_mode0 ) V.count( "exact-size-buffer-skipped-because-rule-reads-past-end:" + p, c->skipped_mode0 );
      }
   }

   // ------------------------------------------------------------------ inputs
   const std::string_view NONDIGIT[] = { "a", ".", " ", "/", ":", "-", "+", std::string_view( "\0", 1 ), "\xb0", "\xff", "\n", "e", "x" };
   constexpr std::size_t NNONDIGIT = sizeof NONDIGIT / sizeof NONDIGIT[ 0 ];
   const std::string_view DIGIT_TRAILERS[] = { "0", "5", "9" };

   struct deco
   {
      std::string text;
      bool countable;
      int trailer;
   };

   std::vector< deco > decorate( const std::string& m, const std::size_t salt )
   {
      std::vector< deco > r;
      std::set< std::string > seen;
      auto add = [ & ]( std::string s, const bool c, const int t ) {
         if( seen.insert( s ).second ) r.push_back( { std::move( s ), c, t } );
      };
      const std::string nd( NONDIGIT[ salt % NNONDIGIT ] );
      for( const char* sign : { "", "-", "+" } )
         for( const char* z : { "", "0", "00" } ) {
            add( std::string( sign ) + z + m, true, 0 );
            add( std::string( sign ) + z + m + nd, true, 2 );
         }
      for( const auto tr : NONDIGIT ) add( m + std::string( tr ), true, 2 );
      for( const auto tr : DIGIT_TRAILERS ) {
         add( m + std::string( tr ), false, 1 );
         add( "-" + m + std::string( tr ), false, 1 );
         add( "+" + m + std::string( tr ), false, 1 );
      }
      for( const char* tr : { "a", "/", ":" } ) add( "-" + m + tr, true, 2 );
      return r;
   }

   void near( std::set< u128 >& s, const u128 c, const unsigned d = 3 )
   {
      for( unsigned i = 0; i <= d; ++i ) {
         if( c >= i ) s.insert( c - i );
         s.insert( c + i );
      }
   }

   std::string random_numeral( verif::rng& r, const unsigned len )
   {
      std::string s;
      s.push_back( char( '1' + r.below( 9 ) ) );
      for( unsigned i = 1; i < len; ++i ) s.push_back( char( '0' + r.below( 10 ) ) );
      return s;
   }

   unsigned ndigits( u128 v )
   {
      unsigned n = 1;
      while( v >= 10 ) {
         v /= 10;
         ++n;
      }
      return n;
   }

   // boundary magnitudes for a target with positive limit hi, negative magnitude limit lo (0: unsigned),
   // whose arithmetic is done in `bits` bits
   std::vector< std::string > magnitudes( const u128 hi, const u128 lo, const unsigned bits, const std::uint64_t stream, const bool wide, const unsigned thorough_per_len = 120 )
   {
      std::set< u128 > s;
      for( u128 v = 0; v <= 12; ++v ) s.insert( v );
      const unsigned W = ndigits( hi );
      for( unsigned k = 1; k <= W + 1; ++k ) near( s, od::pow10( k ) );
      std::vector< u128 > limits{ hi };
      if( lo != 0 ) limits.push_back( lo );
      for( const u128 lim : limits ) {
         near( s, lim );
         near( s, lim / 10 );
         near( s, lim / 100, 1 );
         near( s, lim * 10 );
         near( s, lim * 10 + lim % 10, 1 );
         for( unsigned d = 0; d < 10; ++d ) {
            s.insert( ( lim / 10 ) * 10 + d );
            s.insert( ( lim / 10 + 1 ) * 10 + d );
            if( lim >= 10 ) s.insert( ( lim / 10 - 1 ) * 10 + d );
            s.insert( lim * 10 + d );
         }
      }
      // values that alias small or in-range ones when the arithmetic wraps in the type
      const u128 two = u128( 1 ) << bits;
      for( const u128 base : { two, two * 2, two * 10, two >> 1 } ) {
         near( s, base );
         s.insert( base + hi );
         s.insert( base + hi / 10 );
         s.insert( base + 5 );
         s.insert( base + 10 );
         s.insert( base + 100 );
      }
      if( wide )
         for( const unsigned b : { 7u, 8u, 15u, 16u, 31u, 32u, 63u, 64u } ) near( s, u128( 1 ) << b, 2 );
      std::set< std::string > out;
      for( const u128 v : s )
         if( ndigits( v ) <= W + 2 ) out.insert( od::to_string( v ) );
      verif::rng r( V.seed * 1000003ull + stream );
      const unsigned per_len = V.thorough() ? thorough_per_len : 8;
      const std::string his = od::to_string( hi );
      for( unsigned len = 1; len <= W + 2; ++len )
         for( unsigned i = 0; i < per_len; ++i ) out.insert( random_numeral( r, len ) );
      // same prefix as the limit, random tail: lives next to the cutoff logic
      for( unsigned i = 0; i < per_len * 4; ++i ) {
         std::string t = his;
         const std::size_t keep = r.below( t.size() );
         for( std::size_t k = keep; k < t.size(); ++k ) t[ k ] = char( '0' + r.below( 10 ) );
         if( t[ 0 ] == '0' ) t[ 0 ] = '1';
         if( r.chance( 1, 4 ) ) t.push_back( char( '0' + r.below( 10 ) ) );
         out.insert( t );
      }
      out.insert( "1" + std::string( 39, '0' ) );
      out.insert( std::string( 45, '9' ) );
      return std::vector< std::string >( out.begin(), out.end() );
   }

   // ------------------------------------------------------------------ parts
   void flush_all_cells()
   {
      flush_cells();
      for( cfg* c : g_cfgs ) {
         c->cnt[ 0 ] = c->cnt[ 1 ] = c->cnt[ 2 ] = 0;
         c->skipped_mode0 = 0;
      }
      for( unsigned i = 0; i < NCTX; ++i ) {
         if( g_ctx_runs[ i ] ) V.count( ctx_cell[ i ], g_ctx_runs[ i ] );
         g_ctx_runs[ i ] = 0;
      }
      if( g_mode_runs[ 0 ] ) V.count( "buffer:exact-size", g_mode_runs[ 0 ] );
      if( g_mode_runs[ 1 ] ) V.count( "buffer:poisoned-digit-tail", g_mode_runs[ 1 ] );
      g_mode_runs[ 0 ] = g_mode_runs[ 1 ] = 0;
      for( int i = 0; i < 4; ++i ) {
         if( g_trailer[ i ] ) V.count( trailer_cell[ i ], g_trailer[ i ] );
         g_trailer[ i ] = 0;
      }
      if( g_deferred ) V.count( "type-minimum-inputs-routed-to-their-own-case", g_deferred );
      g_deferred = 0;
   }

   // A sanitizer abort ends the process and the framework resumes behind the aborting case: what was
   // counted so far would be lost.  Write it out (same record type as finish()) before a case that is
   // a known suspect, and every few thousand cases.
   void checkpoint()
   {
      flush_all_cells();
      std::string l = "{\"t\":\"cov\",\"evaluations\":" + std::to_string( V.evaluations ) + ",\"nontrivial\":" + std::to_string( V.nontrivial ) + ",\"cells\":{";
      bool first = true;
      for( const auto& [ k, v ] : V.cells ) {
         if( !first ) l += ",";
         first = false;
         l += "\"" + verif::jesc( k ) + "\":" + std::to_string( v );
      }
      l += "},\"violcount\":{},\"samples\":[";
      first = true;
      for( const auto& x : V.samples ) {
         if( !first ) l += ",";
         first = false;
         l += x;
      }
      l += "]}";
      V.emit( l );
      V.evaluations = 0;
      V.nontrivial = 0;
      V.cells.clear();
      V.samples.clear();
   }

   long g_last_checkpoint = 0;
   bool begin( const char* label, const void* data, const std::size_t len, const bool suspect = false )
   {
      if( !V.begin_case( "C15", label, data, len ) ) return false;
      if( suspect || V.ncase - g_last_checkpoint >= 4000 ) {
         g_last_checkpoint = V.ncase;
         checkpoint();
      }
      return true;
   }

   void boundary( cfg& c, const std::vector< std::string >& mags, const bool count_nt )
   {
      std::size_t salt = 0;
      for( const std::string& m : mags ) {
         ++salt;
         if( !begin( c.label.c_str(), m.data(), m.size() ) ) continue;
         for( const deco& d : decorate( m, salt + V.seed ) ) check( c, d.text, 0xFu, 3u, count_nt && d.countable, d.trailer );
      }
   }

   void oddities( cfg& c )
   {
      if( !begin( c.label.c_str(), "odd", 3 ) ) return;
      static const std::string odd[] = { "", "-", "+", "a", " 1", "--0", "++0", "-+0", "+-1", "- 1", "+ 1", "0x10", "1e5", "1.5", "-.5", "00", "000", "-00", "+00", "0-", "0+", "-0", "+0", "-0a", "0a", "00a", "01", "09", "-01", "+09", "001", "-a", "+a", "-/", "+:", "/", ":", "/1", ":1", "1/2", "9:", "\xb1", "\xb0", "1\xb1", "0\xb0", "-\xb1", std::string( "\0", 1 ), std::string( "1\0" "2", 3 ), std::string( "0\0", 2 ), "\xd9\xa3", "\xef\xbc\x91", " ", "\t1", "\n1", "1\n", "0\n" };
      for( const std::string& s : odd ) check( c, s, 0xFu, 3u, false, 3 );
   }

   // all digit strings of length 1..maxlen (leading zeros included), signs and one trailer each
   void sweep( cfg& c, const unsigned maxlen )
   {
      std::uint64_t total = 0, p = 1;
      for( unsigned l = 1; l <= maxlen; ++l ) {
         p *= 10;
         total += p;
      }
      const std::uint64_t B = 2000;
      std::string d, in;
      for( std::uint64_t start = 0; start < total; start += B ) {
         if( !begin( c.label.c_str(), nullptr, 0 ) ) continue;
         const std::uint64_t stop = ( start + B < total ) ? start + B : total;
         for( std::uint64_t i = start; i < stop; ++i ) {
            std::uint64_t v = i, pw = 10;
            unsigned len = 1;
            while( v >= pw ) {
               v -= pw;
               pw *= 10;
               ++len;
            }
            d.assign( len, '0' );
            for( unsigned k = len; k-- > 0; ) {
               d[ k ] = char( '0' + v % 10 );
               v /= 10;
            }
            const std::string_view nd = NONDIGIT[ i % NNONDIGIT ];
            const unsigned ctxmask = 1u | ( 1u << ( 1 + i % 3 ) );
            const unsigned modemask = 1u | ( ( ( i + V.seed ) % 4 == 0 ) ? 2u : 0u );
            check( c, d, ctxmask, modemask, true, 0 );
            in.assign( d ).append( nd );
            check( c, in, ctxmask, modemask, true, 2 );
            if( c.signed_syntax ) {
               in.assign( "-" ).append( d );
               check( c, in, ctxmask, modemask, true, 0 );
               in.assign( "+" ).append( d );
               check( c, in, ctxmask, modemask, true, 0 );
               in.assign( ( i & 1 ) ? "-" : "+" ).append( d ).append( nd );
               check( c, in, ctxmask, modemask, true, 2 );
            }
            else {
               in.assign( ( i & 1 ) ? "-" : "+" ).append( d );
               check( c, in, ctxmask, modemask, true, 0 );
            }
         }
      }
   }

   // the minimum of a signed type: one case per ( rule, type ), so that a sanitizer report there is
   // keyed on its own and hides nothing else
   void min_case( const std::string& name, const std::vector< cfg* >& cs, const u128 lo, const bool count_nt )
   {
      static std::deque< std::string > labels;  // keeps the text alive (and in place) for the crash handler
      labels.push_back( name + ":min" );
      const std::string m = "-" + od::to_string( lo );
      if( !begin( labels.back().c_str(), m.data(), m.size(), true ) ) return;
      g_in_min_case = true;
      for( const char* z : { "", "0", "000" } )
         for( const char* tr : { "", "a", " ", ".", "/", ":" } ) {
            const std::string in = "-" + std::string( z ) + od::to_string( lo ) + tr;
            for( cfg* c : cs ) check( *c, in, 0xFu, 3u, count_nt, tr[ 0 ] ? 2 : 0 );
         }
      g_in_min_case = false;
   }

   unsigned sweep_len( const unsigned bytes )
   {
      if( bytes == 1 ) return 4;    // 3 digits wide: always to width + 1
      return V.thorough() ? 6 : 5;  // 5 digits wide: width (quick), width + 1 (thorough)
   }

   void part_typeless()
   {
      const unsigned n = V.thorough() ? 7 : 5;
      const auto mags = magnitudes( tmax< std::uint64_t >(), tmax< std::int64_t >() + 1, 64, 1, true );
      for( cfg* c : { &c_unsigned_rule(), &c_signed_rule(), &c_unsigned_rwa_nothing(), &c_signed_rwa_nothing() } ) {
         sweep( *c, n );
         boundary( *c, mags, false );
         oddities( *c );
      }
   }

   template< typename T >
   void part_signed( const std::uint64_t stream )
   {
      cfg& a = c_signed_action< T >();
      cfg& b = c_signed_action_old< T >();
      cfg& c = c_signed_rwa< T >();
      const bool wide = sizeof( T ) >= 4;
      min_case( std::string( "signed_action<" ) + type_name< T >() + ">", { &a, &b }, a.lo_mag, wide );
      min_case( std::string( "signed_rule_with_action<" ) + type_name< T >() + ">", { &c }, a.lo_mag, wide );
      const auto mags = magnitudes( a.hi, a.lo_mag, 8 * sizeof( T ), stream, false );
      for( cfg* x : { &a, &b, &c } ) {
         if( sizeof( T ) <= 2 ) sweep( *x, sweep_len( sizeof( T ) ) );
         boundary( *x, mags, wide );
         oddities( *x );
      }
   }

   template< typename T >
   void part_unsigned( const std::uint64_t stream )
   {
      cfg& a = c_unsigned_action< T >();
      cfg& b = c_unsigned_action_old< T >();
      cfg& c = c_unsigned_rwa< T >();
      const bool wide = sizeof( T ) >= 4;
      const auto mags = magnitudes( a.hi, 0, 8 * sizeof( T ), stream, false );
      for( cfg* x : { &a, &b, &c } ) {
         if( sizeof( T ) <= 2 ) sweep( *x, sweep_len( sizeof( T ) ) );
         boundary( *x, mags, wide );
         oddities( *x );
      }
   }

   void part_max_generic( const std::vector< cfg* >& swept, const std::vector< cfg* >& all, const u128 max, const u128 type_max, const unsigned bytes, const std::uint64_t stream )
   {
      const bool wide = bytes >= 4;
      if( bytes <= 2 ) {
         // exhaustive up to one (thorough: two) digit(s) beyond the maximum, at most the type's sweep length
         unsigned n = ndigits( max ) + ( V.thorough() ? 2 : 1 );
         if( n > sweep_len( bytes ) || max == type_max ) n = sweep_len( bytes );
         // quick tier, 16-bit: the two rules only (the action and the apply_mode::nothing variant share their code paths and still get the boundary part)
         std::size_t k = 0;
         for( cfg* c : swept )
            if( bytes == 1 || V.thorough() || k++ < 2 ) sweep( *c, n );
      }
      auto mags = magnitudes( max, 0, 8 * bytes, stream * 131 + std::uint64_t( max % 1000003 ), false, 24 );
      {
         // the limits of the underlying type matter as well (the arithmetic is done in T)
         std::set< u128 > s;
         near( s, type_max );
         near( s, type_max / 10 );
         near( s, type_max + 1 + max, 1 );
         std::set< std::string > uni( mags.begin(), mags.end() );
         for( const u128 v : s ) uni.insert( od::to_string( v ) );
         mags.assign( uni.begin(), uni.end() );
      }
      for( cfg* c : all ) boundary( *c, mags, wide );
      for( cfg* c : swept ) oddities( *c );
   }

   template< typename T, T Max >
   void part_max_one( const std::uint64_t stream )
   {
      cfg& mr = c_maximum_rule< T, Max >();
      cfg& mw = c_maximum_rwa< T, Max >();
      cfg& mn = c_maximum_rwa_nothing< T, Max >();
      cfg& ma = c_maximum_action< T, Max >();
      cfg& mo = c_maximum_action_old< T, Max >();
      part_max_generic( { &mr, &mw, &mn, &ma }, { &mr, &mw, &mn, &ma, &mo }, u128( Max ), tmax< T >(), sizeof( T ), stream );
   }

   template< typename T, T... Ms >
   void part_max( const std::uint64_t stream )
   {
      ( part_max_one< T, Ms >( stream ), ... );
   }

   // maximum_rule on a numeral that ends exactly where an exact-size heap block ends: with the hook
   // reporting and nothing defusing the read, so that ASan confirms what the hook says
   void part_exact_buffer_end()
   {
      if( !begin( "maximum_rule:exact-buffer-end", "12", 2, true ) ) return;
      g_force_mode0 = true;
      for( const char* s : { "12", "1", "9" } ) check( c_maximum_rule< std::uint8_t, 255 >(), s, 0xFu, 1u, false, 0 );
      g_force_mode0 = false;
   }
}  // namespace

int main( int argc, char** argv )
{
   verif::init( argc, argv );
   pegtl::internal::verif::hooks.window_violation = &on_window;
   constexpr int part = C15_PART;
   if constexpr( part == 0 || part == 1 ) {
      part_typeless();
      part_signed< std::int8_t >( 11 );
      part_signed< std::int16_t >( 12 );
      part_signed< std::int32_t >( 13 );
      part_signed< std::int64_t >( 14 );
      part_unsigned< std::uint8_t >( 21 );
      part_unsigned< std::uint16_t >( 22 );
      part_unsigned< std::uint32_t >( 23 );
      part_unsigned< std::uint64_t >( 24 );
   }
   if constexpr( part == 0 || part == 2 ) {
      part_exact_buffer_end();
      part_max< std::uint8_t, 0, 1, 2, 9, 10, 11, 19 >( 31 );
   }
   if constexpr( part == 0 || part == 3 ) {
      part_max< std::uint8_t, 20, 25, 26, 99, 100, 101, 127 >( 31 );
   }
   if constexpr( part == 0 || part == 4 ) {
      part_max< std::uint8_t, 128, 199, 200, 249, 250, 254, 255 >( 31 );
   }
   if constexpr( part == 0 || part == 5 ) {
      part_max< std::uint16_t, 0, 1, 9, 10, 11, 99, 100, 101 >( 32 );
   }
   if constexpr( part == 0 || part == 6 ) {
      part_max< std::uint16_t, 255, 256, 999, 1000, 1001, 6553, 6554, 9999 >( 32 );
   }
   if constexpr( part == 0 || part == 7 ) {
      part_max< std::uint16_t, 10000, 10001, 32767, 32768, 65529, 65530, 65534, 65535 >( 32 );
   }
   if constexpr( part == 0 || part == 8 ) {
      part_max< std::uint32_t, 0, 1, 9, 10, 11, 99, 100, 255 >( 33 );
   }
   if constexpr( part == 0 || part == 9 ) {
      part_max< std::uint32_t, 256, 65535, 65536, 99999, 100000, 429496729, 429496730, 999999999 >( 33 );
   }
   if constexpr( part == 0 || part == 10 ) {
      part_max< std::uint32_t, 1000000000, 1000000001, 2147483647, 2147483648u, 4294967289u, 4294967290u, 4294967294u, 4294967295u >( 33 );
   }
   if constexpr( part == 0 || part == 11 ) {
      part_max< std::uint64_t, 0, 1, 9, 10, 11, 99, 100, 255 >( 34 );
   }
   if constexpr( part == 0 || part == 12 ) {
      part_max< std::uint64_t, 65535, 4294967295ull, 4294967296ull, 999999999999999999ull, 1000000000000000000ull, 1844674407370955161ull, 1844674407370955162ull, 9223372036854775807ull >( 34 );
   }
   if constexpr( part == 0 || part == 13 ) {
      part_max< std::uint64_t, 9223372036854775808ull, 9999999999999999999ull, 10000000000000000000ull, 10000000000000000001ull, 18446744073709551609ull, 18446744073709551610ull, 18446744073709551614ull, 18446744073709551615ull >( 34 );
   }
   flush_all_cells();
   V.finish();
   return 0;
}
