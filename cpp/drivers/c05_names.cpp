// C05 (part): the parse_error of a failed must< R > names exactly R — also when R's type name contains characters that
// the name extraction (demangle.hpp parses __PRETTY_FUNCTION__) could trip over — with custom error_message members and
// must_if<> messages taking precedence, position = where the attempt began, what() = source:line:column: message.
// Built with g++ AND clang++ (the name extraction has one code path per compiler). The expected names are written by
// hand and compared after a normalisation that removes what legitimately differs between compilers (spaces outside
// quotes, the inline namespace "ascii::").
#include <tao/pegtl.hpp>

#include "common/verif.hpp"

namespace pegtl = tao::pegtl;
using verif::V;

namespace
{
   std::string normalise( std::string_view s )
   {
      std::string r;
      bool quoted = false;
      for( std::size_t i = 0; i < s.size(); ++i ) {
         const char c = s[ i ];
         if( c == '\\' && quoted && i + 1 < s.size() ) { r += c; r += s[ ++i ]; continue; }
         if( c == '\'' ) quoted = !quoted;
         if( c == ' ' && !quoted ) continue;
         r += c;
      }
      for( std::string::size_type p; ( p = r.find( "ascii::" ) ) != std::string::npos; ) r.erase( p, 7 );
      return r;
   }

   bool balanced( std::string_view s )
   {
      int depth = 0;
      bool quoted = false;
      for( std::size_t i = 0; i < s.size(); ++i ) {
         const char c = s[ i ];
         if( c == '\\' && quoted ) { ++i; continue; }
         if( c == '\'' ) { quoted = !quoted; continue; }
         if( quoted ) continue;
         if( c == '<' ) ++depth;
         if( c == '>' && --depth < 0 ) return false;
      }
      return depth == 0 && !quoted;
   }

}  // namespace
namespace c05n
{
   struct named_custom : tao::pegtl::one< ';' > { static constexpr const char* error_message = "custom; message, with <punctuation>"; };
   struct named_plain : tao::pegtl::seq< tao::pegtl::one< ';' >, tao::pegtl::one< '>' > > {};
}  // namespace c05n
namespace
{
   using c05n::named_custom;
   using c05n::named_plain;

   template< typename > inline constexpr const char* errmsg = nullptr;
   template<> inline constexpr const char* errmsg< pegtl::one< ',' > > = "must_if message for one<','>";
   struct errors { template< typename Rule > static constexpr const char* message = errmsg< Rule >; };
   template< typename Rule > using mi_control = typename pegtl::must_if< errors, pegtl::normal, false >::template control< Rule >;

   std::vector< std::string > g_seen;

   template< typename T, template< typename... > class Control = pegtl::normal >
   void check( const char* label, const std::string& expected_name, const std::string& expected_message_override = "" )
   {
      const std::string prefix = "ab";   // consumed before the must<>: the error position is (byte 2, line 1, column 3)
      const std::string text = prefix + "\x01";
      if( !V.begin_case( "C05", label, text.data(), text.size() ) ) return;
      ++V.evaluations;
      ++V.nontrivial;
      const std::string dm( pegtl::demangle< T >() );
      V.count( std::string( "names:" ) + ( expected_message_override.empty() ? "default-message" : "custom-message" ) );
      if( !balanced( dm ) ) V.violation( "C05", "C05|demangled-rule-name-incomplete", std::string( "demangle< " ) + label + " >() = '" + dm + "' is not a complete type name" );
      if( normalise( dm ) != expected_name ) V.violation( "C05", "C05|demangled-rule-name-wrong", std::string( "demangle< " ) + label + " >() = '" + dm + "', expected (normalised) '" + expected_name + "'" );
      if( expected_message_override.empty() ) {
         for( const auto& o : g_seen )
            if( o == dm ) V.violation( "C05", "C05|distinct-rules-share-a-name", "two different rule types are both named '" + dm + "'" );
         g_seen.push_back( dm );
      }
      verif::guarded_buffer gb( text, 0 );
      for( int lazy = 0; lazy < 2; ++lazy ) {
         std::string msg, what;
         std::size_t b = 0, l = 0, c = 0;
         int st = 0;
         try {
            using G = pegtl::seq< pegtl::string< 'a', 'b' >, pegtl::must< T >, pegtl::any >;
            if( lazy ) {
               pegtl::memory_input< pegtl::tracking_mode::lazy > in( gb.begin(), gb.end(), "src" );
               st = pegtl::parse< G, pegtl::nothing, Control >( in ) ? 1 : 0;
            }
            else {
               pegtl::memory_input<> in( gb.begin(), gb.end(), "src" );
               st = pegtl::parse< G, pegtl::nothing, Control >( in ) ? 1 : 0;
            }
         }
         catch( const pegtl::parse_error& e ) {
            st = 2;
            msg = std::string( e.message() );
            what = e.what();
            b = e.position_object().byte;
            l = e.position_object().line;
            c = e.position_object().column;
         }
         catch( ... ) {
            st = 3;
         }
         const std::string want = expected_message_override.empty() ? "parse error matching " + dm : expected_message_override;
         if( st != 2 ) V.violation( "C05", "C05|must-did-not-raise-parse_error", std::string( "must< " ) + label + " > on a non-matching byte ended with status " + std::to_string( st ) );
         else {
            if( msg != want ) V.violation( "C05", expected_message_override.empty() ? "C05|default-message-does-not-name-the-rule" : "C05|custom-message-not-used", std::string( "message '" ) + msg + "', expected '" + want + "'" );
            if( b != 2 || l != 1 || c != 3 ) V.violation( "C05", "C05|names|error-position", "position " + std::to_string( b ) + ":" + std::to_string( l ) + ":" + std::to_string( c ) + ", expected byte 2 line 1 column 3" );
            if( what != "src:1:3: " + msg ) V.violation( "C05", "C05|names|what-format", "what() = '" + what + "'" );
         }
      }
      V.sample( std::string( "{\"rule\":\"" ) + verif::jesc( label ) + "\",\"demangled\":\"" + verif::jesc( dm ) + "\"}" );
   }
}  // namespace

#define CHECK( EXPECT, ... ) check< __VA_ARGS__ >( #__VA_ARGS__, EXPECT )

int main( int argc, char** argv )
{
   using namespace tao::pegtl;
   verif::init( argc, argv );
   CHECK( "tao::pegtl::one<';'>", one< ';' > );
   CHECK( "tao::pegtl::one<';',','>", one< ';', ',' > );
   CHECK( "tao::pegtl::one<'>'>", one< '>' > );
   CHECK( "tao::pegtl::one<'<'>", one< '<' > );
   CHECK( "tao::pegtl::one<'\\''>", one< '\'' > );
   CHECK( "tao::pegtl::one<' '>", one< ' ' > );
   CHECK( "tao::pegtl::one<')'>", one< ')' > );
   CHECK( "tao::pegtl::one<']'>", one< ']' > );
   CHECK( "tao::pegtl::one<'='>", one< '=' > );
   CHECK( "tao::pegtl::one<'['>", one< '[' > );
   CHECK( "tao::pegtl::one<'('>", one< '(' > );
   CHECK( "tao::pegtl::range<';','>'>", range< ';', '>' > );
   CHECK( "tao::pegtl::string<';','a'>", string< ';', 'a' > );
   CHECK( "tao::pegtl::string<'T',' ','=',' ',';'>", string< 'T', ' ', '=', ' ', ';' > );
   CHECK( "tao::pegtl::seq<tao::pegtl::one<';'>,tao::pegtl::not_one<'>'>>", seq< one< ';' >, not_one< '>' > > );
   CHECK( "tao::pegtl::sor<tao::pegtl::one<'<'>,tao::pegtl::one<'>'>,tao::pegtl::one<';'>>", sor< one< '<' >, one< '>' >, one< ';' > > );
   CHECK( "tao::pegtl::rep<3,tao::pegtl::one<']'>>", rep< 3, one< ']' > > );
   CHECK( "tao::pegtl::at<tao::pegtl::one<';'>>", at< one< ';' > > );
   CHECK( "tao::pegtl::plus<tao::pegtl::one<','>,tao::pegtl::one<';'>>", plus< one< ',' >, one< ';' > > );
   check< named_plain >( "named_plain", "c05n::named_plain" );
   check< named_custom >( "named_custom", "c05n::named_custom", "custom; message, with <punctuation>" );
   check< one< ',' >, mi_control >( "one< ',' > under must_if", "tao::pegtl::one<','>", "must_if message for one<','>" );
   V.finish();
   return 0;
}
