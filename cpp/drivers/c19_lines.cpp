// C19 — error-reporting helpers return the exact source line of any position.
// Monitor: positions are taken from real parsing runs of the real memory_input (bytes<K>, rep<K,any>,
// until<eof>, an eol-aware grammar with actions, caught parse_errors); for each position p the
// harness knows the byte offset k that was consumed and compares at(p), begin_of_line(p),
// end_of_line(p), line_at(p) with the independent line splitter cpp/oracles/lines.hpp.
// Pointers are compared as integers before anything is dereferenced.
//
// Workload: every string of length <= 8 over { LF, CR, 'a', 'b' }, every offset 0..size, the five
// end-of-line policies, eager and lazy tracking, the 3-argument constructor and five settings of the
// 6-argument constructor (byte, line, column), exact-size heap blocks (mode 0) and poisoned "ab"
// tails (mode 1). The quick tier samples the non-default counters / mode 1 / parse_error sources of
// the strings longer than 5 (4 for parse_error) by a hash of (string, policy, seed) and runs rep<K,any>
// for every other K on strings longer than 6; default counters, mode 0 and bytes<K> for every K, until<eof>
// and the eol-aware grammar always run for every string.
#include <tao/pegtl.hpp>
#include <tao/pegtl/contrib/limit_bytes.hpp>

#include <cstdint>
#include <optional>
#include <string>
#include <utility>
#include <vector>

#include "common/verif.hpp"
#include "oracles/lines.hpp"

namespace pegtl = tao::pegtl;
using oracle::eol_policy;
using verif::V;

namespace
{
   // ---------------------------------------------------------------- configuration axes
   struct counters
   {
      bool three_arg;  // use memory_input( begin, end, source )
      std::size_t byte, line, column;
      const char* name;
   };
   const counters CTR[] = {
      { true, 0, 1, 1, "default-3arg" },
      { false, 0, 1, 1, "0-1-1" },
      { false, 100, 1, 1, "100-1-1" },
      { false, 0, 5, 7, "0-5-7" },
      { false, 3, 2, 4, "3-2-4" },
      { false, 1000000, 99, 1, "1000000-99-1" },
   };
   constexpr int NCTR = 6;

   enum source_id { S_BYTES, S_REP_ANY, S_UNTIL_EOF, S_EOL_RULES, S_ACTION, S_ERR_BYTES, S_ERR_EOL, S_ERR_NARROWED, NSRC };
   const char* const SRC[ NSRC ] = { "bytes", "rep_any", "until_eof", "eol_rules", "action", "parse_error_bytes", "parse_error_eol", "parse_error_inside_narrowed_input" };

   enum helper_id { H_AT, H_BOL, H_EOL, H_LINE_AT, H_PARSE, NHELP };
   const char* const HELP[ NHELP ] = { "at", "begin_of_line", "end_of_line", "line_at", "parse" };

   enum shape_id { SH_PLAIN, SH_EMPTY_LINE, SH_LAST_UNTERMINATED, SH_VERY_END, SH_INSIDE_CRLF, SH_AT_TERMINATOR, NSHAPE };
   const char* const SHAPE[ NSHAPE ] = { "plain", "empty-line", "last-line-without-terminator", "position-at-very-end", "inside-crlf", "at-terminator-start" };

   // counters kept in arrays (flushed into V.count at the end: the per-position path is hot)
   long n_src[ NSRC ][ 5 ][ 2 ];
   long n_help[ 4 ][ 5 ];
   long n_ctr[ NCTR ][ 2 ];
   long n_shape[ NSHAPE ][ 5 ];
   long n_mode[ 2 ];
   long n_not_judged[ NCTR ];
   long n_eol_skipped[ NCTR ];
   long n_inherited[ 5 ];
   long n_spans[ 5 ];
   long n_thrown[ 5 ];
   long n_default_judged[ 4 ];
   long n_nondefault_judged[ 4 ];

   std::string crash_labels[ NHELP ][ 5 ][ 2 ];  // "end_of_line<crlf,lazy>" ... (crash key = C19|<label>|<kind>)

   volatile int g_window = 0;  // set by the window hook: a peek/bump reached outside [current,end)

   struct ctx
   {
      const std::string* x = nullptr;
      const char* data = nullptr;
      std::size_t n = 0;
      eol_policy e = eol_policy::lf;
      bool lazy = false;
      int ci = 0;
      int mode = 0;
      bool all_rep_any = true;
      unsigned rep_any_phase = 0;
      const std::vector< oracle::line_span >* lines = nullptr;
   };

   void set_label( helper_id h, const ctx& c )
   {
      V.cur_label = crash_labels[ h ][ int( c.e ) ][ c.lazy ? 1 : 0 ].c_str();
   }

   std::string describe( const ctx& c, std::size_t k, int src, const pegtl::position& p )
   {
      const counters& q = CTR[ c.ci ];
      std::string s = "x='" + verif::show( *c.x ) + "' (size " + std::to_string( c.n ) + ") offset " + std::to_string( k ) + " policy " + oracle::policy_name( c.e ) + ( c.lazy ? " lazy" : " eager" );
      s += std::string( " counters " ) + ( q.three_arg ? "default(3-arg ctor)" : "(" + std::to_string( q.byte ) + "," + std::to_string( q.line ) + "," + std::to_string( q.column ) + ")" );
      s += std::string( " source " ) + SRC[ src ] + " mode " + std::to_string( c.mode );
      s += " position(byte " + std::to_string( p.byte ) + ", line " + std::to_string( p.line ) + ", column " + std::to_string( p.column ) + ")";
      return s;
   }

   std::string replay( const ctx& c, std::size_t k, int src )
   {
      const counters& q = CTR[ c.ci ];
      return "{\"x\":\"" + verif::hex( *c.x ) + "\",\"offset\":" + std::to_string( k ) + ",\"policy\":\"" + oracle::policy_name( c.e ) + "\",\"tracking\":\"" + ( c.lazy ? "lazy" : "eager" )
             + "\",\"ctor\":\"" + ( q.three_arg ? "3-arg" : "6-arg" ) + "\",\"counters\":[" + std::to_string( q.byte ) + "," + std::to_string( q.line ) + "," + std::to_string( q.column ) + "],\"source\":\"" + SRC[ src ] + "\",\"mode\":" + std::to_string( c.mode ) + "}";
   }

   std::string rel( long long off )
   {
      return off >= 0 ? "data+" + std::to_string( off ) : "data-" + std::to_string( 0ull - static_cast< unsigned long long >( off ) );
   }

   // signed distance of a (possibly wild) pointer from the start of the data; modular, cannot overflow
   long long offset_of( std::uintptr_t p, std::uintptr_t lo )
   {
      return static_cast< long long >( p - lo );
   }

   // ---------------------------------------------------------------- the check of one position
   // what the four helpers returned, as integers
   struct answers
   {
      std::uintptr_t at = 0, bol = 0, eol = 0, line_ptr = 0;
      std::size_t line_size = 0;
      bool window = false;
   };

   // A violation key with its counter. wants_text() is true while the text of this violation will still be
   // written (only the first few per key are): building the text (and the key string) is the expensive
   // part, and the findings of the unchanged tree occur millions of times.
   struct vkey
   {
      const std::string key;
      long* slot = nullptr;
      explicit vkey( std::string k ) : key( std::move( k ) ) {}
      bool wants_text()
      {
         if( slot != nullptr && *slot >= long( V.max_per_key ) ) {
            ++*slot;
            return false;
         }
         return true;
      }
      void report( const std::string& what, const std::string& rep )
      {
         V.violation( "C19", key, what, rep );
         slot = &V.violcount[ key ];  // std::map: the address stays valid
      }
   };
   vkey K_AT_BYTE( "C19|at|initial-byte-nonzero" ), K_AT_WRONG( "C19|at|wrong-pointer" ), K_AT_OOB( "C19|at|out-of-bounds-pointer" );
   vkey K_BOL_COLUMN( "C19|begin_of_line|initial-column-nonzero-first-line" ), K_BOL_CRLF( "C19|begin_of_line|crlf|lone-lf-starts-line" ), K_BOL_CR_CRLF( "C19|begin_of_line|cr_crlf|line-after-crlf-starts-at-lf" );
   vkey K_BOL_WRONG( "C19|begin_of_line|wrong-pointer" ), K_BOL_OOB( "C19|begin_of_line|out-of-bounds-pointer" );
   vkey K_EOL_WRONG( "C19|end_of_line|wrong-pointer" ), K_EOL_OOB( "C19|end_of_line|out-of-bounds-pointer" );

   void count_position( const oracle::located& w, const std::size_t k, const int src, const ctx& c )
   {
      const int pe = int( c.e );
      ++V.evaluations;
      ++n_src[ src ][ pe ][ c.lazy ];
      ++n_ctr[ c.ci ][ c.lazy ];
      ++n_mode[ c.mode ];
      bool any_shape = false;
      if( w.inside ) { ++n_shape[ SH_INSIDE_CRLF ][ pe ]; any_shape = true; }
      if( w.line.empty() ) { ++n_shape[ SH_EMPTY_LINE ][ pe ]; any_shape = true; }
      if( w.last && !w.line.empty() ) { ++n_shape[ SH_LAST_UNTERMINATED ][ pe ]; any_shape = true; }
      if( k == c.n ) { ++n_shape[ SH_VERY_END ][ pe ]; any_shape = true; }
      if( !w.inside && w.line.terminated() && k == w.line.end ) { ++n_shape[ SH_AT_TERMINATOR ][ pe ]; any_shape = true; }
      if( !any_shape ) ++n_shape[ SH_PLAIN ][ pe ];
   }

   // at(p) is wrong: report it; the other helpers are all defined through at() and are not judged
   void judge_at_failure( const answers& r, const pegtl::position& p, const std::size_t k, const int src, const ctx& c )
   {
      const counters& q = CTR[ c.ci ];
      const std::uintptr_t lo = reinterpret_cast< std::uintptr_t >( c.data );
      const bool a_in = ( r.at >= lo && r.at <= lo + c.n );
      const long long oa = offset_of( r.at, lo );
      vkey& key = ( q.byte != 0 && oa == static_cast< long long >( q.byte + k ) ) ? K_AT_BYTE : ( a_in ? K_AT_WRONG : K_AT_OOB );
      if( key.wants_text() ) {
         key.report( describe( c, k, src, p ) + ": at(p) = " + rel( oa ) + ( a_in ? "" : " (outside the input data)" ) + ", expected data+" + std::to_string( k ) + "; begin_of_line(p) = " + rel( offset_of( r.bol, lo ) )
                        + ( a_in ? "" : "; end_of_line/line_at not called (they would scan from at(p))" ),
                     replay( c, k, src ) );
      }
      ++n_not_judged[ c.ci ];
      if( !a_in ) ++n_eol_skipped[ c.ci ];
   }

   void judge( const answers& r, const oracle::located& w, const pegtl::position& p, const std::size_t k, const int src, const ctx& c )
   {
      const counters& q = CTR[ c.ci ];
      const int pe = int( c.e );
      const std::string& x = *c.x;
      const std::uintptr_t lo = reinterpret_cast< std::uintptr_t >( c.data );
      const std::uintptr_t hi = lo + c.n;
      long* const judged = ( c.ci == 0 ) ? n_default_judged : n_nondefault_judged;
      for( int hh = 0; hh < 4; ++hh ) {
         ++n_help[ hh ][ pe ];
         ++judged[ hh ];
      }
      if( r.window ) {
         V.violation( "C19", "C19|end_of_line|window-overrun", describe( c, k, src, p ) + ": a helper peeked or bumped outside [current,end) of its scanning input", replay( c, k, src ) );
      }
      const long long ob = offset_of( r.bol, lo );
      const long long oe = offset_of( r.eol, lo );
      const long long olb = offset_of( r.line_ptr, lo );

      // ---- begin_of_line
      bool b_bad = false;
      if( !oracle::accepted_begin( w, k, c.e, ob ) ) {
         b_bad = true;
         const bool b_in = ( r.bol >= lo && r.bol <= hi );
         vkey* key;
         if( q.column != 1 && w.line.begin == 0 && ob == -static_cast< long long >( q.column - 1 ) ) {
            key = &K_BOL_COLUMN;  // the initial column is subtracted although the data starts at begin()
         }
         else if( c.e == eol_policy::crlf && ob > static_cast< long long >( w.line.begin ) && ob <= static_cast< long long >( k ) && x[ std::size_t( ob ) - 1 ] == '\n' && x.find( '\n', std::size_t( ob ) ) >= k ) {
            key = &K_BOL_CRLF;  // begins after the last LF before k, although that LF is no line ending under crlf
         }
         else if( !w.inside && c.e == eol_policy::cr_crlf && w.line.begin >= 2 && ob == static_cast< long long >( w.line.begin ) - 1 && x[ w.line.begin - 1 ] == '\n' && x[ w.line.begin - 2 ] == '\r' ) {
            key = &K_BOL_CR_CRLF;  // the LF of the CRLF that ended the previous line is counted as the first column
         }
         else {
            key = b_in ? &K_BOL_WRONG : &K_BOL_OOB;
         }
         if( key->wants_text() ) {
            key->report( describe( c, k, src, p ) + ": begin_of_line(p) = " + rel( ob ) + ( b_in ? "" : " (outside the input data)" ) + ", expected data+" + std::to_string( w.line.begin ) + ( w.inside ? " or the following line's begin" : "" )
                            + "; line_at(p) = [" + rel( olb ) + ", +" + std::to_string( r.line_size ) + ")",
                         replay( c, k, src ) );
         }
      }

      // ---- end_of_line
      bool e_bad = false;
      if( !oracle::accepted_end( w, k, c.e, oe ) ) {
         e_bad = true;
         const bool e_in = ( r.eol >= lo && r.eol <= hi );
         vkey& key = e_in ? K_EOL_WRONG : K_EOL_OOB;
         if( key.wants_text() ) {
            key.report( describe( c, k, src, p ) + ": end_of_line(p) = " + rel( oe ) + ( e_in ? "" : " (outside the input data)" ) + ", expected data+" + std::to_string( w.line.end ) + ( w.inside ? " or the following line's end" : "" ),
                        replay( c, k, src ) );
         }
      }

      // ---- line_at
      const std::size_t lsz = r.line_size;
      const bool l_in = ( r.line_ptr >= lo && r.line_ptr <= hi && lsz <= std::size_t( hi - r.line_ptr ) );
      bool l_ok;
      if( !l_in ) {
         l_ok = false;
      }
      else if( !w.inside ) {
         l_ok = ( std::size_t( olb ) == w.line.begin && lsz == w.line.end - w.line.begin );
      }
      else {
         l_ok = oracle::accepted_begin( w, k, c.e, olb ) && oracle::accepted_end( w, k, c.e, olb + static_cast< long long >( lsz ) );
         if( l_ok && std::size_t( olb ) == w.line.begin && std::size_t( olb ) + lsz == w.following.end ) ++n_spans[ pe ];  // begin of one neighbour, end of the other
      }
      const bool composed = ( r.line_ptr == r.bol && lsz == std::size_t( r.eol - r.bol ) );  // modular, as in line_at itself
      if( l_ok ) {
         // bounds are right and inside the data: now (and only now) read the bytes through the returned pointer
         const std::string_view got( reinterpret_cast< const char* >( r.line_ptr ), lsz );
         const std::string_view want = std::string_view( x ).substr( std::size_t( olb ), lsz );
         if( got != want ) V.violation( "C19", "C19|line_at|wrong-line-content", describe( c, k, src, p ) + ": line_at(p) has the right bounds but reads '" + verif::show( got ) + "', the input there is '" + verif::show( want ) + "'", replay( c, k, src ) );
      }
      else if( composed && ( b_bad || e_bad ) ) {
         ++n_inherited[ pe ];  // exactly { begin_of_line, end_of_line - begin_of_line } of an answer already reported under its own key
      }
      else {
         std::string cls = "out-of-bounds-pointer";
         std::string got = "[" + rel( olb ) + ", +" + std::to_string( lsz ) + ")";
         if( l_in ) {
            const std::string_view have( reinterpret_cast< const char* >( r.line_ptr ), lsz );
            const std::string_view want = std::string_view( x ).substr( w.line.begin, w.line.end - w.line.begin );
            cls = ( w.inside || have != want ) ? "wrong-line-content" : "wrong-pointer";
            got += " = '" + verif::show( have ) + "'";
         }
         V.violation( "C19", "C19|line_at|" + cls,
                      describe( c, k, src, p ) + ": line_at(p) = " + got + ", expected [data+" + std::to_string( w.line.begin ) + ", +" + std::to_string( w.line.end - w.line.begin ) + ")"
                         + ( composed ? "" : " (and it is not { begin_of_line, end_of_line - begin_of_line })" ),
                      replay( c, k, src ) );
      }
   }

   // Runs the helpers of the real input. Nothing is dereferenced by the harness here, and end_of_line /
   // line_at (which scan from at(p)) are only called when at(p) lies inside the data.
   template< typename In >
   void check_position( const In& in, const pegtl::position& p, const std::size_t k, const int src, const ctx& c )
   {
      const std::uintptr_t lo = reinterpret_cast< std::uintptr_t >( c.data );
      const oracle::located w = oracle::locate( *c.lines, k );
      count_position( w, k, src, c );
      answers r;
      g_window = 0;
      set_label( H_AT, c );
      r.at = reinterpret_cast< std::uintptr_t >( in.at( p ) );
      set_label( H_BOL, c );
      r.bol = reinterpret_cast< std::uintptr_t >( in.begin_of_line( p ) );  // pointer arithmetic only
      if( r.at != lo + k ) {
         set_label( H_PARSE, c );
         judge_at_failure( r, p, k, src, c );
         return;
      }
      set_label( H_EOL, c );
      r.eol = reinterpret_cast< std::uintptr_t >( in.end_of_line( p ) );
      set_label( H_LINE_AT, c );
      const std::string_view lv = in.line_at( p );  // { b, e - b }: constructing it reads nothing
      r.line_ptr = reinterpret_cast< std::uintptr_t >( lv.data() );
      r.line_size = lv.size();
      r.window = ( g_window != 0 );
      set_label( H_PARSE, c );
      judge( r, w, p, k, src, c );
   }

   // ---------------------------------------------------------------- grammars that produce the positions
   struct tok_eol : pegtl::eol {};
   struct tok_any : pegtl::any {};
   struct eol_grammar : pegtl::seq< pegtl::star< pegtl::sor< tok_eol, tok_any > >, pegtl::eof > {};

   struct token_record
   {
      pegtl::position pos;
      std::uintptr_t begin;
      std::size_t size;
      bool is_eol;
   };
   struct collector { std::vector< token_record > recs; };

   template< typename Rule > struct rec_action : pegtl::nothing< Rule > {};
   template<> struct rec_action< tok_eol >
   {
      template< typename ActionInput >
      static void apply( const ActionInput& in, collector& col ) { col.recs.push_back( { in.position(), reinterpret_cast< std::uintptr_t >( in.begin() ), in.size(), true } ); }
   };
   template<> struct rec_action< tok_any >
   {
      template< typename ActionInput >
      static void apply( const ActionInput& in, collector& col ) { col.recs.push_back( { in.position(), reinterpret_cast< std::uintptr_t >( in.begin() ), in.size(), false } ); }
   };

   // parse_error sources: consume up to a run-time target, then must<> fails there
   struct target { const char* stop; };
   struct reached
   {
      using rule_t = reached;
      using subs_t = pegtl::empty_list;
      template< pegtl::apply_mode, pegtl::rewind_mode, template< typename... > class, template< typename... > class, typename ParseInput >
      [[nodiscard]] static bool match( ParseInput& in, const target& t ) noexcept { return in.current() == t.stop; }
   };
   struct bang : pegtl::one< '!' > {};  // never matches: the alphabet is { LF, CR, a, b }
   struct err_bytes_grammar : pegtl::seq< pegtl::until< reached, pegtl::any >, pegtl::must< bang > > {};
   struct err_eol_grammar : pegtl::seq< pegtl::until< reached, pegtl::sor< pegtl::eol, pegtl::any > >, pegtl::must< bang > > {};

   // a parse_error that leaves rules which narrow the input while they run (limit_bytes shortens the end, rematch works on a
   // sub-input): the helpers are then asked about positions of the SAME input object after the exception was caught
   struct narrowed_tail : pegtl::seq< pegtl::opt< pegtl::any >, pegtl::must< bang > > {};
   struct narrowed_head : pegtl::rematch< pegtl::until< reached, pegtl::any >, pegtl::star< pegtl::any > > {};
   struct err_narrowed_grammar : pegtl::seq< narrowed_head, narrowed_tail > {};
   template< typename Rule > struct narrow_action : pegtl::nothing< Rule > {};
   template<> struct narrow_action< narrowed_tail > : pegtl::limit_bytes< 2 > {};

   template< typename In, unsigned K > bool run_bytes( In& in ) { return pegtl::parse< pegtl::bytes< K > >( in ); }
   template< typename In, unsigned K > bool run_rep_any( In& in ) { return pegtl::parse< pegtl::rep< K, pegtl::any > >( in ); }

   template< typename In > using run_fn = bool ( * )( In& );
   template< typename In, unsigned... Ks > run_fn< In > pick_bytes( unsigned k, std::integer_sequence< unsigned, Ks... > /*unused*/ )
   {
      static const run_fn< In > tab[] = { &run_bytes< In, Ks >... };
      return tab[ k ];
   }
   template< typename In, unsigned... Ks > run_fn< In > pick_rep_any( unsigned k, std::integer_sequence< unsigned, Ks... > /*unused*/ )
   {
      static const run_fn< In > tab[] = { &run_rep_any< In, Ks >... };
      return tab[ k ];
   }
   using k_seq = std::make_integer_sequence< unsigned, 9 >;

   template< typename In, typename F >
   void with_input( const verif::guarded_buffer& gb, const counters& q, F&& f )
   {
      std::optional< In > in;  // emplace: the input classes can be neither copied nor moved
      if( q.three_arg ) {
         in.emplace( gb.begin(), gb.end(), "c19" );
      }
      else {
         in.emplace( gb.begin(), gb.end(), "c19", q.byte, q.line, q.column );
      }
      f( *in );
   }

   // the run that should produce a position did not behave as the harness expects (not a helper failure, but
   // nothing can be judged without the position): code = short class for the key
   void source_failed( const ctx& c, std::size_t k, int src, const char* code, const char* what )
   {
      V.violation( "C19", std::string( "C19|source|" ) + SRC[ src ] + "|" + code,
                   "x='" + verif::show( *c.x ) + "' offset " + std::to_string( k ) + " policy " + oracle::policy_name( c.e ) + ( c.lazy ? " lazy" : " eager" ) + " counters " + CTR[ c.ci ].name + ": " + what,
                   replay( c, k, src ) );
   }

   template< typename In >
   void run_config( const ctx& c, const verif::guarded_buffer& gb, const bool with_errors )
   {
      const counters& q = CTR[ c.ci ];
      const std::size_t n = c.n;
      set_label( H_PARSE, c );

      // S1/S2: bytes<K> (one bump of K) and rep<K,any> (K bumps of 1), then in.position()
      for( std::size_t k = 0; k <= n; ++k ) {
         with_input< In >( gb, q, [ & ]( In& in ) {
            if( !pick_bytes< In >( unsigned( k ), k_seq() )( in ) ) return source_failed( c, k, S_BYTES, "rule-failed", "bytes<K> failed with K <= size" );
            check_position( in, in.position(), k, S_BYTES, c );
         } );
         if( !c.all_rep_any && ( ( k + c.rep_any_phase ) & 1 ) != 0 ) continue;  // quick tier, long strings: every other K
         with_input< In >( gb, q, [ & ]( In& in ) {
            if( !pick_rep_any< In >( unsigned( k ), k_seq() )( in ) ) return source_failed( c, k, S_REP_ANY, "rule-failed", "rep<K,any> failed with K <= size" );
            check_position( in, in.position(), k, S_REP_ANY, c );
         } );
      }
      // S3: until<eof> (bump() per byte), position at the very end
      with_input< In >( gb, q, [ & ]( In& in ) {
         if( !pegtl::parse< pegtl::until< pegtl::eof > >( in ) ) return source_failed( c, n, S_UNTIL_EOF, "rule-failed", "until<eof> failed" );
         check_position( in, in.position(), n, S_UNTIL_EOF, c );
      } );
      // S4/S5: the eol-aware grammar; every token start is captured inside an action, the end by in.position()
      const std::vector< std::size_t > toks = oracle::token_starts( *c.x, c.e );
      with_input< In >( gb, q, [ & ]( In& in ) {
         collector col;
         col.recs.reserve( n );
         if( !pegtl::parse< eol_grammar, rec_action >( in, col ) ) return source_failed( c, n, S_EOL_RULES, "rule-failed", "seq<star<sor<eol,any>>,eof> failed" );
         if( col.recs.size() + 1 != toks.size() ) return source_failed( c, n, S_ACTION, "token-count-mismatch", "the number of eol/any tokens seen by the actions differs from the oracle's tokenisation under this policy" );
         const std::uintptr_t lo = reinterpret_cast< std::uintptr_t >( c.data );
         for( std::size_t i = 0; i < col.recs.size(); ++i ) {
            const token_record& r = col.recs[ i ];
            if( r.begin != lo + toks[ i ] || r.size != toks[ i + 1 ] - toks[ i ] || r.is_eol != ( oracle::terminator_at( *c.x, toks[ i ], c.e ) != 0 ) ) {
               source_failed( c, toks[ i ], S_ACTION, "token-mismatch", "an eol/any token seen by an action differs (start, size or kind) from the oracle's tokenisation under this policy" );
               return;
            }
            check_position( in, r.pos, toks[ i ], S_ACTION, c );
         }
         check_position( in, in.position(), n, S_EOL_RULES, c );
      } );
      // S6/S7: positions carried by parse_errors
      if( with_errors ) {
         for( std::size_t k = 0; k <= n; ++k ) {
            with_input< In >( gb, q, [ & ]( In& in ) {
               const target t{ c.data + k };
               try {
                  const bool r = pegtl::parse< err_bytes_grammar >( in, t );
                  source_failed( c, k, S_ERR_BYTES, "no-parse_error", r ? "must<> did not throw (parse returned true)" : "must<> did not throw (parse returned false)" );
               }
               catch( const pegtl::parse_error& e ) {
                  ++n_thrown[ int( c.e ) ];
                  check_position( in, e.position_object(), k, S_ERR_BYTES, c );
               }
            } );
         }
         for( std::size_t k = 0; k <= n; ++k ) {
            with_input< In >( gb, q, [ & ]( In& in ) {
               const target t{ c.data + k };
               try {
                  const bool r = pegtl::parse< err_narrowed_grammar, narrow_action >( in, t );
                  source_failed( c, k, S_ERR_NARROWED, "no-parse_error", r ? "must<> did not throw (parse returned true)" : "must<> did not throw (parse returned false)" );
               }
               catch( const pegtl::parse_error& e ) {
                  ++n_thrown[ int( c.e ) ];
                  // the error sits behind the optional byte; every position of the input is then looked up on the same object
                  check_position( in, e.position_object(), std::min( k + 1, n ), S_ERR_NARROWED, c );
                  if( in.end() != c.data + n ) source_failed( c, k, S_ERR_NARROWED, "input-end-moved", "after the parse_error was caught the input's end is not where it was" );
               }
            } );
         }
         for( std::size_t i = 0; i < toks.size(); ++i ) {
            const std::size_t k = toks[ i ];
            with_input< In >( gb, q, [ & ]( In& in ) {
               const target t{ c.data + k };
               try {
                  const bool r = pegtl::parse< err_eol_grammar >( in, t );
                  source_failed( c, k, S_ERR_EOL, "no-parse_error", r ? "must<> did not throw (parse returned true)" : "must<> did not throw (parse returned false)" );
               }
               catch( const pegtl::parse_error& e ) {
                  ++n_thrown[ int( c.e ) ];
                  check_position( in, e.position_object(), k, S_ERR_EOL, c );
               }
            } );
         }
      }
   }

   template< eol_policy E > struct pol;
   template<> struct pol< eol_policy::lf > { using type = pegtl::eol::lf; };
   template<> struct pol< eol_policy::cr > { using type = pegtl::eol::cr; };
   template<> struct pol< eol_policy::crlf > { using type = pegtl::eol::crlf; };
   template<> struct pol< eol_policy::lf_crlf > { using type = pegtl::eol::lf_crlf; };
   template<> struct pol< eol_policy::cr_crlf > { using type = pegtl::eol::cr_crlf; };

   std::uint64_t mix( const std::string& x, std::uint64_t salt )
   {
      std::uint64_t h = 1469598103934665603ull ^ ( salt * 0x9E3779B97F4A7C15ull );
      for( unsigned char ch : x ) { h ^= ch; h *= 1099511628211ull; }
      h ^= x.size() * 0xD6E8FEB86659FD93ull;
      h ^= h >> 29;
      h *= 0xBF58476D1CE4E5B9ull;
      return h ^ ( h >> 32 );
   }

   // all configurations of one string under one policy
   template< eol_policy E >
   void run_string( const std::string& x )
   {
      using eager_t = pegtl::memory_input< pegtl::tracking_mode::eager, typename pol< E >::type, std::string >;
      using lazy_t = pegtl::memory_input< pegtl::tracking_mode::lazy, typename pol< E >::type, std::string >;
      const std::vector< oracle::line_span > lines = oracle::split_lines( x, E );
      const std::uint64_t h = mix( x, V.seed * 5 + std::uint64_t( E ) );
      const bool full = V.thorough();
      const std::size_t n = x.size();

      bool use_ctr[ NCTR ] = { true, false, false, false, false, false };
      if( full || n <= 5 ) {
         for( int i = 1; i < NCTR; ++i ) use_ctr[ i ] = true;
      }
      else {
         const int a = int( h % 5 );
         const int b = ( a + 1 + int( ( h / 5 ) % 4 ) ) % 5;
         use_ctr[ 1 + a ] = use_ctr[ 1 + b ] = true;
      }
      const bool mode1 = full || n <= 5 || ( ( h >> 8 ) % 4 ) == 0;
      const bool errors = full || n <= 4 || ( ( h >> 12 ) % 8 ) == 0;
      bool has_term = false;
      for( char ch : x ) has_term = has_term || ch == '\n' || ch == '\r';

      for( int mode = 0; mode < ( mode1 ? 2 : 1 ); ++mode ) {
         const verif::guarded_buffer gb( x, mode, "ab" );
         V.cur_data = gb.begin();
         V.cur_len = n;
         for( int ci = 0; ci < NCTR; ++ci ) {
            if( !use_ctr[ ci ] ) continue;
            ctx c;
            c.x = &x;
            c.data = gb.begin();
            c.n = n;
            c.e = E;
            c.ci = ci;
            c.mode = mode;
            c.lines = &lines;
            c.all_rep_any = full || n <= 6;
            c.rep_any_phase = unsigned( ( h >> 20 ) + unsigned( ci ) + unsigned( mode ) );
            char extra[ 96 ];
            std::snprintf( extra, sizeof extra, "policy %s counters %s mode %d", oracle::policy_name( E ), CTR[ ci ].name, mode );
            V.set_extra( extra );
            c.lazy = false;
            run_config< eager_t >( c, gb, errors );
            c.lazy = true;
            run_config< lazy_t >( c, gb, errors );
            // distinct (x, offset, policy, counters) tuples, counted once (mode 0 always runs): non-trivial when x
            // contains a CR or LF byte (every offset) or the offset is the very end
            if( mode == 0 ) V.nontrivial += has_term ? long( n + 1 ) : 1;
         }
      }
      V.cur_data = nullptr;
      V.cur_len = 0;
   }

   const char ALPHA[ 4 ] = { '\n', '\r', 'a', 'b' };

   std::string nth_string( std::size_t len, std::uint64_t idx )
   {
      std::string s( len, 'a' );
      for( std::size_t i = len; i-- > 0; ) {
         s[ i ] = ALPHA[ idx & 3 ];
         idx >>= 2;
      }
      return s;
   }

   template< eol_policy E >
   void run_block( std::size_t len, std::uint64_t first, std::uint64_t count )
   {
      if( !V.begin_case( "C19", crash_labels[ H_PARSE ][ int( E ) ][ 0 ].c_str() ) ) return;
      for( std::uint64_t i = first; i < first + count; ++i ) run_string< E >( nth_string( len, i ) );
   }

   void flush_cells()
   {
      const char* trk[ 2 ] = { "eager", "lazy" };
      for( int s = 0; s < NSRC; ++s )
         for( int p = 0; p < 5; ++p )
            for( int t = 0; t < 2; ++t )
               if( n_src[ s ][ p ][ t ] ) V.count( std::string( "src:" ) + SRC[ s ] + ":" + oracle::policy_name( eol_policy( p ) ) + ":" + trk[ t ], n_src[ s ][ p ][ t ] );
      for( int hh = 0; hh < 4; ++hh ) {
         for( int p = 0; p < 5; ++p )
            if( n_help[ hh ][ p ] ) V.count( std::string( "judged:" ) + HELP[ hh ] + ":" + oracle::policy_name( eol_policy( p ) ), n_help[ hh ][ p ] );
         if( n_default_judged[ hh ] ) V.count( std::string( "judged:" ) + HELP[ hh ] + ":counters-default", n_default_judged[ hh ] );
         if( n_nondefault_judged[ hh ] ) V.count( std::string( "judged:" ) + HELP[ hh ] + ":counters-6arg", n_nondefault_judged[ hh ] );
      }
      for( int ci = 0; ci < NCTR; ++ci ) {
         for( int t = 0; t < 2; ++t )
            if( n_ctr[ ci ][ t ] ) V.count( std::string( "counters:" ) + CTR[ ci ].name + ":" + trk[ t ], n_ctr[ ci ][ t ] );
         if( n_not_judged[ ci ] ) V.count( std::string( "not-judged:begin/end/line_at-after-at-failure:" ) + CTR[ ci ].name, n_not_judged[ ci ] );
         if( n_eol_skipped[ ci ] ) V.count( std::string( "not-called:end_of_line/line_at-because-at-is-outside-the-data:" ) + CTR[ ci ].name, n_eol_skipped[ ci ] );
      }
      for( int s = 0; s < NSHAPE; ++s )
         for( int p = 0; p < 5; ++p )
            if( n_shape[ s ][ p ] ) V.count( std::string( "shape:" ) + SHAPE[ s ] + ":" + oracle::policy_name( eol_policy( p ) ), n_shape[ s ][ p ] );
      for( int m = 0; m < 2; ++m )
         if( n_mode[ m ] ) V.count( m ? "buffer:mode1-poisoned-ab-tail" : "buffer:mode0-exact-size", n_mode[ m ] );
      for( int p = 0; p < 5; ++p ) {
         if( n_inherited[ p ] ) V.count( std::string( "line_at:inherits-a-reported-begin/end_of_line-answer:" ) + oracle::policy_name( eol_policy( p ) ), n_inherited[ p ] );
         if( n_spans[ p ] ) V.count( std::string( "inside-crlf:line_at-begins-in-the-line-before-and-ends-in-the-line-after:" ) + oracle::policy_name( eol_policy( p ) ), n_spans[ p ] );
         if( n_thrown[ p ] ) V.count( std::string( "parse_error:caught:" ) + oracle::policy_name( eol_policy( p ) ), n_thrown[ p ] );
      }
   }
}  // namespace

int main( int argc, char** argv )
{
   verif::init( argc, argv );
   for( int hh = 0; hh < NHELP; ++hh )
      for( int p = 0; p < 5; ++p )
         for( int t = 0; t < 2; ++t ) crash_labels[ hh ][ p ][ t ] = std::string( HELP[ hh ] ) + "<" + oracle::policy_name( eol_policy( p ) ) + ( t ? ",lazy>" : ",eager>" );
   tao::pegtl::internal::verif::hooks.window_violation = +[]( int /*op*/, const void* /*in*/, std::size_t /*request*/, std::size_t /*available*/ ) { g_window = 1; };

   // blocks of 64 strings (fewer for the short lengths), one case per (block, policy)
   for( std::size_t len = 0; len <= 8; ++len ) {
      const std::uint64_t total = std::uint64_t( 1 ) << ( 2 * len );
      const std::uint64_t step = total < 64 ? total : 64;
      for( std::uint64_t first = 0; first < total; first += step ) {
         run_block< eol_policy::lf >( len, first, step );
         run_block< eol_policy::cr >( len, first, step );
         run_block< eol_policy::crlf >( len, first, step );
         run_block< eol_policy::lf_crlf >( len, first, step );
         run_block< eol_policy::cr_crlf >( len, first, step );
      }
   }
   if( V.shard == 0 ) {
   V.sample( "{\"workload\":\"every string of length 0..8 over {LF,CR,a,b}; every offset 0..size; policies lf,cr,crlf,lf_crlf,cr_crlf; eager+lazy; 3-arg ctor and 6-arg ctor with (0,1,1),(100,1,1),(0,5,7),(3,2,4),(1000000,99,1); sources bytes<K>, rep<K,any>, until<eof>, star<sor<eol,any>> with actions, parse_error from must<> after until<reached,any> / until<reached,sor<eol,any>>\"}" );
   V.sample( "{\"x\":\"a\\r\\nb\",\"policy\":\"lf_crlf\",\"offset\":3,\"expect\":{\"at\":3,\"begin_of_line\":3,\"end_of_line\":4,\"line_at\":\"b\"}}" );
   V.sample( "{\"x\":\"a\\r\\nb\",\"policy\":\"lf_crlf\",\"offset\":2,\"inside_crlf\":true,\"accepted_begin\":[0,3],\"accepted_end\":[1,2,4]}" );
   V.sample( "{\"x\":\"a\\nb\",\"policy\":\"crlf\",\"offset\":3,\"expect\":{\"at\":3,\"begin_of_line\":0,\"end_of_line\":3,\"line_at\":\"a\\nb\"}}" );
   }
   flush_cells();
   V.finish();
   return 0;
}
