// C20 — the URI grammar accepts exactly RFC 3986 URI references.
// Monitor: parse< seq< uri::X, eof > > of the real grammar (X = URI, URI_reference, absolute_URI,
// IPv4address, IPv6address) runs beside the language-exact recogniser cpp/oracles/uri_rfc3986.hpp.
//
// Every (rule, input) pair is executed twice:
//   run A  guarded_buffer mode 1: the bytes behind the logical end are poisoned and hold "0123456789",
//          i.e. bytes that extend a dec-octet / port if anything looks at them.  The window hook
//          records a read or bump behind the end ("reads-past-end") and unpoisons the tail so that
//          the sweep survives the fault it has just recorded.
//   run B  if A stayed inside its window: guarded_buffer mode 0, the exact-size heap block with the
//          ASan red zone directly behind it (catches raw pointer reads that bypass peek_char); B must
//          give the same result as A ("result-depends-on-bytes-behind-end" otherwise).
//          if A left its window: mode 1 again with a tail of NUL bytes (bytes that extend nothing),
//          to obtain the verdict the grammar gives apart from the over-read, so that the language
//          comparison stays meaningful for those inputs.
// The verdict of run B (true = accept; false or tao::pegtl::parse_error = reject; any other exception =
// violation) is compared with the oracle.
#include <tao/pegtl.hpp>
#include <tao/pegtl/contrib/uri.hpp>

#include <arpa/inet.h>

#include <string>
#include <string_view>
#include <vector>

#include "common/verif.hpp"
#include "oracles/uri_rfc3986.hpp"

namespace pegtl = tao::pegtl;
using verif::V;
using oracle::uri_kind;
using oracle::uri_matcher;

namespace
{
   // ------------------------------------------------------------------ rules under test
   enum : int { R_URI, R_REF, R_ABS, R_V4, R_V6, NR };
   const char* const RN[ NR ] = { "URI", "URI_reference", "absolute_URI", "IPv4address", "IPv6address" };
   const uri_kind RK[ NR ] = { uri_kind::URI, uri_kind::URI_reference, uri_kind::absolute_URI, uri_kind::IPv4address, uri_kind::IPv6address };

   enum : int { G_EXH, G_FIXED, G_RFC, G_MUT, G_IPFAM, G_HOSTFAM, NG };
   const char* const GN[ NG ] = { "exh", "fixed", "rfc", "mut", "ipfam", "hostfam" };

   enum : int { H_NONE, H_EMPTY, H_REGNAME, H_IPV4, H_IPV4ISH, H_IPV6, H_IPVFUTURE, H_BADBRACKET, H_OTHER, NH };
   const char* const HN[ NH ] = { "nohost", "emptyhost", "regname", "ipv4", "ipv4-prefix-regname", "ipv6", "ipvfuture", "bad-bracket", "bad-host" };

   // 1 accept, 0 local failure, 2 global failure (parse_error), 3 any other exception
   template< typename Rule >
   int run_one( const char* b, const char* e )
   {
      pegtl::memory_input<> in( b, e, "c20" );
      try {
         return pegtl::parse< pegtl::seq< Rule, pegtl::eof > >( in ) ? 1 : 0;
      }
      catch( const pegtl::parse_error& ) {
         return 2;
      }
      catch( ... ) {
         return 3;
      }
   }

   // the same rule started the way a look-ahead or a disabled section runs it: apply_mode::nothing (the grammar has no actions,
   // the language must not depend on the mode), rewind_mode::required, lazy tracking
   template< typename Rule >
   int run_one_disabled( const char* b, const char* e )
   {
      pegtl::memory_input< pegtl::tracking_mode::lazy > in( b, e, "c20" );
      try {
         return pegtl::parse< pegtl::seq< Rule, pegtl::eof >, pegtl::nothing, pegtl::normal, pegtl::apply_mode::nothing, pegtl::rewind_mode::required >( in ) ? 1 : 0;
      }
      catch( const pegtl::parse_error& ) {
         return 2;
      }
      catch( ... ) {
         return 3;
      }
   }

   int run_rule_disabled( const int r, const char* b, const char* e )
   {
      switch( r ) {
         case R_URI: return run_one_disabled< pegtl::uri::URI >( b, e );
         case R_REF: return run_one_disabled< pegtl::uri::URI_reference >( b, e );
         case R_ABS: return run_one_disabled< pegtl::uri::absolute_URI >( b, e );
         case R_V4: return run_one_disabled< pegtl::uri::IPv4address >( b, e );
         default: return run_one_disabled< pegtl::uri::IPv6address >( b, e );
      }
   }

   int run_rule( const int r, const char* b, const char* e )
   {
      switch( r ) {
         case R_URI: return run_one< pegtl::uri::URI >( b, e );
         case R_REF: return run_one< pegtl::uri::URI_reference >( b, e );
         case R_ABS: return run_one< pegtl::uri::absolute_URI >( b, e );
         case R_V4: return run_one< pegtl::uri::IPv4address >( b, e );
         default: return run_one< pegtl::uri::IPv6address >( b, e );
      }
   }

   // ------------------------------------------------------------------ window hook
   struct hook_state
   {
      long fired = 0;
      int op = 0;
      std::size_t request = 0, available = 0;
      char* tail = nullptr;  // poisoned region behind the logical end of the buffer in use (mode 1), or null
      std::size_t tail_len = 0;
      bool open = false;  // tail currently unpoisoned by the hook
   } H;

   void on_window_violation( int op, const void* /*input*/, std::size_t request, std::size_t available )
   {
      if( H.fired++ == 0 ) {
         H.op = op;
         H.request = request;
         H.available = available;
      }
      if( H.tail && !H.open ) {
         // the fault is recorded; let the access go through so that the sweep continues
         VERIF_UNPOISON( H.tail, H.tail_len );
         H.open = true;
      }
   }

   // one reusable buffer per input length and flavour (contents are overwritten in place)
   struct buffers
   {
      verif::guarded_buffer digits[ 64 ], nul[ 64 ], exact[ 64 ];
      bool made[ 64 ] = {};
      void need( std::size_t n )
      {
         if( made[ n ] ) return;
         const std::string blank( n, 'x' );
         digits[ n ].reset( blank, 1, "0123456789" );
         nul[ n ].reset( blank, 1, std::string_view( "\0", 1 ) );
         exact[ n ].reset( blank, 0 );
         made[ n ] = true;
      }
   } B;

   std::size_t tail_bytes( const verif::guarded_buffer& gb ) { return ( ( ( gb.size + gb.tail + 7 ) & ~std::size_t( 7 ) ) + 8 ) - gb.size; }

   int run_in( verif::guarded_buffer& gb, const bool has_tail, const int r, const char* p, const std::size_t n )
   {
      if( n ) std::memcpy( gb.base, p, n );
      H.fired = 0;
      H.open = false;
      H.tail = has_tail ? gb.base + gb.size : nullptr;
      H.tail_len = has_tail ? tail_bytes( gb ) : 0;
      const int res = run_rule( r, gb.begin(), gb.end() );
      if( H.open ) {
         VERIF_POISON( H.tail, H.tail_len );
         H.open = false;
      }
      H.tail = nullptr;
      return res;
   }

   // ------------------------------------------------------------------ textual split (independent of both implementations)
   bool t_alpha( unsigned char c ) { return ( c >= 'a' && c <= 'z' ) || ( c >= 'A' && c <= 'Z' ); }
   bool t_digit( unsigned char c ) { return c >= '0' && c <= '9' ; }

   struct split_t
   {
      bool has_auth = false, has_userinfo = false, has_port = false, has_path = false;
      std::size_t a0 = 0, a1 = 0, h0 = 0, h1 = 0;
      std::size_t colon = std::string_view::npos;  // first ':' standing before any of "/?#"
   };

   split_t split( std::string_view s )
   {
      split_t t;
      const std::size_t n = s.size();
      const std::size_t stop = std::min( s.find_first_of( "/?#" ), n );
      const std::size_t c = s.find( ':' );
      if( c != std::string_view::npos && c < stop ) t.colon = c;
      std::size_t a0 = std::string_view::npos;
      if( s.substr( 0, 2 ) == "//" ) a0 = 2;
      else if( t.colon != std::string_view::npos && s.substr( t.colon + 1, 2 ) == "//" ) a0 = t.colon + 3;
      if( a0 == std::string_view::npos ) {
         t.has_path = n > 0;
         return t;
      }
      t.has_auth = true;
      t.a0 = a0;
      t.a1 = std::min( s.find_first_of( "/?#", a0 ), n );
      const std::size_t at = s.substr( 0, t.a1 ).rfind( '@' );
      t.h0 = a0;
      if( at != std::string_view::npos && at >= a0 ) {
         t.has_userinfo = true;
         t.h0 = at + 1;
      }
      if( t.h0 < t.a1 && s[ t.h0 ] == '[' ) {
         const std::size_t close = s.substr( 0, t.a1 ).find( ']', t.h0 );
         t.h1 = ( close == std::string_view::npos ) ? t.a1 : close + 1;
      }
      else {
         const std::size_t pc = s.substr( 0, t.a1 ).find( ':', t.h0 );
         t.h1 = ( pc == std::string_view::npos ) ? t.a1 : pc;
      }
      t.has_port = t.h1 < t.a1 && s[ t.h1 ] == ':';
      t.has_path = t.a1 < n && s[ t.a1 ] == '/';
      return t;
   }

   int host_kind( std::string_view s, const split_t& t, const uri_matcher& m )
   {
      if( !t.has_auth ) return H_NONE;
      if( t.h0 == t.h1 ) return H_EMPTY;
      if( s[ t.h0 ] == '[' ) {
         if( !m.derives( uri_kind::IP_literal, t.h0, t.h1 ) ) return H_BADBRACKET;
         return ( s[ t.h0 + 1 ] == 'v' || s[ t.h0 + 1 ] == 'V' ) ? H_IPVFUTURE : H_IPV6;
      }
      const std::uint64_t v4 = m.ends_from( uri_kind::IPv4address, t.h0 );
      if( ( v4 >> t.h1 ) & 1 ) return H_IPV4;
      if( m.derives( uri_kind::reg_name, t.h0, t.h1 ) ) {
         // a proper prefix of the host is an IPv4address, the whole host is a reg-name but no IPv4address
         return ( v4 & ( ( std::uint64_t( 1 ) << t.h1 ) - 1 ) ) ? H_IPV4ISH : H_REGNAME;
      }
      return H_OTHER;
   }

   // coarse feature class of a disagreement: the fallback when no single grammar rule can be blamed (see localise)
   const char* feature_class( const int r, std::string_view s, const split_t& t, const int hk, const bool false_reject, const uri_matcher& m )
   {
      if( r == R_V4 ) return "ipv4";
      if( r == R_V6 ) return "ipv6";
      (void)false_reject;
      if( hk == H_IPVFUTURE ) return "ipvfuture";
      if( t.has_auth && t.h0 + 1 < t.h1 && s[ t.h0 ] == '[' && ( s[ t.h0 + 1 ] == 'v' || s[ t.h0 + 1 ] == 'V' ) ) return "ipvfuture";
      if( hk == H_IPV6 || hk == H_BADBRACKET || s.find( '[' ) != std::string_view::npos || s.find( ']' ) != std::string_view::npos ) return "ipv6";
      if( s.find( '%' ) != std::string_view::npos ) return "pct-encoding";
      if( t.has_userinfo ) return "userinfo";
      if( t.has_port ) return "port";
      if( hk == H_IPV4 ) return "ipv4";
      if( t.colon != std::string_view::npos && t.colon > 0 ) {
         // something scheme-like in front: malformed, or using more than letters
         bool plain = true;
         for( std::size_t i = 0; i < t.colon; ++i ) plain = plain && t_alpha( static_cast< unsigned char >( s[ i ] ) );
         if( !plain || !m.derives( uri_kind::scheme, 0, t.colon ) ) return "scheme";
      }
      if( s.find( '?' ) == std::string_view::npos && s.find( '#' ) == std::string_view::npos && t.has_path ) return "path";
      if( hk == H_REGNAME || hk == H_IPV4ISH || hk == H_OTHER ) return "reg-name";
      return "other";
   }

   // ------------------------------------------------------------------ cells
   long cells[ NR ][ 2 ][ NG ][ NH ];
   long parse_error_rejects[ NR ], overreads[ NR ], exact_runs[ NR ], disabled_runs[ NR ];
   long selfcheck_pton = 0, selfcheck_deriv = 0, too_long = 0;
   std::size_t samples_per_gen[ NG ];

   unsigned oracle_mask( const uri_matcher& m )
   {
      unsigned k = 0;
      for( int r = 0; r < NR; ++r )
         if( m.accepts( RK[ r ] ) ) k |= 1u << r;
      return k;
   }
   unsigned oracle_mask( const char* p, std::size_t n )
   {
      const uri_matcher m( reinterpret_cast< const unsigned char* >( p ), n );
      return oracle_mask( m );
   }

   // rules for which some string one byte-deletion away from [p,p+n) is accepted
   unsigned deletion_neighbour_mask( const char* p, const std::size_t n )
   {
      char tmp[ 64 ];
      unsigned k = 0;
      for( std::size_t d = 0; d < n && k != 31u; ++d ) {
         if( d + 1 < n && p[ d ] == p[ d + 1 ] ) continue;  // same string as deleting the next byte
         if( d ) std::memcpy( tmp, p, d );
         if( n - d - 1 ) std::memcpy( tmp + d, p + d + 1, n - d - 1 );
         k |= oracle_mask( tmp, n - 1 );
      }
      return k;
   }

   std::string replay_json( const int r, std::string_view s )
   {
      return std::string( "{\"rule\":\"" ) + RN[ r ] + "\",\"input_hex\":\"" + verif::hex( s ) + "\",\"input\":\"" + verif::jesc( s ) + "\"}";
   }

   // IPv6 shape of a string the oracle accepts as IPv6address: which of the nine alternatives, how many
   // groups before "::", 16-bit or dotted tail.  Purely textual.
   std::string v6_shape( std::string_view s )
   {
      const auto groups = []( std::string_view x ) -> int {
         if( x.empty() ) return 0;
         int g = 1;
         for( char c : x ) g += ( c == ':' );
         return g;
      };
      const bool v4 = s.find( '.' ) != std::string_view::npos;
      const std::size_t dc = s.find( "::" );
      if( dc == std::string_view::npos ) return std::string( "v6|alt1|L-|" ) + ( v4 ? "v4" : "hex" );
      const int left = groups( s.substr( 0, dc ) );
      const int right = groups( s.substr( dc + 2 ) );
      int alt;
      if( v4 ) alt = 7 - ( right - 1 );
      else alt = ( right == 0 ) ? 9 : ( right == 1 ) ? 8 : 9 - right;
      return "v6|alt" + std::to_string( alt ) + "|L" + std::to_string( left ) + "|" + ( v4 ? "v4" : "hex" );
   }

   // cross-check of the oracle against an unrelated implementation (glibc inet_pton: RFC 4291 text
   // forms with 1-4 hex digits per group, one "::", dotted-quad tail without leading zeros)
   void selfcheck_inet_pton( const char* p, const std::size_t n, const unsigned exp )
   {
      char z[ 65 ];
      if( n > 63 || std::memchr( p, 0, n ) ) return;
      if( n ) std::memcpy( z, p, n );
      z[ n ] = 0;
      unsigned char out[ 16 ];
      const bool g6 = inet_pton( AF_INET6, z, out ) == 1;
      const bool g4 = inet_pton( AF_INET, z, out ) == 1;
      ++selfcheck_pton;
      if( g6 != bool( ( exp >> R_V6 ) & 1 ) ) V.violation( "C20", "C20|oracle-selfcheck|inet_pton-AF_INET6-disagrees", "oracle and inet_pton disagree on the IPv6 literal '" + verif::show( std::string_view( p, n ) ) + "': oracle " + std::to_string( ( exp >> R_V6 ) & 1 ) + " inet_pton " + std::to_string( int( g6 ) ) );
      if( g4 != bool( ( exp >> R_V4 ) & 1 ) ) V.violation( "C20", "C20|oracle-selfcheck|inet_pton-AF_INET-disagrees", "oracle and inet_pton disagree on the IPv4 literal '" + verif::show( std::string_view( p, n ) ) + "': oracle " + std::to_string( ( exp >> R_V4 ) & 1 ) + " inet_pton " + std::to_string( int( g4 ) ) );
   }

   // A valid URI whose host is a reg-name starting with an IPv4address was rejected.  Is the IPv4-looking
   // prefix the reason?  Differential run: overwrite the first byte of the host with 'x' (still a reg-name,
   // the oracle must still derive the input) and parse again; if that is accepted the prefix was the cause.
   bool ipv4_prefix_is_the_cause( const int r, const char* p, const std::size_t n, const std::size_t h0 )
   {
      char tmp[ 64 ];
      std::memcpy( tmp, p, n );
      tmp[ h0 ] = 'x';
      if( !oracle::uri_match( RK[ r ], reinterpret_cast< const unsigned char* >( tmp ), n ) ) return false;
      const int got = run_in( B.nul[ n ], true, r, tmp, n );
      V.evaluations += 1;
      return got == 1;
   }

   // ------------------------------------------------------------------ localisation of a disagreement
   // When a top-level verdict differs, the sub-rules of the real grammar are run on the textual components
   // of the input and compared with the same nonterminal of the oracle on the same slice.  The first
   // sub-rule that disagrees in isolation names the class of the violation ("rule:h16", "rule:port", ...),
   // so that one defect in one rule gives one class whatever the surrounding URI looks like.
   struct subrule
   {
      const char* name;
      uri_kind kind;
      int ( *run )( const char*, const char* );
   };
#define C20_SUB( R ) { "rule:" #R, uri_kind::R, &run_one< pegtl::uri::R > }
   const subrule S_unreserved = C20_SUB( unreserved ), S_sub_delims = C20_SUB( sub_delims ), S_pct_encoded = C20_SUB( pct_encoded ), S_scheme = C20_SUB( scheme ),
                 S_userinfo = C20_SUB( userinfo ), S_port = C20_SUB( port ), S_IPvFuture = C20_SUB( IPvFuture ), S_IPv6address = C20_SUB( IPv6address ), S_IP_literal = C20_SUB( IP_literal ),
                 S_IPv4address = C20_SUB( IPv4address ), S_reg_name = C20_SUB( reg_name ), S_host = C20_SUB( host ), S_authority = C20_SUB( authority ), S_dec_octet = C20_SUB( dec_octet ),
                 S_h16 = C20_SUB( h16 ), S_ls32 = C20_SUB( ls32 ), S_path_abempty = C20_SUB( path_abempty ), S_path_absolute = C20_SUB( path_absolute ), S_path_noscheme = C20_SUB( path_noscheme ),
                 S_path_rootless = C20_SUB( path_rootless ), S_query = C20_SUB( query ), S_fragment = C20_SUB( fragment ), S_hier_part = C20_SUB( hier_part ), S_relative_part = C20_SUB( relative_part );
#undef C20_SUB

   // does the real sub-rule (followed by eof) disagree with the oracle on input[ i, j ) ?
   bool sub_disagrees( const subrule& sr, const char* p, const std::size_t i, const std::size_t j, const uri_matcher& m )
   {
      if( i > j ) return false;
      const std::size_t n = j - i;
      B.need( n );
      verif::guarded_buffer& gb = B.nul[ n ];
      if( n ) std::memcpy( gb.base, p + i, n );
      H.fired = 0;
      H.open = false;
      H.tail = gb.base + gb.size;
      H.tail_len = tail_bytes( gb );
      const int got = sr.run( gb.begin(), gb.end() );
      if( H.open ) VERIF_POISON( H.tail, H.tail_len );
      H.open = false;
      H.tail = nullptr;
      ++V.evaluations;
      return ( got == 1 ) != m.derives( sr.kind, i, j );
   }

   const char* localise_v4( const char* p, std::size_t i, const std::size_t j, const uri_matcher& m )
   {
      for( std::size_t a = i; a <= j; ) {  // dot-separated pieces
         std::size_t b = a;
         while( b < j && p[ b ] != '.' ) ++b;
         if( sub_disagrees( S_dec_octet, p, a, b, m ) ) return S_dec_octet.name;
         a = b + 1;
      }
      return sub_disagrees( S_IPv4address, p, i, j, m ) ? S_IPv4address.name : nullptr;
   }

   const char* localise_v6( const char* p, const std::size_t i, const std::size_t j, const uri_matcher& m )
   {
      for( std::size_t a = i; a <= j; ) {  // colon-separated pieces
         std::size_t b = a;
         while( b < j && p[ b ] != ':' ) ++b;
         if( b > a ) {
            if( std::memchr( p + a, '.', b - a ) ) {
               if( const char* c = localise_v4( p, a, b, m ) ) return c;
            }
            else if( sub_disagrees( S_h16, p, a, b, m ) ) return S_h16.name;
         }
         a = b + 1;
      }
      return sub_disagrees( S_IPv6address, p, i, j, m ) ? S_IPv6address.name : nullptr;
   }

   const char* localise( const int r, std::string_view s, const split_t& t, const int hk, const uri_matcher& m )
   {
      const char* p = s.data();
      const std::size_t n = s.size();
      if( r == R_V4 ) return localise_v4( p, 0, n, m );
      if( r == R_V6 ) return localise_v6( p, 0, n, m );
      // single characters and percent triplets
      bool seen[ 256 ] = {};
      for( std::size_t i = 0; i < n; ++i ) {
         const unsigned char c = static_cast< unsigned char >( p[ i ] );
         if( !seen[ c ] ) {
            seen[ c ] = true;
            if( sub_disagrees( S_unreserved, p, i, i + 1, m ) ) return S_unreserved.name;
            if( sub_disagrees( S_sub_delims, p, i, i + 1, m ) ) return S_sub_delims.name;
         }
         if( c == '%' )
            for( std::size_t l = 1; l <= 3 && i + l <= n; ++l )
               if( sub_disagrees( S_pct_encoded, p, i, i + l, m ) ) return S_pct_encoded.name;
      }
      // components
      const std::size_t npos = std::string_view::npos;
      if( t.colon != npos && sub_disagrees( S_scheme, p, 0, t.colon, m ) ) return S_scheme.name;
      const std::size_t qh = std::min( s.find_first_of( "?#" ), n );
      if( qh < n ) {
         const std::size_t hash = std::min( s.find( '#' ), n );
         if( p[ qh ] == '?' && sub_disagrees( S_query, p, qh + 1, hash, m ) ) return S_query.name;
         if( hash < n && sub_disagrees( S_fragment, p, hash + 1, n, m ) ) return S_fragment.name;
      }
      if( t.has_auth ) {
         if( t.has_userinfo && sub_disagrees( S_userinfo, p, t.a0, t.h0 - 1, m ) ) return S_userinfo.name;
         if( t.has_port && sub_disagrees( S_port, p, t.h1 + 1, t.a1, m ) ) return S_port.name;
         if( t.h0 < t.h1 && p[ t.h0 ] == '[' ) {
            if( t.h1 - t.h0 >= 2 && p[ t.h1 - 1 ] == ']' ) {
               if( p[ t.h0 + 1 ] == 'v' || p[ t.h0 + 1 ] == 'V' ) {
                  if( sub_disagrees( S_IPvFuture, p, t.h0 + 1, t.h1 - 1, m ) ) return S_IPvFuture.name;
               }
               else if( const char* c = localise_v6( p, t.h0 + 1, t.h1 - 1, m ) ) return c;
            }
            if( sub_disagrees( S_IP_literal, p, t.h0, t.h1, m ) ) return S_IP_literal.name;
         }
         else {
            if( const char* c = localise_v4( p, t.h0, t.h1, m ) ) return c;
            if( sub_disagrees( S_reg_name, p, t.h0, t.h1, m ) ) return S_reg_name.name;
         }
         // (a reg-name that starts with an IPv4address is row 15 and has been dealt with by the caller)
         if( hk != H_IPV4ISH && sub_disagrees( S_host, p, t.h0, t.h1, m ) ) return S_host.name;
      }
      const std::size_t path0 = t.has_auth ? t.a1 : ( t.colon != npos ? t.colon + 1 : 0 );
      if( path0 <= qh ) {
         for( const subrule* sr : { &S_path_abempty, &S_path_absolute, &S_path_noscheme, &S_path_rootless } )
            if( sub_disagrees( *sr, p, path0, qh, m ) ) return sr->name;
      }
      if( hk != H_IPV4ISH ) {
         if( t.has_auth && sub_disagrees( S_authority, p, t.a0, t.a1, m ) ) return S_authority.name;
         const std::size_t part0 = ( t.colon != npos ) ? t.colon + 1 : 0;
         if( part0 <= qh ) {
            if( sub_disagrees( S_hier_part, p, part0, qh, m ) ) return S_hier_part.name;
            if( sub_disagrees( S_relative_part, p, part0, qh, m ) ) return S_relative_part.name;
         }
      }
      return nullptr;
   }

   enum : unsigned { NT_ACCEPTED_ONLY = 0, NT_DELETION = 1, NT_PARENT = 2 };

   // Monitor one input against all five rules.  Returns the oracle's accept mask.
   unsigned check_input( const char* p, const std::size_t n, const int gen, const unsigned nt_rule, const unsigned parent_mask, const bool pton )
   {
      const std::string_view s( p, n );
      V.cur_data = p;
      V.cur_len = n;
      const uri_matcher m( reinterpret_cast< const unsigned char* >( p ), n );
      const unsigned exp = oracle_mask( m );
      const bool slashes = n >= 2 && s.find( "//" ) != std::string_view::npos;
      split_t sp;
      int hk = H_NONE;
      bool have_split = false;
      if( slashes ) {
         sp = split( s );
         hk = host_kind( s, sp, m );
         have_split = true;
      }
      B.need( n );
      for( int r = 0; r < NR; ++r ) {
         V.cur_label = RN[ r ];
         const bool want = ( exp >> r ) & 1;
         const int a = run_in( B.digits[ n ], true, r, p, n );
         int got;
         if( H.fired ) {
            ++overreads[ r ];
            const long fired = H.fired;
            const int op = H.op;
            const std::size_t rq = H.request, av = H.available;
            got = run_in( B.nul[ n ], true, r, p, n );
            static const char* const opn[] = { "peek_char", "bump", "bump_in_this_line", "bump_to_next_line" };
            V.violation( "C20", std::string( "C20|" ) + RN[ r ] + "|reads-past-end",
                         std::string( RN[ r ] ) + " on '" + verif::show( s ) + "' (" + std::to_string( n ) + " bytes): " + opn[ op & 3 ] + "(" + std::to_string( rq ) + ") with " + std::to_string( av ) + " bytes left in the input, " + std::to_string( fired ) + " accesses behind the end; with digits behind the end the result is " + std::to_string( a ) + ", with NUL bytes " + std::to_string( got ) + ", RFC 3986 says " + ( want ? "accept" : "reject" ) + " (results: 1 accept, 0 failure, 2 parse_error)",
                         replay_json( r, s ) );
         }
         else {
            got = run_in( B.exact[ n ], false, r, p, n );
            ++exact_runs[ r ];
            if( got != a ) V.violation( "C20", std::string( "C20|" ) + RN[ r ] + "|result-depends-on-bytes-behind-end", std::string( RN[ r ] ) + " on '" + verif::show( s ) + "': result " + std::to_string( a ) + " with digits behind the end, " + std::to_string( got ) + " on the exact-size block, window hook silent", replay_json( r, s ) );
         }
         V.evaluations += 2;
         if( !H.fired ) {
            // third run: actions disabled from the top, lazy tracking; accept / reject must be the same
            const int dis = run_rule_disabled( r, B.exact[ n ].begin(), B.exact[ n ].end() );
            ++V.evaluations;
            ++disabled_runs[ r ];
            if( ( dis == 1 ) != ( got == 1 ) || dis == 3 ) V.violation( "C20", std::string( "C20|" ) + RN[ r ] + "|result-depends-on-apply-mode", std::string( RN[ r ] ) + " on '" + verif::show( s ) + "': result " + std::to_string( got ) + " with the default parse(), " + std::to_string( dis ) + " with apply_mode::nothing, rewind_mode::required and lazy tracking; RFC 3986 " + ( want ? "derives it" : "does not derive it" ), replay_json( r, s ) );
         }
         if( got == 2 ) ++parse_error_rejects[ r ];
         if( got == 3 ) {
            V.violation( "C20", std::string( "C20|" ) + RN[ r ] + "|foreign-exception", std::string( RN[ r ] ) + " on '" + verif::show( s ) + "' threw something that is not a tao::pegtl::parse_error", replay_json( r, s ) );
         }
         else if( ( got == 1 ) != want ) {
            if( !have_split ) {
               sp = split( s );
               hk = host_kind( s, sp, m );
               have_split = true;
            }
            // class of the disagreement: row 15 (decided by a differential run), else the sub-rule that disagrees in isolation, else a coarse feature of the input
            std::string fc;
            if( hk == H_IPV4ISH && want && r <= R_ABS && ipv4_prefix_is_the_cause( r, p, n, sp.h0 ) ) fc = "ipv4-prefix-regname";
            else if( const char* c = localise( r, s, sp, hk, m ) ) fc = c;
            else fc = std::string( "shape:" ) + feature_class( r, s, sp, hk == H_IPV4ISH ? H_REGNAME : hk, want, m );
            V.violation( "C20", std::string( "C20|" ) + RN[ r ] + ( want ? "|false-reject|" : "|false-accept|" ) + fc,
                         std::string( RN[ r ] ) + " on '" + verif::show( s ) + "': PEGTL " + ( got == 1 ? "accepts" : got == 2 ? "rejects (parse_error)" : "rejects" ) + ", RFC 3986 " + ( want ? "derives it" : "does not derive it" ) + " [host kind " + HN[ hk ] + ", generator " + GN[ gen ] + "]",
                         replay_json( r, s ) );
         }
         ++cells[ r ][ want ? 0 : 1 ][ gen ][ ( r == R_V4 || r == R_V6 ) ? H_NONE : hk ];
      }
      V.cur_label = "oracle";
      if( ( exp >> R_V6 ) & 1 ) V.count( v6_shape( s ) );
      if( pton ) selfcheck_inet_pton( p, n, exp );
      // distinct non-trivial (rule, input) pairs, see the rule in tools/specs/C20.py
      unsigned nt = exp;
      if( nt_rule == NT_PARENT ) nt |= parent_mask;
      else if( nt_rule == NT_DELETION && n >= 2 && nt != 31u ) nt |= deletion_neighbour_mask( p, n );
      V.nontrivial += __builtin_popcount( nt & 31u );
      if( samples_per_gen[ gen ] < 2 && n >= 3 && ( exp || gen == G_MUT ) ) {
         ++samples_per_gen[ gen ];
         std::string acc;
         for( int r = 0; r < NR; ++r )
            if( ( exp >> r ) & 1 ) acc += std::string( acc.empty() ? "" : "," ) + "\"" + RN[ r ] + "\"";
         V.sample( "{\"generator\":\"" + std::string( GN[ gen ] ) + "\",\"input\":\"" + verif::jesc( s ) + "\",\"rfc3986_accepts_as\":[" + acc + "]}" );
      }
      return exp;
   }

   void flush_cells()
   {
      for( int r = 0; r < NR; ++r ) {
         for( int a = 0; a < 2; ++a )
            for( int g = 0; g < NG; ++g )
               for( int h = 0; h < NH; ++h )
                  if( cells[ r ][ a ][ g ][ h ] ) V.count( std::string( RN[ r ] ) + ( a ? "|rej|" : "|acc|" ) + GN[ g ] + "|" + ( ( r == R_V4 || r == R_V6 ) ? "-" : HN[ h ] ), cells[ r ][ a ][ g ][ h ] );
         if( parse_error_rejects[ r ] ) V.count( std::string( "reject-by-parse_error|" ) + RN[ r ], parse_error_rejects[ r ] );
         if( overreads[ r ] ) V.count( std::string( "left-window|" ) + RN[ r ], overreads[ r ] );
         if( exact_runs[ r ] ) V.count( std::string( "exact-size-runs|" ) + RN[ r ], exact_runs[ r ] );
         if( disabled_runs[ r ] ) V.count( std::string( "runs-with-apply_mode-nothing-and-lazy-tracking|" ) + RN[ r ], disabled_runs[ r ] );
      }
      if( selfcheck_pton ) V.count( "selfcheck|inet_pton", selfcheck_pton );
      if( selfcheck_deriv ) V.count( "selfcheck|rfc-derivation", selfcheck_deriv );
      if( too_long ) V.count( "skipped-longer-than-63", too_long );
   }

   // ------------------------------------------------------------------ part 1: all short strings over the URI alphabet
   // every string up to length L over the full alphabet, and every string of length L + 1 over its core
   const char FULL[] = "a1F:/?#[]@.%-~! ";
   const char CORE[] = "a1:/?#[]@.%";
   constexpr int NFULL = 16, NCORE = 11;
   int exh_maxlen() { return V.thorough() ? 6 : 5; }

   bool in_exhaustive_space( std::string_view s )
   {
      const int L = exh_maxlen();
      if( int( s.size() ) > L + 1 ) return false;
      const bool core_only = int( s.size() ) == L + 1;
      for( char c : s )
         if( !std::memchr( core_only ? CORE : FULL, c, core_only ? NCORE : NFULL ) ) return false;
      return true;
   }

   void sweep( const char* alphabet, const int na, const int minlen, const int maxlen )
   {
      char buf[ 16 ];
      for( int len = minlen; len <= maxlen; ++len ) {
         const int var = len < 3 ? len : 3;  // the last `var` symbols vary inside a block (one case)
         long blocks = 1, inner = 1;
         for( int i = 0; i < len - var; ++i ) blocks *= na;
         for( int i = 0; i < var; ++i ) inner *= na;
         for( long blk = 0; blk < blocks; ++blk ) {
            if( !V.begin_case( "C20", "exhaustive" ) ) continue;
            long c = blk;
            for( int i = len - var - 1; i >= 0; --i ) {
               buf[ i ] = alphabet[ c % na ];
               c /= na;
            }
            for( long k = 0; k < inner; ++k ) {
               long d = k;
               for( int i = len - 1; i >= len - var; --i ) {
                  buf[ i ] = alphabet[ d % na ];
                  d /= na;
               }
               check_input( buf, std::size_t( len ), G_EXH, NT_DELETION, 0, true );
            }
         }
      }
   }

   void part_exhaustive()
   {
      const int L = exh_maxlen();
      sweep( FULL, NFULL, 0, L );
      sweep( CORE, NCORE, L + 1, L + 1 );
   }

   // ------------------------------------------------------------------ grouped cases for the generated inputs
   const char* kind_name( const uri_kind k )
   {
      switch( k ) {
         case uri_kind::URI: return "URI";
         case uri_kind::relative_ref: return "relative-ref";
         case uri_kind::absolute_URI: return "absolute-URI";
         case uri_kind::URI_reference: return "URI-reference";
         case uri_kind::IPv6address: return "IPv6address";
         case uri_kind::IPv4address: return "IPv4address";
         default: return "nonterminal";
      }
   }

   // the random deriver below and the oracle are two independent readings of the ABNF: whatever one derives the other must accept
   void expect_derivable( const std::string& s, const uri_kind k )
   {
      ++selfcheck_deriv;
      if( !oracle::uri_match( k, reinterpret_cast< const unsigned char* >( s.data() ), s.size() ) )
         V.violation( "C20", std::string( "C20|oracle-selfcheck|rejects-derivation-of-" ) + kind_name( k ), std::string( "the generator derived '" ) + verif::show( s ) + "' from " + kind_name( k ) + " but the oracle does not accept it" );
   }

   struct item { std::string text; int gen; unsigned nt_rule; bool pton; int derived_from = -1; };  // derived_from: uri_kind the generator derived the text from, or -1

   // One case = one seed string with its variants.  The distinct() filter runs in every shard (before
   // begin_case) so that all shards number the cases identically.
   void run_group( std::vector< item >& g, const unsigned parent_mask = 0 )
   {
      std::vector< item > todo;
      for( auto& it : g ) {
         if( it.text.size() > uri_matcher::max_len ) {
            if( V.shard == 0 && V.resume_after < 0 ) ++too_long;
            continue;
         }
         if( in_exhaustive_space( it.text ) ) continue;
         if( !V.distinct( it.text ) ) continue;
         todo.push_back( std::move( it ) );
      }
      g.clear();
      if( todo.empty() ) return;
      if( !V.begin_case( "C20", "generated", todo[ 0 ].text.data(), todo[ 0 ].text.size() ) ) return;
      for( const item& it : todo ) {
         check_input( it.text.data(), it.text.size(), it.gen, it.nt_rule, parent_mask, it.pton );
         if( it.derived_from >= 0 ) expect_derivable( it.text, uri_kind( it.derived_from ) );
      }
   }

   // ------------------------------------------------------------------ single-edit mutation
   const char MUT_BYTES[] = "a1F:/?#[]@.%-~! gGzZ0259vV_+$&'()*,;=\"<>\\^`{|}\x7f\x80\xff\t\n";

   std::string mutate( const std::string& s, verif::rng& r )
   {
      std::string t = s;
      const unsigned char c = static_cast< unsigned char >( MUT_BYTES[ r.below( sizeof MUT_BYTES - 1 ) ] );
      const int kind = int( r.below( 3 ) );
      if( t.empty() || kind == 0 ) {
         t.insert( t.begin() + long( r.below( t.size() + 1 ) ), char( c ) );
      }
      else if( kind == 1 ) {
         t.erase( t.begin() + long( r.below( t.size() ) ) );
      }
      else {
         const std::size_t i = r.below( t.size() );
         t[ i ] = ( t[ i ] == char( c ) ) ? '#' : char( c );
      }
      return t;
   }

   // ------------------------------------------------------------------ part 2: hand-written corpus
   void part_fixed()
   {
      static const char* const corpus[] = {
         // src/test/pegtl/contrib_uri.cpp
         "http://de.wikipedia.org/wiki/Uniform_Resource_Identifier", "ftp://ftp.is.co.za/rfc/rfc1808.txt",
         "file:///C:/Users/Benutzer/Desktop/Uniform%20Resource%20Identifier.html", "file:///etc/fstab", "geo:48.33,14.122;u=22.5",
         "ldap://[2001:db8::7]/c=GB?objectClass?one", "gopher://gopher.floodgap.com", "mailto:John.Doe@example.com", "sip:911@pbx.mycompany.com",
         "news:comp.infosystems.www.servers.unix", "data:text/plain;charset=iso-8859-7,%be%fa%be", "tel:+1-816-555-1212", "telnet://192.0.2.16:80/",
         "urn:oasis:names:specification:docbook:dtd:xml:4.1.2", "git://github.com/rails/rails.git", "crid://broadcaster.com/movies/BestActionMovieEver",
         "quake://480fps.com:26000/", "ftp://300.300.300.300/foo", "",
         // RFC 3986 sections 1.1.2, 3, 5.4 and 6.2
         "ftp://ftp.is.co.za/rfc/rfc1808.txt", "http://www.ietf.org/rfc/rfc2396.txt", "ldap://[2001:db8::7]/c=GB?objectClass?one", "news:comp.infosystems.www.servers.unix",
         "tel:+1-816-555-1212", "telnet://192.0.2.16:80/", "urn:oasis:names:specification:docbook:dtd:xml:4.1.2", "foo://example.com:8042/over/there?name=ferret#nose",
         "urn:example:animal:ferret:nose", "http://a/b/c/d;p?q", "g:h", "g", "./g", "g/", "/g", "//g", "?y", "g?y", "#s", "g#s", "g?y#s", ";x", "g;x", "g;x?y#s", "", ".", "./", "..", "../", "../g",
         "../..", "../../", "../../g", "../../../g", "/./g", "/../g", "g.", ".g", "g..", "..g", "./../g", "./g/.", "g/./h", "g/../h", "g;x=1/./y", "g;x=1/../y", "g?y/./x", "g#s/./x", "http:g",
         "example://a/b/c/%7Bfoo%7D", "eXAMPLE://a/./b/../b/%63/%7bfoo%7d", "http://example.com", "http://example.com/", "http://example.com:/", "http://example.com:80/", "HTTP://www.EXAMPLE.com/",
         "ftp://cnn.example.com&story=breaking_news@10.0.0.1/top_story.htm", "mailto:fred@example.com", "foo://info.example.com?fred",
         // row 15 of DESIGN.md section 6 and relatives
         "http://1.2.3.4abc/", "http://1.2.3.4.5/x", "http://1.2.3/", "http://256.1.1.1/", "http://1.2.3.04/", "http://1.2.3.4/", "http://1.2.3.4", "//1.2.3.4abc", "x://u@1.2.3.4.5", "http://1.2.3.4abc:80/x",
         "http://1.2.3.4%41/", "http://1.2.3.4-/", "http://1.2.3.256/", "http://1.2.3.45/", "http://01.2.3.4/", "http://1.2.3.4./", "http://1.2.3.4~:8/",
         // brackets, IPvFuture, pct, odd but valid
         "http://[::]/", "http://[::1]:80/x", "//[v1.a]", "x://u@[vF.a:b]", "http://[v1.]/", "http://[v.a]/", "http://[V1F.!$&'()*+,;=:~]/", "http://[::1", "http://::1]/", "http://[::1]x/", "http://[1.2.3.4]/",
         "http://[::1.2.3.4]/", "http://[::ffff:255.255.255.255]:65535/", "a:", "a:/", "a://", "a:///", "a:?", "a:#", "a:?#", "a:b@c", "a://@", "a://@:", "a://:@:", "a://:", "a://:0", "a://:a", "a://b:1a",
         "a://%41%5a%7e", "a://%4", "a://%", "a://%zz", "a:%41", "%41", "%4", "a%3Ab", "a:b:c", "./a:b", "a/b:c", "a@b:c", "1a:b", "+a:b", "a+-.1:b", "a_b:c", "a~b:c", "a b", "a:b c", "a://b c", "a://b/c d", "a://b?c d", "a://b#c d",
         "a://b#c#d", "a://b?c?d#e?f", "a://b//c", "a:////", "//", "///", "////", "/", "//a@b@c", "//a:b@c:1", "//a::@c", "//[::1]@c", "//@[::1]", "//a@[::1]:", "//[::1]:x", "//[", "//]", "//[]", "//[:]", "?", "#", "?#", "#?", "##",
         "a:[", "a:]", "a:/[", "a:?[", "a:#]", "a:b\x7f", "a:b\x80", "\xff", "a:\t", "a:b\n"
      };
      std::vector< item > g;
      for( const char* c : corpus ) {
         g.push_back( { c, G_FIXED, NT_DELETION, true } );
         run_group( g );
      }
      // one string with an embedded NUL byte
      g.push_back( { std::string( "a://b\0c", 7 ), G_FIXED, NT_DELETION, false } );
      run_group( g );
   }

   // ------------------------------------------------------------------ part 3: random derivations from the ABNF and their single-edit mutants
   struct rfcgen
   {
      verif::rng& r;
      explicit rfcgen( verif::rng& rr ) : r( rr ) {}

      char pick( const char* set ) { return set[ r.below( std::strlen( set ) ) ]; }
      char alpha() { return pick( "abcxyzABCXYZfF" ); }
      char digit() { return pick( "0123456789" ); }
      char hexdig() { return pick( "0123456789abcdefABCDEF" ); }
      char unreserved() { return r.chance( 1, 2 ) ? alpha() : r.chance( 1, 2 ) ? digit() : pick( "-._~" ); }
      char sub_delim() { return pick( "!$&'()*+,;=" ); }
      std::string pct() { return std::string( "%" ) + hexdig() + hexdig(); }
      // *( unreserved / pct-encoded / sub-delims / extra )
      std::string chars( unsigned lo, unsigned hi, const char* extra )
      {
         std::string s;
         const unsigned n = lo + unsigned( r.below( hi - lo + 1 ) );
         for( unsigned i = 0; i < n; ++i ) {
            const unsigned k = unsigned( r.below( 10 ) );
            if( k < 5 ) s += unreserved();
            else if( k < 7 ) s += sub_delim();
            else if( k < 8 ) s += pct();
            else if( *extra ) s += pick( extra );
            else s += unreserved();
         }
         return s;
      }
      std::string scheme()
      {
         std::string s( 1, alpha() );
         const unsigned n = unsigned( r.below( 5 ) );
         for( unsigned i = 0; i < n; ++i ) s += r.chance( 1, 2 ) ? alpha() : r.chance( 1, 2 ) ? digit() : pick( "+-." );
         return s;
      }
      std::string dec_octet()
      {
         switch( r.below( 6 ) ) {
            case 0: return std::string( 1, digit() );
            case 1: return std::string( 1, pick( "123456789" ) ) + digit();
            case 2: return std::string( "1" ) + digit() + digit();
            case 3: return std::string( "2" ) + pick( "01234" ) + digit();
            case 4: return std::string( "25" ) + pick( "012345" );
            default: return r.chance( 1, 2 ) ? "255" : "0";
         }
      }
      std::string ipv4() { return dec_octet() + "." + dec_octet() + "." + dec_octet() + "." + dec_octet(); }
      std::string h16()
      {
         std::string s;
         const unsigned n = 1 + unsigned( r.below( 4 ) );
         for( unsigned i = 0; i < n; ++i ) s += hexdig();
         return s;
      }
      std::string ls32() { return r.chance( 1, 3 ) ? ipv4() : h16() + ":" + h16(); }
      std::string lead( unsigned m )  // [ *m( h16 ":" ) h16 ]
      {
         if( r.chance( 1, 4 ) ) return "";
         std::string s;
         const unsigned k = unsigned( r.below( m + 1 ) );
         for( unsigned i = 0; i < k; ++i ) s += h16() + ":";
         return s + h16();
      }
      std::string rep_h16c( unsigned k )
      {
         std::string s;
         for( unsigned i = 0; i < k; ++i ) s += h16() + ":";
         return s;
      }
      std::string ipv6()
      {
         switch( r.below( 9 ) ) {
            case 0: return rep_h16c( 6 ) + ls32();
            case 1: return "::" + rep_h16c( 5 ) + ls32();
            case 2: return ( r.chance( 1, 2 ) ? h16() : std::string() ) + "::" + rep_h16c( 4 ) + ls32();
            case 3: return lead( 1 ) + "::" + rep_h16c( 3 ) + ls32();
            case 4: return lead( 2 ) + "::" + rep_h16c( 2 ) + ls32();
            case 5: return lead( 3 ) + "::" + rep_h16c( 1 ) + ls32();
            case 6: return lead( 4 ) + "::" + ls32();
            case 7: return lead( 5 ) + "::" + h16();
            default: return lead( 6 ) + "::";
         }
      }
      std::string ipvfuture()
      {
         std::string s( 1, pick( "vV" ) );
         const unsigned n = 1 + unsigned( r.below( 3 ) );
         for( unsigned i = 0; i < n; ++i ) s += hexdig();
         s += ".";
         const unsigned k = 1 + unsigned( r.below( 5 ) );
         for( unsigned i = 0; i < k; ++i ) s += r.chance( 1, 2 ) ? unreserved() : r.chance( 1, 2 ) ? sub_delim() : ':';
         return s;
      }
      std::string reg_name()
      {
         switch( r.below( 8 ) ) {
            case 0: return "";
            case 1: return ipv4() + chars( 1, 3, "" );                  // IPv4address followed by more reg-name
            case 2: return ipv4() + "." + dec_octet();                  // five "octets"
            case 3: return dec_octet() + "." + dec_octet() + "." + dec_octet();
            case 4: return std::to_string( 256 + r.below( 744 ) ) + "." + dec_octet() + "." + dec_octet() + "." + dec_octet();
            default: return chars( 1, 8, "" );
         }
      }
      std::string host()
      {
         switch( r.below( 8 ) ) {
            case 0: case 1: return "[" + ipv6() + "]";
            case 2: return "[" + ipvfuture() + "]";
            case 3: case 4: return ipv4();
            default: return reg_name();
         }
      }
      std::string port()
      {
         std::string s;
         const unsigned n = unsigned( r.below( 5 ) );
         for( unsigned i = 0; i < n; ++i ) s += digit();
         return s;
      }
      std::string authority()
      {
         std::string s;
         if( r.chance( 1, 3 ) ) s += chars( 0, 5, ":" ) + "@";
         s += host();
         if( r.chance( 1, 3 ) ) s += ":" + port();
         return s;
      }
      std::string segment() { return chars( 0, 4, ":@" ); }
      std::string segment_nz() { return chars( 1, 4, ":@" ); }
      std::string segment_nz_nc() { return chars( 1, 4, "@" ); }
      std::string slash_segments()
      {
         std::string s;
         const unsigned n = unsigned( r.below( 4 ) );
         for( unsigned i = 0; i < n; ++i ) s += "/" + segment();
         return s;
      }
      std::string path_abempty() { return slash_segments(); }
      std::string path_absolute() { return r.chance( 1, 4 ) ? std::string( "/" ) : "/" + segment_nz() + slash_segments(); }
      std::string path_noscheme() { return segment_nz_nc() + slash_segments(); }
      std::string path_rootless() { return segment_nz() + slash_segments(); }
      std::string query() { return chars( 0, 6, ":@/?" ); }
      std::string hier_part()
      {
         switch( r.below( 6 ) ) {
            case 0: return path_absolute();
            case 1: return path_rootless();
            case 2: return "";
            default: return "//" + authority() + path_abempty();
         }
      }
      std::string relative_part()
      {
         switch( r.below( 6 ) ) {
            case 0: return path_absolute();
            case 1: return path_noscheme();
            case 2: return "";
            default: return "//" + authority() + path_abempty();
         }
      }
      std::string opt_query() { return r.chance( 1, 3 ) ? "?" + query() : std::string(); }
      std::string opt_fragment() { return r.chance( 1, 3 ) ? "#" + query() : std::string(); }
      std::string absolute_uri() { return scheme() + ":" + hier_part() + opt_query(); }
      std::string uri() { return absolute_uri() + opt_fragment(); }
      std::string relative_ref() { return relative_part() + opt_query() + opt_fragment(); }
   };

   void part_rfc()
   {
      verif::rng r( V.seed * 7919 + 20 );
      rfcgen g( r );
      const long n = V.thorough() ? 500000 : 60000;
      const int nmut = V.thorough() ? 6 : 4;
      std::vector< item > grp;
      for( long i = 0; i < n; ++i ) {
         std::string s;
         uri_kind k = uri_kind::URI;
         for( int tries = 0; tries < 20; ++tries ) {
            switch( i % 4 ) {
               case 0: s = g.uri(); k = uri_kind::URI; break;
               case 1: s = g.relative_ref(); k = uri_kind::relative_ref; break;
               case 2: s = g.absolute_uri(); k = uri_kind::absolute_URI; break;
               default: s = r.chance( 1, 2 ) ? g.uri() : g.relative_ref(); k = uri_kind::URI_reference; break;
            }
            if( s.size() <= uri_matcher::max_len - 1 ) break;  // leave room for an insertion
         }
         if( s.size() > uri_matcher::max_len - 1 ) continue;
         const unsigned parent = oracle_mask( s.data(), s.size() );
         grp.push_back( { s, G_RFC, NT_ACCEPTED_ONLY, false, int( k ) } );
         for( int m = 0; m < nmut; ++m ) grp.push_back( { mutate( s, r ), G_MUT, NT_PARENT, false } );
         run_group( grp, parent );
      }
   }

   // ------------------------------------------------------------------ part 4: systematic IPv4 / IPv6 family, bare and inside hosts
   void embed( std::vector< item >& g, const std::string& host, const bool bracket )
   {
      const std::string h = bracket ? "[" + host + "]" : host;
      g.push_back( { "http://" + h + "/", G_HOSTFAM, NT_DELETION, false } );
      g.push_back( { "http://" + h + ":80/x", G_HOSTFAM, NT_DELETION, false } );
      g.push_back( { "//" + h, G_HOSTFAM, NT_DELETION, false } );
      g.push_back( { "x://u@" + h, G_HOSTFAM, NT_DELETION, false } );
   }

   std::string hexgroup( verif::rng& r, const int style, const int kase )
   {
      // style 0..4: exactly 1..5 digits; 5: 1-4 random; 6: 1-4 with leading zeros
      static const char* const lo = "0123456789abcdef";
      static const char* const up = "0123456789ABCDEF";
      unsigned n = ( style <= 4 ) ? unsigned( style ) + 1 : 1 + unsigned( r.below( 4 ) );
      std::string s;
      for( unsigned i = 0; i < n; ++i ) {
         const char* set = ( kase == 0 ) ? lo : ( kase == 1 ) ? up : ( r.chance( 1, 2 ) ? lo : up );
         char c = set[ r.below( 16 ) ];
         if( style == 6 && i + 1 < n ) c = '0';
         if( style != 6 && i == 0 && n > 1 && r.chance( 1, 8 ) ) c = '0';
         s += c;
      }
      return s;
   }

   void part_ipv6_family()
   {
      verif::rng r( V.seed * 104729 + 6 );
      std::vector< item > g;
      static const char* const tails[] = { "1.2.3.4", "255.255.255.255", "0.0.0.0", "192.0.2.16", "10.9.99.100", "249.250.199.200" };
      const int reps = V.thorough() ? 40 : 3;
      for( int rep = 0; rep < reps; ++rep )
         for( int compressed = 0; compressed < 2; ++compressed )
            for( int L = 0; L <= 9; ++L )
               for( int Rr = 0; Rr <= ( compressed ? 8 : 0 ); ++Rr )
                  for( int v4 = 0; v4 < 2; ++v4 )
                     for( int style = 0; style < 7; ++style ) {
                        if( !compressed && L == 0 && !v4 ) continue;
                        const int kase = ( rep + style + L ) % 3;
                        std::vector< std::string > left, right;
                        for( int i = 0; i < L; ++i ) left.push_back( hexgroup( r, style, kase ) );
                        for( int i = 0; i < Rr; ++i ) right.push_back( hexgroup( r, style, kase ) );
                        const std::string tail = tails[ r.below( sizeof tails / sizeof tails[ 0 ] ) ];
                        std::string s;
                        for( std::size_t i = 0; i < left.size(); ++i ) s += ( i ? ":" : "" ) + left[ i ];
                        if( compressed ) {
                           s += "::";
                           for( std::size_t i = 0; i < right.size(); ++i ) s += ( i ? ":" : "" ) + right[ i ];
                           if( v4 ) s += ( right.empty() ? "" : ":" ) + tail;
                        }
                        else if( v4 ) {
                           s += ( left.empty() ? "" : ":" ) + tail;
                        }
                        g.push_back( { s, G_IPFAM, NT_DELETION, true } );
                        embed( g, s, true );
                        if( rep == 0 && style == 5 ) g.push_back( { mutate( s, r ), G_IPFAM, NT_DELETION, true } );
                        run_group( g );
                     }
      static const char* const odd[] = {
         ":", "::", ":::", "::::", "1::2::3", ":1::2", "1::2:", "1:", ":1", "1:2:3:4:5:6:7:8:9", "1:2:3:4:5:6:7:8:", ":1:2:3:4:5:6:7:8", "12345::", "::12345", "::g", "::G", "g::", "::1.2.3", "::1.2.3.4.5",
         "1.2.3.4::", "::1.2.3.4:5", "1:2:3:4:5:6:7:1.2.3.4", "1:2:3:4:5:1.2.3.4", "::ffff:256.1.1.1", "::ffff:01.1.1.1", "::ffff:1.1.1.01", "::ffff:1.1.1.256", "::ffff:1.1.1", "::ffff:1.1.1.", "::ffff:.1.1.1",
         "::1.2.3.4 ", " ::1", "[::1]", "::%41", "fe80::1%25eth0", "fe80::1%eth0", "::1/64", "1:2:3:4:5:6:7::8", "1:2:3:4:5:6::7:8", "1::2:3:4:5:6:7:8", "::2:3:4:5:6:7:8", "1:2:3:4:5:6:7::", "::1:2:3:4:5:6:7",
         "0:0:0:0:0:0:0:0", "0000:0000:0000:0000:0000:0000:0000:0000", "00000::", "::00000", "::0.0.0.0", "::0.0.0.00", "1:2:3:4:5:6:0.0.0.0", "::a.b.c.d", "::1.2.3.4a", "::1.2.3.a", "1::1.2.3.4", "1:2::1.2.3.4", "1:2:3:4:5::1.2.3.4",
         "1:2:3:4:5:6::1.2.3.4", "::1:2:3:4:5:1.2.3.4", "::1:2:3:4:5:6:1.2.3.4", "ABCD:EF01:2345:6789:ABCD:EF01:2345:6789", "abcd:ef01:2345:6789:abcd:ef01:2345:6789", "2001:DB8:0:0:8:800:200C:417A", "FF01::101", "2001:db8::7",
         "::FFFF:129.144.52.38", "0:0:0:0:0:FFFF:129.144.52.38", "0:0:0:0:0:0:13.1.68.3", "::13.1.68.3" };
      for( const char* o : odd ) {
         g.push_back( { o, G_IPFAM, NT_DELETION, true } );
         embed( g, o, true );
         run_group( g );
      }
   }

   void part_ipv4_family()
   {
      verif::rng r( V.seed * 15485863 + 4 );
      static const char* const O[] = { "0", "1", "9", "10", "19", "99", "100", "199", "200", "249", "250", "255", "256", "260", "299", "300", "999", "00", "01", "001", "0255" };
      constexpr int NO = int( sizeof O / sizeof O[ 0 ] );
      std::vector< item > g;
      const auto emit = [ & ]( const std::string& s, const bool v6too ) {
         g.push_back( { s, G_IPFAM, NT_DELETION, true } );
         embed( g, s, false );
         if( v6too ) {
            g.push_back( { "::" + s, G_IPFAM, NT_DELETION, true } );
            g.push_back( { "::ffff:" + s, G_IPFAM, NT_DELETION, true } );
            g.push_back( { "1:2:3:4:5:6:" + s, G_IPFAM, NT_DELETION, true } );
            g.push_back( { "http://[::" + s + "]/", G_HOSTFAM, NT_DELETION, false } );
            g.push_back( { "//[1:2:3:4:5:6:" + s + "]", G_HOSTFAM, NT_DELETION, false } );
         }
         run_group( g );
      };
      // two varying places: the full product; the other places hold plain octets
      for( int i = 0; i < 4; ++i )
         for( int j = i + 1; j < 4; ++j )
            for( int a = 0; a < NO; ++a )
               for( int b = 0; b < NO; ++b ) {
                  std::string o[ 4 ] = { "7", "42", "1", "8" };
                  o[ i ] = O[ a ];
                  o[ j ] = O[ b ];
                  emit( o[ 0 ] + "." + o[ 1 ] + "." + o[ 2 ] + "." + o[ 3 ], ( a + b ) % 3 == 0 );
               }
      // three and four varying places: sampled
      const int nsample = V.thorough() ? 100000 : 4000;
      for( int k = 0; k < nsample; ++k ) {
         std::string o[ 4 ];
         for( auto& x : o ) x = O[ r.below( NO ) ];
         if( k % 2 ) o[ r.below( 4 ) ] = "3";
         emit( o[ 0 ] + "." + o[ 1 ] + "." + o[ 2 ] + "." + o[ 3 ], k % 4 == 0 );
      }
      // every value 0..300 in the first and in the last place
      for( int v = 0; v <= 300; ++v ) {
         emit( std::to_string( v ) + ".1.1.1", v % 8 == 0 );
         emit( "1.1.1." + std::to_string( v ), true );
      }
      // wrong number of octets, stray dots
      for( int a = 0; a < NO; ++a ) {
         const std::string o = O[ a ];
         emit( o + ".1.1", false );
         emit( "1.1." + o, false );
         emit( "1.2.3.4." + o, false );
         emit( o + ".1.2.3.4", false );
         emit( o, false );
         emit( o + "." + o, false );
         emit( "." + o + ".1.1.1", false );
         emit( "1.1.1." + o + ".", false );
         emit( "1." + o + "..1", false );
      }
      static const char* const odd[] = { ".", "..", "...", "....", "1.2.3.", ".1.2.3", "1..2.3", "1.2..3", "1.2.3.4.", ".1.2.3.4", "1.2.3.4..", "1,2,3,4", "1.2.3.4 ", " 1.2.3.4", "1.2.3.-4", "1.2.3.+4", "1.2.3.4a", "a.2.3.4", "1.2.3.a",
                                         "0x1.2.3.4", "1.2.3.0x4", "1.2.3.4/8", "1.2.3.4:80", "2555.1.1.1", "1.1.1.2555", "25.25.25.25", "255.255.255.255", "0.0.0.0", "000.0.0.0", "1.2.3.4\n" };
      for( const char* o : odd ) emit( o, true );
      // IPv4address followed by more reg-name characters (row 15 of DESIGN.md section 6) inside hosts
      static const char* const suffix[] = { "abc", "a", ".5", ".", "..", "-", "~", "_", "!", "%41", "%4", "0", "5", "55", ".a", ".1.1", "=", "+1", ";", "F" };
      static const char* const base[] = { "1.2.3.4", "255.255.255.255", "0.0.0.0", "10.0.0.25", "192.168.1.2", "1.2.3.25", "1.2.3.100" };
      for( const char* b : base )
         for( const char* x : suffix ) {
            const std::string h = std::string( b ) + x;
            embed( g, h, false );
            g.push_back( { "http://" + h + "?q", G_HOSTFAM, NT_DELETION, false } );
            g.push_back( { "http://" + h + "#f", G_HOSTFAM, NT_DELETION, false } );
            g.push_back( { "http://u:p@" + h + ":8080/p?q#f", G_HOSTFAM, NT_DELETION, false } );
            g.push_back( { h, G_IPFAM, NT_DELETION, true } );
            run_group( g );
         }
      const int nrand = V.thorough() ? 20000 : 1500;
      rfcgen gen( r );
      for( int k = 0; k < nrand; ++k ) {
         const std::string h = gen.ipv4() + suffix[ r.below( sizeof suffix / sizeof suffix[ 0 ] ) ];
         embed( g, h, false );
         run_group( g );
      }
   }
}  // namespace

int main( int argc, char** argv )
{
   verif::init( argc, argv );
   tao::pegtl::internal::verif::hooks.window_violation = &on_window_violation;
   const char* parts = std::getenv( "C20_PARTS" );  // diagnostics only; the registered commands run everything
   const auto on = [ & ]( char c ) { return !parts || std::strchr( parts, c ); };
   if( on( 'f' ) ) part_fixed();
   if( on( '4' ) ) part_ipv4_family();
   if( on( '6' ) ) part_ipv6_family();
   if( on( 'r' ) ) part_rfc();
   if( on( 'x' ) ) part_exhaustive();
   flush_cells();
   V.finish();
   return 0;
}
