// C10 -- character-class and encoding rules accept exactly the documented sets.
// Monitor: for every rule instantiation r of a fixed list and every candidate input, the REAL rule runs
// through tao::pegtl::parse on an exact-size heap block (an over-read is an ASan fault) and
// (matched, bytes consumed) is compared with (unit in set(r), length of the unit) from an independent
// model: cpp/oracles/utf_codec.hpp (decoder), unit_sets.hpp (units, sets), ascii_classes.hpp (documented sets).
#include <tao/pegtl.hpp>
#include <tao/pegtl/contrib/abnf.hpp>
#include <tao/pegtl/contrib/uint16.hpp>
#include <tao/pegtl/contrib/uint32.hpp>
#include <tao/pegtl/contrib/uint64.hpp>
#include <tao/pegtl/contrib/uint8.hpp>
#include <tao/pegtl/contrib/utf16.hpp>
#include <tao/pegtl/contrib/utf32.hpp>

#include <deque>
#include <memory>

#include "common/verif.hpp"
#include "oracles/ascii_classes.hpp"
#include "oracles/unit_sets.hpp"
#include "oracles/utf_codec.hpp"

namespace pegtl = tao::pegtl;
using verif::V;

namespace
{
   using oracle::enc;
   using oracle::vset;
   using seq_t = std::vector< vset >;
   using u64 = std::uint64_t;

   bool g_overread = false;
   long g_empty_inputs = 0;

   struct entry
   {
      std::string family, kind, name;
      const char* label = "";
      enc e = enc::bytes;
      int ( *run )( const char*, const char* ) = nullptr;
      seq_t seq;        // one value set per unit
      bool multi = false;  // judged with the sequence model (string-like rules)
      bool core = false;   // also used in the very large sweeps
      long acc = 0, rej = 0;
   };

   std::deque< entry > g_rules;

   // >= 0: matched, that many bytes consumed; -1: no match, nothing consumed; -1-k: no match, k bytes consumed; -1000: exception
   template< typename Rule >
   int run_rule( const char* b, const char* e )
   {
      try {
         pegtl::memory_input<> in( b, e, "c10" );
         const bool ok = pegtl::parse< Rule >( in );
         const long used = long( in.current() - b );
         return ok ? int( used ) : int( -1 - used );
      }
      catch( ... ) {
         return -1000;
      }
   }

   std::string squeeze( const std::string& text )
   {
      std::string s;
      for( const char c : text )
         if( c != ' ' ) s += c;
      for( std::size_t p; ( p = s.find( "pegtl::" ) ) != std::string::npos; ) s.erase( p, 7 );
      return s;
   }

   template< typename Rule >
   entry& add( const std::string& family, const std::string& kind, const std::string& text, enc e, seq_t seq )
   {
      g_rules.emplace_back();
      entry& r = g_rules.back();
      r.family = family;
      r.kind = kind;
      std::string n = squeeze( text );
      if( n.compare( 0, family.size() + 2, family + "::" ) != 0 ) n = family + "::" + n;
      r.name = n;
      r.label = r.name.c_str();
      r.e = e;
      r.run = &run_rule< Rule >;
      r.multi = ( seq.size() != 1 ) || kind == "string" || kind == "istring" || kind == "mask_string" || kind == "two" || kind == "three" || kind == "ellipsis" || kind == "CRLF";
      r.seq = std::move( seq );
      return r;
   }

#define ADD( fam, kind, e, seq, ... ) add< __VA_ARGS__ >( fam, kind, #__VA_ARGS__, e, seq )

   seq_t S0() { return {}; }
   seq_t S1( vset a ) { return { std::move( a ) }; }
   seq_t S2( vset a, vset b ) { return { std::move( a ), std::move( b ) }; }
   seq_t S3( vset a, vset b, vset c ) { return { std::move( a ), std::move( b ), std::move( c ) }; }

   constexpr char ch( unsigned v ) { return static_cast< char >( static_cast< unsigned char >( v ) ); }

   std::string targs( std::initializer_list< u64 > l )
   {
      std::string s = "<";
      bool first = true;
      for( const u64 v : l ) {
         char b[ 24 ];
         std::snprintf( b, sizeof b, "%s0x%llx", first ? "" : ",", (unsigned long long)v );
         s += b;
         first = false;
      }
      return s + ">";
   }

   struct group
   {
      enc e = enc::bytes;
      std::vector< entry* > single, multi, core;
   };

   group& grp( const std::string& family )
   {
      static std::map< std::string, group > groups;
      auto it = groups.find( family );
      if( it != groups.end() ) return it->second;
      group& g = groups[ family ];
      for( entry& r : g_rules ) {
         if( r.family != family ) continue;
         g.e = r.e;
         ( r.multi ? g.multi : g.single ).push_back( &r );
         if( r.core && !r.multi ) g.core.push_back( &r );
      }
      return g;
   }

   std::string describe( int v )
   {
      if( v == -1000 ) return "an exception";
      if( v >= 0 ) return "match consuming " + std::to_string( v );
      if( v == -1 ) return "no match";
      return "no match with " + std::to_string( -1 - v ) + " bytes consumed";
   }

   [[gnu::noinline]] void mismatch( entry& r, const char* b, std::size_t n, int exp, int got )
   {
      const char* cls = g_overread ? "over-read" : got == -1000 ? "exception" : ( exp >= 0 && got < 0 ) ? "false-reject" : ( exp < 0 && got >= 0 ) ? "false-accept" : "wrong-length";
      g_overread = false;
      const std::string hx = verif::hex( b, n );
      V.violation( "C10", "C10|" + r.name + "|" + cls,
                   r.name + " on the " + std::to_string( n ) + "-byte input " + ( n ? hx : std::string( "(empty)" ) ) + ": expected " + describe( exp ) + ", got " + describe( got ),
                   "{\"rule\":\"" + verif::jesc( r.name ) + "\",\"input_hex\":\"" + hx + "\",\"expected\":" + std::to_string( exp ) + ",\"got\":" + std::to_string( got ) + "}" );
   }

   inline void judge( entry& r, const char* b, const std::size_t n, const bool eok, const unsigned elen )
   {
      V.cur_label = r.label;
      const int got = r.run( b, b + n );
      const int exp = eok ? int( elen ) : -1;
      if( eok ) ++r.acc;
      else ++r.rej;
      if( got != exp || g_overread ) mismatch( r, b, n, exp, got );
   }

   inline void judge_seq( entry& r, const char* b, const std::size_t n )
   {
      const auto* p = reinterpret_cast< const unsigned char* >( b );
      std::size_t off = 0;
      bool ok = true;
      for( const vset& s : r.seq ) {
         const oracle::unit u = oracle::decode_unit( r.e, p + off, n - off );
         if( !u.ok || !s.has( u.value ) ) {
            ok = false;
            break;
         }
         off += u.len;
      }
      judge( r, b, n, ok, unsigned( off ) );
   }

   inline void judge_list( const std::vector< entry* >& rs, const enc e, const char* b, const std::size_t n )
   {
      const oracle::unit u = oracle::decode_unit( e, reinterpret_cast< const unsigned char* >( b ), n );
      for( entry* r : rs ) judge( *r, b, n, u.ok && r->seq[ 0 ].has( u.value ), u.len );
   }

   inline void judge_group( group& g, const char* b, const std::size_t n )
   {
      if( n == 0 ) g_empty_inputs += long( g.single.size() + g.multi.size() );
      judge_list( g.single, g.e, b, n );
      for( entry* r : g.multi ) judge_seq( *r, b, n );
   }

   // persistent exact-size blocks (mode 0: the red zone starts right behind the last byte), overwritten in place
   verif::guarded_buffer& exact( const std::size_t n )
   {
      static std::map< std::size_t, std::unique_ptr< verif::guarded_buffer > > pool;
      auto& p = pool[ n ];
      if( !p ) p = std::make_unique< verif::guarded_buffer >( std::string( n, '\0' ), 0 );
      return *p;
   }

   inline char* use( verif::guarded_buffer& gb )
   {
      V.cur_data = gb.base;
      V.cur_len = gb.size;
      return gb.base;
   }

   inline void fill( verif::guarded_buffer& gb, const std::string& s ) { std::memcpy( gb.base, s.data(), s.size() ); }

   // runs every rule of the group on `bytes` placed in a fresh exact block
   void probe_exact( group& g, const std::string& bytes )
   {
      verif::guarded_buffer& gb = exact( bytes.size() );
      fill( gb, bytes );
      judge_group( g, use( gb ), bytes.size() );
   }

   // ... on a prefix of a larger poisoned block whose tail holds `filler`
   void probe_poisoned( group& g, const std::string& bytes, const std::string& filler )
   {
      verif::guarded_buffer gb( bytes, 1, filler );
      V.cur_data = gb.base;
      V.cur_len = gb.size;
      judge_group( g, gb.begin(), bytes.size() );
      V.cur_data = nullptr;
      V.cur_len = 0;
   }

   // ... starting at an odd address (one pad byte in front), still ending at the red zone
   void probe_unaligned( group& g, const std::string& bytes )
   {
      verif::guarded_buffer& gb = exact( bytes.size() + 1 );
      use( gb );
      gb.base[ 0 ] = '\x5a';
      std::memcpy( gb.base + 1, bytes.data(), bytes.size() );
      judge_group( g, gb.base + 1, bytes.size() );
   }

#include "c10_rules.inc"
#include "c10_parts.inc"
}  // namespace

int main( int argc, char** argv )
{
   verif::init( argc, argv );
   tao::pegtl::internal::verif::hooks.window_violation = +[]( int, const void*, std::size_t, std::size_t ) { g_overread = true; };
   register_rules();
   run_parts();
   long evals = 0;
   for( const entry& r : g_rules ) {
      evals += r.acc + r.rej;
      if( r.acc ) V.count( r.family + ":" + r.kind + ":accept", r.acc );
      if( r.rej ) V.count( r.family + ":" + r.kind + ":reject", r.rej );
   }
   V.evaluations += evals;
   V.nontrivial += evals - g_empty_inputs;
   if( std::getenv( "C10_DEBUG" ) )
      for( const entry& r : g_rules ) std::fprintf( stderr, "%-70s acc %10ld rej %10ld\n", r.name.c_str(), r.acc, r.rej );
   V.finish();
   return 0;
}
