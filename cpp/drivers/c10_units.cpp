// C10 -- character-class and encoding rules accept exactly the documented sets.
// Monitor: for every rule instantiation r of a fixed list and every candidate input, the REAL rule runs
// through tao::pegtl::parse on an exact-size heap block (an over-read is an ASan fault) and
// (matched, bytes consumed) is compared with (unit in set(r), length of the unit) from an independent
// model: cpp/oracles/utf_codec.hpp (decoder), unit_sets.hpp (units, sets), ascii_classes.hpp (documented sets).
#include <tao/pegtl.hpp>
#include <tao/pegtl/buffer_input.hpp>
#include <tao/pegtl/contrib/abnf.hpp>
#include <tao/pegtl/contrib/uint16.hpp>
#include <tao/pegtl/contrib/uint32.hpp>
#include <tao/pegtl/contrib/uint64.hpp>
#include <tao/pegtl/contrib/uint8.hpp>
#include <tao/pegtl/contrib/utf16.hpp>
#include <tao/pegtl/contrib/utf32.hpp>

#include <deque>
#include <memory>

#include "common/verif.hpp"
#include "oracles/ascii_classes.hpp"
#include "oracles/unit_sets.hpp"
#include "oracles/utf_codec.hpp"

namespace pegtl = tao::pegtl;
using verif::V;

// The rule list is compiled in six slices (-DC10_PART=0..5, one binary each, built in parallel): the ~1400
// instantiations of parse<> take half a minute in one translation unit. Without the define: everything.
//   0 ascii + abnf + utf8, 1 utf16 + utf32, 2 uint8 (masks 0..127), 3 uint8 (masks 128..255), 4 uint16, 5 uint32 + uint64
#ifndef C10_PART
#define C10_PART -1
#endif
#define HAS( k ) ( C10_PART == -1 || C10_PART == ( k ) )

namespace
{
   using oracle::enc;
   using oracle::vset;
   using seq_t = std::vector< vset >;
   using u64 = std::uint64_t;

   bool g_overread = false;
   long g_empty_inputs = 0;

   using input_t = pegtl::memory_input<>;
   using parse_fn = bool ( * )( input_t& );

   struct entry
   {
      std::string family, kind, name;
      const char* label = "";
      enc e = enc::bytes;
      parse_fn run = nullptr;
      seq_t seq;        // one value set per unit
      bool multi = false;  // judged with the sequence model (string-like rules)
      bool core = false;   // also used in the very large sweeps
      long acc = 0, rej = 0;
   };

   std::deque< entry > g_rules;

   // the only code instantiated per rule: the real top-level parse of the real rule. rewind_mode::required (in this
   // tree parse<> defaults to optional, where a failing seq<> may leave the cursor anywhere) so that "no match" has a
   // defined cursor position -- unchanged -- and the monitor can insist on it; success and its length do not depend on the mode.
   // incremental flavour: the same bytes handed to the rule through a buffer_input whose reader delivers one byte per call
   // (Chunk 1), so that every multi-byte unit straddles the end of the buffered data; the consumed count is copied back
   struct byte_reader
   {
      const char* p;
      const char* e;
      std::size_t operator()( char* buf, const std::size_t len )
      {
         if( p == e || len == 0 ) return 0;
         *buf = *p++;
         return 1;
      }
   };
   bool g_incremental = false;
   long g_incremental_runs = 0;

   template< typename Rule >
   bool parse_rule( input_t& in )
   {
      if( g_incremental ) {
         ++g_incremental_runs;
         pegtl::buffer_input< byte_reader, pegtl::eol::lf_crlf, const char*, 1 > bi( "c10", in.size() + 16, byte_reader{ in.current(), in.end() } );
         const bool ok = pegtl::parse< Rule, pegtl::nothing, pegtl::normal, pegtl::apply_mode::action, pegtl::rewind_mode::required >( bi );
         in.bump( bi.byte() );
         return ok;
      }
      return pegtl::parse< Rule, pegtl::nothing, pegtl::normal, pegtl::apply_mode::action, pegtl::rewind_mode::required >( in );
   }

   // >= 0: matched, that many bytes consumed; -1: no match, nothing consumed; -1-k: no match, k bytes consumed; -1000: exception
   int run_on( const parse_fn f, const char* b, const char* e )
   {
      try {
         input_t in( b, e, "c10" );
         const bool ok = f( in );
         const long used = long( in.current() - b );
         return ok ? int( used ) : int( -1 - used );
      }
      catch( ... ) {
         return -1000;
      }
   }

   std::string squeeze( const std::string& text )
   {
      std::string s;
      for( const char c : text )
         if( c != ' ' ) s += c;
      for( std::size_t p; ( p = s.find( "pegtl::" ) ) != std::string::npos; ) s.erase( p, 7 );
      return s;
   }

   entry& add( const std::string& family, const std::string& kind, const std::string& text, enc e, parse_fn run, seq_t seq )
   {
      g_rules.emplace_back();
      entry& r = g_rules.back();
      r.family = family;
      r.kind = kind;
      std::string n = squeeze( text );
      if( n.compare( 0, family.size() + 2, family + "::" ) != 0 ) n = family + "::" + n;
      r.name = n;
      r.label = r.name.c_str();
      r.e = e;
      r.run = run;
      r.multi = ( seq.size() != 1 ) || kind == "string" || kind == "istring" || kind == "mask_string" || kind == "two" || kind == "three" || kind == "ellipsis" || kind == "CRLF";
      r.seq = std::move( seq );
      return r;
   }

   struct group
   {
      enc e = enc::bytes;
      std::vector< entry* > single, multi, core;
   };

   group& grp( const std::string& family )
   {
      static std::map< std::string, group > groups;
      auto it = groups.find( family );
      if( it != groups.end() ) return it->second;
      group& g = groups[ family ];
      for( entry& r : g_rules ) {
         if( r.family != family ) continue;
         g.e = r.e;
         ( r.multi ? g.multi : g.single ).push_back( &r );
         if( r.core && !r.multi ) g.core.push_back( &r );
      }
      return g;
   }

   std::string describe( int v )
   {
      if( v == -1000 ) return "an exception";
      if( v >= 0 ) return "match consuming " + std::to_string( v );
      if( v == -1 ) return "no match";
      return "no match with " + std::to_string( -1 - v ) + " bytes consumed";
   }

   [[gnu::noinline]] void mismatch( entry& r, const char* b, std::size_t n, int exp, int got, const bool incremental = false )
   {
      const std::string cls0 = g_overread ? "over-read" : got == -1000 ? "exception" : ( exp >= 0 && got < 0 ) ? "false-reject" : ( exp < 0 && got >= 0 ) ? "false-accept" : "wrong-length";
      const std::string cls = cls0 + ( incremental ? "|incremental-input" : "" );
      g_overread = false;
      const std::string hx = verif::hex( b, n );
      V.violation( "C10", "C10|" + r.name + "|" + cls,
                   r.name + ( incremental ? " through a buffer_input fed one byte per read" : "" ) + " on the " + std::to_string( n ) + "-byte input " + ( n ? hx : std::string( "(empty)" ) ) + ": expected " + describe( exp ) + ", got " + describe( got ),
                   "{\"rule\":\"" + verif::jesc( r.name ) + "\",\"input_hex\":\"" + hx + "\",\"expected\":" + std::to_string( exp ) + ",\"got\":" + std::to_string( got ) + "}" );
   }

   inline void judge( entry& r, const char* b, const std::size_t n, const bool eok, const unsigned elen )
   {
      V.cur_label = r.label;
      const int got = run_on( r.run, b, b + n );
      const int exp = eok ? int( elen ) : -1;
      if( eok ) ++r.acc;
      else ++r.rej;
      if( got != exp || g_overread ) mismatch( r, b, n, exp, got );
      // every fourth judgement of a multi-byte encoding on two or more bytes is repeated through the incremental input
      static unsigned rota = 0;
      if( n >= 2 && r.e != enc::bytes && r.e != enc::uint8 && ( ++rota & 3 ) == 0 ) {
         g_incremental = true;
         const int got2 = run_on( r.run, b, b + n );
         g_incremental = false;
         if( got2 != exp ) mismatch( r, b, n, exp, got2, true );
      }
   }

   [[maybe_unused]] inline void judge_seq( entry& r, const char* b, const std::size_t n )
   {
      const auto* p = reinterpret_cast< const unsigned char* >( b );
      std::size_t off = 0;
      bool ok = true;
      for( const vset& s : r.seq ) {
         const oracle::unit u = oracle::decode_unit( r.e, p + off, n - off );
         if( !u.ok || !s.has( u.value ) ) {
            ok = false;
            break;
         }
         off += u.len;
      }
      judge( r, b, n, ok, unsigned( off ) );
   }

   inline void judge_list( const std::vector< entry* >& rs, const enc e, const char* b, const std::size_t n )
   {
      const oracle::unit u = oracle::decode_unit( e, reinterpret_cast< const unsigned char* >( b ), n );
      for( entry* r : rs ) judge( *r, b, n, u.ok && r->seq[ 0 ].has( u.value ), u.len );
   }

   [[maybe_unused]] inline void judge_group( group& g, const char* b, const std::size_t n )
   {
      if( n == 0 ) g_empty_inputs += long( g.single.size() + g.multi.size() );
      judge_list( g.single, g.e, b, n );
      for( entry* r : g.multi ) judge_seq( *r, b, n );
   }

   // persistent exact-size blocks (mode 0: the red zone starts right behind the last byte), overwritten in place
   verif::guarded_buffer& exact( const std::size_t n )
   {
      static std::map< std::size_t, std::unique_ptr< verif::guarded_buffer > > pool;
      auto& p = pool[ n ];
      if( !p ) p = std::make_unique< verif::guarded_buffer >( std::string( n, '\0' ), 0 );
      return *p;
   }

   inline char* use( verif::guarded_buffer& gb )
   {
      V.cur_data = gb.base;
      V.cur_len = gb.size;
      return gb.base;
   }

   [[maybe_unused]] inline void fill( verif::guarded_buffer& gb, const std::string& s ) { std::memcpy( gb.base, s.data(), s.size() ); }

   // runs every rule of the group on `bytes` placed in a fresh exact block
   [[maybe_unused]] void probe_exact( group& g, const std::string& bytes )
   {
      verif::guarded_buffer& gb = exact( bytes.size() );
      fill( gb, bytes );
      judge_group( g, use( gb ), bytes.size() );
   }

   // ... on a prefix of a larger poisoned block whose tail holds `filler`
   [[maybe_unused]] void probe_poisoned( group& g, const std::string& bytes, const std::string& filler )
   {
      verif::guarded_buffer gb( bytes, 1, filler );
      V.cur_data = gb.base;
      V.cur_len = gb.size;
      judge_group( g, gb.begin(), bytes.size() );
      V.cur_data = nullptr;
      V.cur_len = 0;
   }

   // ... starting at an odd address (one pad byte in front), still ending at the red zone
   [[maybe_unused]] void probe_unaligned( group& g, const std::string& bytes )
   {
      verif::guarded_buffer& gb = exact( bytes.size() + 1 );
      use( gb );
      gb.base[ 0 ] = '\x5a';
      std::memcpy( gb.base + 1, bytes.data(), bytes.size() );
      judge_group( g, gb.base + 1, bytes.size() );
   }

   // ------------------------------------------------------------------ the fixed list of rule instantiations, as constant tables
   // (registration by code -- one call with a few temporaries per rule -- took minutes to compile under ASan).
   // A row holds the rule, its runner, and the documented set of each of its units as closed spans lo,hi
   // (a single value v is the span v,v), optionally complemented (NOT) and applied to ( value & mask ).
   // Template arguments of the ASCII range rules never straddle 0x7f/0x80, so that the documented
   // "closed range C ... D" is the same set whether char is signed or not.
   enum : unsigned
   {
      CORE = 1,    // also used in the very large sweeps
      NOT = 2,     // complement of the listed spans
      FOLD = 4,    // istring: each listed byte stands for its ASCII case-insensitive class
      NAME = 8,    // build the printed name from kind, mask and values (the text names macro parameters)
      PTS = 16,    // NAME: the template arguments are single values, not lo,hi pairs
      ODD = 32,    // NAME: the last argument is a single value behind the pairs
      MASKED = 64  // NAME: the first template argument is the mask
   };

   struct spec
   {
      const char* family;
      const char* kind;
      const char* text;
      enc e;
      parse_fn run;
      unsigned flags;
      u64 mask;
      unsigned units;
      unsigned char spans[ 3 ];  // per unit
      u64 d[ 14 ];               // lo, hi, lo, hi ...
      vset ( *named )();         // documented class from oracles/ascii_classes.hpp, instead of spans
   };

#define UNPAREN( ... ) __VA_ARGS__
#define ROW( fam, kind, e, flags, mask, units, n0, n1, n2, data, named, ... ) { fam, kind, #__VA_ARGS__, e, &parse_rule< __VA_ARGS__ >, flags, mask, units, { n0, n1, n2 }, { UNPAREN data }, named },

   void load( const spec& s )
   {
      seq_t seq;
      const u64* p = s.d;
      for( unsigned u = 0; u < s.units; ++u ) {
         vset v;
         if( s.named != nullptr && u == 0 && s.spans[ 0 ] == 0 ) v = s.named();
         for( unsigned i = 0; i < s.spans[ u ]; ++i, p += 2 ) {
            if( s.flags & FOLD ) v = oracle::ascii_doc::caseless( static_cast< unsigned char >( p[ 0 ] ) );
            else v.spans.emplace_back( p[ 0 ], p[ 1 ] );
         }
         v.mask = s.mask;
         v.complement = ( s.flags & NOT ) != 0;
         seq.push_back( std::move( v ) );
      }
      std::string text = s.text;
      if( s.flags & NAME ) {
         std::vector< u64 > a;
         if( s.flags & MASKED ) a.push_back( s.mask );
         p = s.d;
         for( unsigned u = 0; u < s.units; ++u )
            for( unsigned i = 0; i < s.spans[ u ]; ++i, p += 2 ) {
               a.push_back( p[ 0 ] );
               if( !( s.flags & PTS ) && !( ( s.flags & ODD ) && i + 1 == s.spans[ u ] ) ) a.push_back( p[ 1 ] );
            }
         text = std::string( s.kind ) + "<";
         for( std::size_t i = 0; i < a.size(); ++i ) {
            char b[ 24 ];
            std::snprintf( b, sizeof b, "%s0x%llx", i ? "," : "", (unsigned long long)a[ i ] );
            text += b;
         }
         text += ">";
      }
      entry& r = add( s.family, s.kind, text, s.e, s.run, std::move( seq ) );
      r.core = ( s.flags & CORE ) != 0;
   }

   template< std::size_t N >
   void load_all( const spec ( &t )[ N ] )
   {
      for( const spec& s : t ) load( s );
   }

   // bytes as the documentation lists them: by their unsigned value
   constexpr u64 uc( const char c ) { return static_cast< unsigned char >( c ); }
   constexpr char ch( const unsigned v ) { return static_cast< char >( static_cast< unsigned char >( v ) ); }
   constexpr enc B = enc::bytes;

#if HAS( 0 )
   constexpr spec ascii_rows[] = {

      ROW( "ascii", "alnum", B, 0, ~u64( 0 ), 1, 0, 0, 0, (  ), &oracle::ascii_doc::alnum, pegtl::alnum )
      ROW( "ascii", "alpha", B, 0, ~u64( 0 ), 1, 0, 0, 0, (  ), &oracle::ascii_doc::alpha, pegtl::alpha )
      ROW( "ascii", "any", B, 0, ~u64( 0 ), 1, 0, 0, 0, (  ), &oracle::ascii_doc::any, pegtl::any )
      ROW( "ascii", "blank", B, 0, ~u64( 0 ), 1, 0, 0, 0, (  ), &oracle::ascii_doc::blank, pegtl::blank )
      ROW( "ascii", "digit", B, 0, ~u64( 0 ), 1, 0, 0, 0, (  ), &oracle::ascii_doc::digit, pegtl::digit )
      ROW( "ascii", "identifier_first", B, 0, ~u64( 0 ), 1, 0, 0, 0, (  ), &oracle::ascii_doc::identifier_first, pegtl::identifier_first )
      ROW( "ascii", "identifier_other", B, 0, ~u64( 0 ), 1, 0, 0, 0, (  ), &oracle::ascii_doc::identifier_other, pegtl::identifier_other )
      ROW( "ascii", "lower", B, 0, ~u64( 0 ), 1, 0, 0, 0, (  ), &oracle::ascii_doc::lower, pegtl::lower )
      ROW( "ascii", "nul", B, 0, ~u64( 0 ), 1, 0, 0, 0, (  ), &oracle::ascii_doc::nul, pegtl::nul )
      ROW( "ascii", "odigit", B, 0, ~u64( 0 ), 1, 0, 0, 0, (  ), &oracle::ascii_doc::odigit, pegtl::odigit )
      ROW( "ascii", "print", B, 0, ~u64( 0 ), 1, 0, 0, 0, (  ), &oracle::ascii_doc::print, pegtl::print )
      ROW( "ascii", "seven", B, 0, ~u64( 0 ), 1, 0, 0, 0, (  ), &oracle::ascii_doc::seven, pegtl::seven )
      ROW( "ascii", "space", B, 0, ~u64( 0 ), 1, 0, 0, 0, (  ), &oracle::ascii_doc::space, pegtl::space )
      ROW( "ascii", "upper", B, 0, ~u64( 0 ), 1, 0, 0, 0, (  ), &oracle::ascii_doc::upper, pegtl::upper )
      ROW( "ascii", "xdigit", B, 0, ~u64( 0 ), 1, 0, 0, 0, (  ), &oracle::ascii_doc::xdigit, pegtl::xdigit )
      ROW( "ascii", "one", B, 0, ~u64( 0 ), 1, 0, 0, 0, (  ), nullptr, pegtl::one<> )
      ROW( "ascii", "one", B, 0, ~u64( 0 ), 1, 1, 0, 0, ( uc( 'a' ), uc( 'a' ) ), nullptr, pegtl::one< 'a' > )
      ROW( "ascii", "one", B, 0, ~u64( 0 ), 1, 3, 0, 0, ( uc( 'a' ), uc( 'a' ), uc( 'Z' ), uc( 'Z' ), uc( '0' ), uc( '0' ) ), nullptr, pegtl::one< 'a', 'Z', '0' > )
      ROW( "ascii", "one", B, 0, ~u64( 0 ), 1, 1, 0, 0, ( 0x00, 0x00 ), nullptr, pegtl::one< ch( 0x00 ) > )
      ROW( "ascii", "one", B, 0, ~u64( 0 ), 1, 1, 0, 0, ( 0x7f, 0x7f ), nullptr, pegtl::one< ch( 0x7f ) > )
      ROW( "ascii", "one", B, 0, ~u64( 0 ), 1, 1, 0, 0, ( 0x80, 0x80 ), nullptr, pegtl::one< ch( 0x80 ) > )
      ROW( "ascii", "one", B, 0, ~u64( 0 ), 1, 1, 0, 0, ( 0xff, 0xff ), nullptr, pegtl::one< ch( 0xff ) > )
      ROW( "ascii", "one", B, 0, ~u64( 0 ), 1, 4, 0, 0, ( 0x00, 0x00, 0x7f, 0x7f, 0x80, 0x80, 0xff, 0xff ), nullptr, pegtl::one< ch( 0x00 ), ch( 0x7f ), ch( 0x80 ), ch( 0xff ) > )
      ROW( "ascii", "not_one", B, NOT, ~u64( 0 ), 1, 0, 0, 0, (  ), nullptr, pegtl::not_one<> )
      ROW( "ascii", "not_one", B, NOT, ~u64( 0 ), 1, 1, 0, 0, ( uc( 'a' ), uc( 'a' ) ), nullptr, pegtl::not_one< 'a' > )
      ROW( "ascii", "not_one", B, NOT, ~u64( 0 ), 1, 3, 0, 0, ( uc( 'a' ), uc( 'a' ), uc( 'Z' ), uc( 'Z' ), uc( '0' ), uc( '0' ) ), nullptr, pegtl::not_one< 'a', 'Z', '0' > )
      ROW( "ascii", "not_one", B, NOT, ~u64( 0 ), 1, 1, 0, 0, ( 0x00, 0x00 ), nullptr, pegtl::not_one< ch( 0x00 ) > )
      ROW( "ascii", "not_one", B, NOT, ~u64( 0 ), 1, 1, 0, 0, ( 0x7f, 0x7f ), nullptr, pegtl::not_one< ch( 0x7f ) > )
      ROW( "ascii", "not_one", B, NOT, ~u64( 0 ), 1, 1, 0, 0, ( 0x80, 0x80 ), nullptr, pegtl::not_one< ch( 0x80 ) > )
      ROW( "ascii", "not_one", B, NOT, ~u64( 0 ), 1, 1, 0, 0, ( 0xff, 0xff ), nullptr, pegtl::not_one< ch( 0xff ) > )
      ROW( "ascii", "not_one", B, NOT, ~u64( 0 ), 1, 4, 0, 0, ( 0x00, 0x00, 0x7f, 0x7f, 0x80, 0x80, 0xff, 0xff ), nullptr, pegtl::not_one< ch( 0x00 ), ch( 0x7f ), ch( 0x80 ), ch( 0xff ) > )
      ROW( "ascii", "range", B, 0, ~u64( 0 ), 1, 1, 0, 0, ( uc( 'a' ), uc( 'z' ) ), nullptr, pegtl::range< 'a', 'z' > )
      ROW( "ascii", "range", B, 0, ~u64( 0 ), 1, 1, 0, 0, ( uc( 'm' ), uc( 'm' ) ), nullptr, pegtl::range< 'm', 'm' > )
      ROW( "ascii", "range", B, 0, ~u64( 0 ), 1, 1, 0, 0, ( 0x00, 0x01 ), nullptr, pegtl::range< ch( 0x00 ), ch( 0x01 ) > )
      ROW( "ascii", "range", B, 0, ~u64( 0 ), 1, 1, 0, 0, ( 0x00, 0x7f ), nullptr, pegtl::range< ch( 0x00 ), ch( 0x7f ) > )
      ROW( "ascii", "range", B, 0, ~u64( 0 ), 1, 1, 0, 0, ( 0x7e, 0x7f ), nullptr, pegtl::range< ch( 0x7e ), ch( 0x7f ) > )
      ROW( "ascii", "range", B, 0, ~u64( 0 ), 1, 1, 0, 0, ( 0x80, 0x81 ), nullptr, pegtl::range< ch( 0x80 ), ch( 0x81 ) > )
      ROW( "ascii", "range", B, 0, ~u64( 0 ), 1, 1, 0, 0, ( 0x80, 0xff ), nullptr, pegtl::range< ch( 0x80 ), ch( 0xff ) > )
      ROW( "ascii", "range", B, 0, ~u64( 0 ), 1, 1, 0, 0, ( 0xfe, 0xff ), nullptr, pegtl::range< ch( 0xfe ), ch( 0xff ) > )
      ROW( "ascii", "not_range", B, NOT, ~u64( 0 ), 1, 1, 0, 0, ( uc( 'a' ), uc( 'z' ) ), nullptr, pegtl::not_range< 'a', 'z' > )
      ROW( "ascii", "not_range", B, NOT, ~u64( 0 ), 1, 1, 0, 0, ( uc( 'm' ), uc( 'm' ) ), nullptr, pegtl::not_range< 'm', 'm' > )
      ROW( "ascii", "not_range", B, NOT, ~u64( 0 ), 1, 1, 0, 0, ( 0x00, 0x01 ), nullptr, pegtl::not_range< ch( 0x00 ), ch( 0x01 ) > )
      ROW( "ascii", "not_range", B, NOT, ~u64( 0 ), 1, 1, 0, 0, ( 0x00, 0x7f ), nullptr, pegtl::not_range< ch( 0x00 ), ch( 0x7f ) > )
      ROW( "ascii", "not_range", B, NOT, ~u64( 0 ), 1, 1, 0, 0, ( 0x7e, 0x7f ), nullptr, pegtl::not_range< ch( 0x7e ), ch( 0x7f ) > )
      ROW( "ascii", "not_range", B, NOT, ~u64( 0 ), 1, 1, 0, 0, ( 0x80, 0x81 ), nullptr, pegtl::not_range< ch( 0x80 ), ch( 0x81 ) > )
      ROW( "ascii", "not_range", B, NOT, ~u64( 0 ), 1, 1, 0, 0, ( 0x80, 0xff ), nullptr, pegtl::not_range< ch( 0x80 ), ch( 0xff ) > )
      ROW( "ascii", "not_range", B, NOT, ~u64( 0 ), 1, 1, 0, 0, ( 0xfe, 0xff ), nullptr, pegtl::not_range< ch( 0xfe ), ch( 0xff ) > )
      ROW( "ascii", "ranges", B, 0, ~u64( 0 ), 1, 0, 0, 0, (  ), nullptr, pegtl::ranges<> )
      ROW( "ascii", "ranges", B, 0, ~u64( 0 ), 1, 1, 0, 0, ( uc( 'x' ), uc( 'x' ) ), nullptr, pegtl::ranges< 'x' > )
      ROW( "ascii", "ranges", B, 0, ~u64( 0 ), 1, 1, 0, 0, ( uc( 'a' ), uc( 'f' ) ), nullptr, pegtl::ranges< 'a', 'f' > )
      ROW( "ascii", "ranges", B, 0, ~u64( 0 ), 1, 2, 0, 0, ( uc( 'a' ), uc( 'f' ), uc( '0' ), uc( '9' ) ), nullptr, pegtl::ranges< 'a', 'f', '0', '9' > )
      ROW( "ascii", "ranges", B, 0, ~u64( 0 ), 1, 3, 0, 0, ( uc( 'a' ), uc( 'f' ), uc( '0' ), uc( '9' ), uc( '_' ), uc( '_' ) ), nullptr, pegtl::ranges< 'a', 'f', '0', '9', '_' > )
      ROW( "ascii", "ranges", B, 0, ~u64( 0 ), 1, 2, 0, 0, ( 0x00, 0x1f, 0x7f, 0x7f ), nullptr, pegtl::ranges< ch( 0x00 ), ch( 0x1f ), ch( 0x7f ) > )
      ROW( "ascii", "ranges", B, 0, ~u64( 0 ), 1, 2, 0, 0, ( 0x80, 0xbf, 0x00, 0x7f ), nullptr, pegtl::ranges< ch( 0x80 ), ch( 0xbf ), ch( 0x00 ), ch( 0x7f ) > )
      ROW( "ascii", "ranges", B, 0, ~u64( 0 ), 1, 2, 0, 0, ( 0x80, 0xfe, 0xff, 0xff ), nullptr, pegtl::ranges< ch( 0x80 ), ch( 0xfe ), ch( 0xff ) > )
      ROW( "ascii", "ranges", B, 0, ~u64( 0 ), 1, 3, 0, 0, ( 0xc0, 0xff, 0x00, 0x7e, 0x80, 0x80 ), nullptr, pegtl::ranges< ch( 0xc0 ), ch( 0xff ), ch( 0x00 ), ch( 0x7e ), ch( 0x80 ) > )
      ROW( "ascii", "ranges", B, 0, ~u64( 0 ), 1, 4, 0, 0, ( uc( 'a' ), uc( 'b' ), uc( 'd' ), uc( 'e' ), uc( 'g' ), uc( 'h' ), uc( 'j' ), uc( 'j' ) ), nullptr, pegtl::ranges< 'a', 'b', 'd', 'e', 'g', 'h', 'j', 'j' > )
      ROW( "ascii", "string", B, 0, ~u64( 0 ), 0, 0, 0, 0, (  ), nullptr, pegtl::string<> )
      ROW( "ascii", "string", B, 0, ~u64( 0 ), 1, 1, 0, 0, ( uc( 'Z' ), uc( 'Z' ) ), nullptr, pegtl::string< 'Z' > )
      ROW( "ascii", "string", B, 0, ~u64( 0 ), 2, 1, 1, 0, ( uc( 'a' ), uc( 'a' ), uc( 'b' ), uc( 'b' ) ), nullptr, pegtl::string< 'a', 'b' > )
      ROW( "ascii", "string", B, 0, ~u64( 0 ), 2, 1, 1, 0, ( uc( 'A' ), uc( 'A' ), uc( 'z' ), uc( 'z' ) ), nullptr, pegtl::string< 'A', 'z' > )
      ROW( "ascii", "string", B, 0, ~u64( 0 ), 2, 1, 1, 0, ( 0x00, 0x00, 0xff, 0xff ), nullptr, pegtl::string< ch( 0x00 ), ch( 0xff ) > )
      ROW( "ascii", "string", B, 0, ~u64( 0 ), 2, 1, 1, 0, ( 0x80, 0x80, 0x7f, 0x7f ), nullptr, pegtl::string< ch( 0x80 ), ch( 0x7f ) > )
      ROW( "ascii", "string", B, 0, ~u64( 0 ), 3, 1, 1, 1, ( uc( 'a' ), uc( 'a' ), uc( 'B' ), uc( 'B' ), uc( 'c' ), uc( 'c' ) ), nullptr, pegtl::string< 'a', 'B', 'c' > )
      ROW( "ascii", "istring", B, 0, ~u64( 0 ), 0, 0, 0, 0, (  ), nullptr, pegtl::istring<> )
      ROW( "ascii", "istring", B, FOLD, ~u64( 0 ), 1, 1, 0, 0, ( uc( 'Z' ), uc( 'Z' ) ), nullptr, pegtl::istring< 'Z' > )
      ROW( "ascii", "istring", B, FOLD, ~u64( 0 ), 1, 1, 0, 0, ( uc( '@' ), uc( '@' ) ), nullptr, pegtl::istring< '@' > )
      ROW( "ascii", "istring", B, FOLD, ~u64( 0 ), 2, 1, 1, 0, ( uc( 'a' ), uc( 'a' ), uc( 'b' ), uc( 'b' ) ), nullptr, pegtl::istring< 'a', 'b' > )
      ROW( "ascii", "istring", B, FOLD, ~u64( 0 ), 2, 1, 1, 0, ( uc( 'A' ), uc( 'A' ), uc( 'z' ), uc( 'z' ) ), nullptr, pegtl::istring< 'A', 'z' > )
      ROW( "ascii", "istring", B, FOLD, ~u64( 0 ), 2, 1, 1, 0, ( uc( '@' ), uc( '@' ), uc( '[' ), uc( '[' ) ), nullptr, pegtl::istring< '@', '[' > )
      ROW( "ascii", "istring", B, FOLD, ~u64( 0 ), 2, 1, 1, 0, ( uc( '`' ), uc( '`' ), uc( '{' ), uc( '{' ) ), nullptr, pegtl::istring< '`', '{' > )
      ROW( "ascii", "istring", B, FOLD, ~u64( 0 ), 2, 1, 1, 0, ( uc( '1' ), uc( '1' ), uc( '_' ), uc( '_' ) ), nullptr, pegtl::istring< '1', '_' > )
      ROW( "ascii", "istring", B, FOLD, ~u64( 0 ), 2, 1, 1, 0, ( 0xc1, 0xc1, 0xe1, 0xe1 ), nullptr, pegtl::istring< ch( 0xc1 ), ch( 0xe1 ) > )
      ROW( "ascii", "istring", B, FOLD, ~u64( 0 ), 2, 1, 1, 0, ( uc( 'k' ), uc( 'k' ), 0x00, 0x00 ), nullptr, pegtl::istring< 'k', ch( 0x00 ) > )
      ROW( "ascii", "istring", B, FOLD, ~u64( 0 ), 2, 1, 1, 0, ( 0x0a, 0x0a, 0x2a, 0x2a ), nullptr, pegtl::istring< ch( 0x0a ), ch( 0x2a ) > )
      ROW( "ascii", "istring", B, FOLD, ~u64( 0 ), 3, 1, 1, 1, ( uc( 'a' ), uc( 'a' ), uc( 'B' ), uc( 'B' ), uc( '-' ), uc( '-' ) ), nullptr, pegtl::istring< 'a', 'B', '-' > )
      ROW( "ascii", "two", B, 0, ~u64( 0 ), 2, 1, 1, 0, ( uc( 'x' ), uc( 'x' ), uc( 'x' ), uc( 'x' ) ), nullptr, pegtl::two< 'x' > )
      ROW( "ascii", "three", B, 0, ~u64( 0 ), 3, 1, 1, 1, ( uc( 'x' ), uc( 'x' ), uc( 'x' ), uc( 'x' ), uc( 'x' ), uc( 'x' ) ), nullptr, pegtl::three< 'x' > )
      ROW( "ascii", "ellipsis", B, 0, ~u64( 0 ), 3, 1, 1, 1, ( uc( '.' ), uc( '.' ), uc( '.' ), uc( '.' ), uc( '.' ), uc( '.' ) ), nullptr, pegtl::ellipsis )
      ROW( "abnf", "ALPHA", B, 0, ~u64( 0 ), 1, 0, 0, 0, (  ), &oracle::rfc5234::ALPHA, pegtl::abnf::ALPHA )
      ROW( "abnf", "BIT", B, 0, ~u64( 0 ), 1, 0, 0, 0, (  ), &oracle::rfc5234::BIT, pegtl::abnf::BIT )
      ROW( "abnf", "CHAR", B, 0, ~u64( 0 ), 1, 0, 0, 0, (  ), &oracle::rfc5234::CHAR, pegtl::abnf::CHAR )
      ROW( "abnf", "CR", B, 0, ~u64( 0 ), 1, 0, 0, 0, (  ), &oracle::rfc5234::CR, pegtl::abnf::CR )
      ROW( "abnf", "CRLF", B, 0, ~u64( 0 ), 2, 1, 1, 0, ( 0x0D, 0x0D, 0x0A, 0x0A ), nullptr, pegtl::abnf::CRLF )
      ROW( "abnf", "CTL", B, 0, ~u64( 0 ), 1, 0, 0, 0, (  ), &oracle::rfc5234::CTL, pegtl::abnf::CTL )
      ROW( "abnf", "DIGIT", B, 0, ~u64( 0 ), 1, 0, 0, 0, (  ), &oracle::rfc5234::DIGIT, pegtl::abnf::DIGIT )
      ROW( "abnf", "DQUOTE", B, 0, ~u64( 0 ), 1, 0, 0, 0, (  ), &oracle::rfc5234::DQUOTE, pegtl::abnf::DQUOTE )
      ROW( "abnf", "HEXDIG", B, 0, ~u64( 0 ), 1, 0, 0, 0, (  ), &oracle::rfc5234::HEXDIG, pegtl::abnf::HEXDIG )
      ROW( "abnf", "HTAB", B, 0, ~u64( 0 ), 1, 0, 0, 0, (  ), &oracle::rfc5234::HTAB, pegtl::abnf::HTAB )
      ROW( "abnf", "LF", B, 0, ~u64( 0 ), 1, 0, 0, 0, (  ), &oracle::rfc5234::LF, pegtl::abnf::LF )
      ROW( "abnf", "OCTET", B, 0, ~u64( 0 ), 1, 0, 0, 0, (  ), &oracle::rfc5234::OCTET, pegtl::abnf::OCTET )
      ROW( "abnf", "SP", B, 0, ~u64( 0 ), 1, 0, 0, 0, (  ), &oracle::rfc5234::SP, pegtl::abnf::SP )
      ROW( "abnf", "VCHAR", B, 0, ~u64( 0 ), 1, 0, 0, 0, (  ), &oracle::rfc5234::VCHAR, pegtl::abnf::VCHAR )
      ROW( "abnf", "WSP", B, 0, ~u64( 0 ), 1, 0, 0, 0, (  ), &oracle::rfc5234::WSP, pegtl::abnf::WSP )
   };

#endif
   // the same packs for utf8, utf16_be/le, utf32_be/le (values are code points)
#define UNICODE_ROWS( NS, E ) \
      ROW( #NS, "any", E, CORE | NOT, ~u64( 0 ), 1, 0, 0, 0, (  ), nullptr, pegtl::NS::any ) \
      ROW( #NS, "bom", E, 0, ~u64( 0 ), 1, 1, 0, 0, ( 0xfeff, 0xfeff ), nullptr, pegtl::NS::bom ) \
      ROW( #NS, "one", E, 0, ~u64( 0 ), 1, 0, 0, 0, (  ), nullptr, pegtl::NS::one<> ) \
      ROW( #NS, "one", E, 0, ~u64( 0 ), 1, 1, 0, 0, ( 0x41, 0x41 ), nullptr, pegtl::NS::one< 0x41 > ) \
      ROW( #NS, "one", E, 0, ~u64( 0 ), 1, 2, 0, 0, ( 0x7f, 0x7f, 0x80, 0x80 ), nullptr, pegtl::NS::one< 0x7f, 0x80 > ) \
      ROW( #NS, "one", E, 0, ~u64( 0 ), 1, 2, 0, 0, ( 0x7ff, 0x7ff, 0x800, 0x800 ), nullptr, pegtl::NS::one< 0x7ff, 0x800 > ) \
      ROW( #NS, "one", E, 0, ~u64( 0 ), 1, 2, 0, 0, ( 0xffff, 0xffff, 0x10000, 0x10000 ), nullptr, pegtl::NS::one< 0xffff, 0x10000 > ) \
      ROW( #NS, "one", E, 0, ~u64( 0 ), 1, 1, 0, 0, ( 0x10ffff, 0x10ffff ), nullptr, pegtl::NS::one< 0x10ffff > ) \
      ROW( #NS, "one", E, 0, ~u64( 0 ), 1, 3, 0, 0, ( 0xd7ff, 0xd7ff, 0xe000, 0xe000, 0, 0 ), nullptr, pegtl::NS::one< 0xd7ff, 0xe000, 0 > ) \
      ROW( #NS, "one", E, 0, ~u64( 0 ), 1, 3, 0, 0, ( 0xd800, 0xd800, 0xdfff, 0xdfff, 0x110000, 0x110000 ), nullptr, pegtl::NS::one< 0xd800, 0xdfff, 0x110000 > ) \
      ROW( #NS, "not_one", E, NOT, ~u64( 0 ), 1, 0, 0, 0, (  ), nullptr, pegtl::NS::not_one<> ) \
      ROW( #NS, "not_one", E, NOT, ~u64( 0 ), 1, 1, 0, 0, ( 0x41, 0x41 ), nullptr, pegtl::NS::not_one< 0x41 > ) \
      ROW( #NS, "not_one", E, NOT, ~u64( 0 ), 1, 2, 0, 0, ( 0x7f, 0x7f, 0x80, 0x80 ), nullptr, pegtl::NS::not_one< 0x7f, 0x80 > ) \
      ROW( #NS, "not_one", E, NOT, ~u64( 0 ), 1, 4, 0, 0, ( 0x7ff, 0x7ff, 0x800, 0x800, 0xffff, 0xffff, 0x10000, 0x10000 ), nullptr, pegtl::NS::not_one< 0x7ff, 0x800, 0xffff, 0x10000 > ) \
      ROW( #NS, "not_one", E, NOT, ~u64( 0 ), 1, 2, 0, 0, ( 0x10ffff, 0x10ffff, 0, 0 ), nullptr, pegtl::NS::not_one< 0x10ffff, 0 > ) \
      ROW( #NS, "not_one", E, NOT, ~u64( 0 ), 1, 3, 0, 0, ( 0xd800, 0xd800, 0xdfff, 0xdfff, 0x110000, 0x110000 ), nullptr, pegtl::NS::not_one< 0xd800, 0xdfff, 0x110000 > ) \
      ROW( #NS, "range", E, 0, ~u64( 0 ), 1, 1, 0, 0, ( 0x20, 0x10ffff ), nullptr, pegtl::NS::range< 0x20, 0x10ffff > ) \
      ROW( #NS, "range", E, 0, ~u64( 0 ), 1, 1, 0, 0, ( 0, 0x7f ), nullptr, pegtl::NS::range< 0, 0x7f > ) \
      ROW( #NS, "range", E, 0, ~u64( 0 ), 1, 1, 0, 0, ( 0x80, 0x7ff ), nullptr, pegtl::NS::range< 0x80, 0x7ff > ) \
      ROW( #NS, "range", E, 0, ~u64( 0 ), 1, 1, 0, 0, ( 0x800, 0xffff ), nullptr, pegtl::NS::range< 0x800, 0xffff > ) \
      ROW( #NS, "range", E, 0, ~u64( 0 ), 1, 1, 0, 0, ( 0x10000, 0x10ffff ), nullptr, pegtl::NS::range< 0x10000, 0x10ffff > ) \
      ROW( #NS, "range", E, 0, ~u64( 0 ), 1, 1, 0, 0, ( 0xd7ff, 0xe000 ), nullptr, pegtl::NS::range< 0xd7ff, 0xe000 > ) \
      ROW( #NS, "range", E, 0, ~u64( 0 ), 1, 1, 0, 0, ( 0xd800, 0xdfff ), nullptr, pegtl::NS::range< 0xd800, 0xdfff > ) \
      ROW( #NS, "range", E, 0, ~u64( 0 ), 1, 1, 0, 0, ( 0x20ac, 0x20ac ), nullptr, pegtl::NS::range< 0x20ac, 0x20ac > ) \
      ROW( #NS, "not_range", E, NOT, ~u64( 0 ), 1, 1, 0, 0, ( 0x20, 0x10ffff ), nullptr, pegtl::NS::not_range< 0x20, 0x10ffff > ) \
      ROW( #NS, "not_range", E, NOT, ~u64( 0 ), 1, 1, 0, 0, ( 0x80, 0x7ff ), nullptr, pegtl::NS::not_range< 0x80, 0x7ff > ) \
      ROW( #NS, "not_range", E, NOT, ~u64( 0 ), 1, 1, 0, 0, ( 0x800, 0xffff ), nullptr, pegtl::NS::not_range< 0x800, 0xffff > ) \
      ROW( #NS, "not_range", E, CORE | NOT, ~u64( 0 ), 1, 1, 0, 0, ( 0x10000, 0x10ffff ), nullptr, pegtl::NS::not_range< 0x10000, 0x10ffff > ) \
      ROW( #NS, "not_range", E, NOT, ~u64( 0 ), 1, 1, 0, 0, ( 0xd7ff, 0xe000 ), nullptr, pegtl::NS::not_range< 0xd7ff, 0xe000 > ) \
      ROW( #NS, "not_range", E, NOT, ~u64( 0 ), 1, 1, 0, 0, ( 0xd800, 0xdfff ), nullptr, pegtl::NS::not_range< 0xd800, 0xdfff > ) \
      ROW( #NS, "not_range", E, NOT, ~u64( 0 ), 1, 1, 0, 0, ( 0x20ac, 0x20ac ), nullptr, pegtl::NS::not_range< 0x20ac, 0x20ac > ) \
      ROW( #NS, "ranges", E, 0, ~u64( 0 ), 1, 0, 0, 0, (  ), nullptr, pegtl::NS::ranges<> ) \
      ROW( #NS, "ranges", E, 0, ~u64( 0 ), 1, 1, 0, 0, ( 0x41, 0x41 ), nullptr, pegtl::NS::ranges< 0x41 > ) \
      ROW( #NS, "ranges", E, 0, ~u64( 0 ), 1, 2, 0, 0, ( 0, 0x7f, 0x800, 0xffff ), nullptr, pegtl::NS::ranges< 0, 0x7f, 0x800, 0xffff > ) \
      ROW( #NS, "ranges", E, 0, ~u64( 0 ), 1, 3, 0, 0, ( 0x80, 0x7ff, 0x10000, 0x10ffff, 0x41, 0x41 ), nullptr, pegtl::NS::ranges< 0x80, 0x7ff, 0x10000, 0x10ffff, 0x41 > ) \
      ROW( #NS, "ranges", E, 0, ~u64( 0 ), 1, 4, 0, 0, ( 0x7f, 0x80, 0x7ff, 0x800, 0xffff, 0x10000, 0x10ffff, 0x10ffff ), nullptr, pegtl::NS::ranges< 0x7f, 0x80, 0x7ff, 0x800, 0xffff, 0x10000, 0x10ffff > ) \
      ROW( #NS, "ranges", E, CORE, ~u64( 0 ), 1, 6, 0, 0, ( 0, 0x3f, 0x80, 0x3ff, 0x800, 0x3fff, 0x10000, 0x3ffff, 0x80000, 0xbffff, 0x10ffff, 0x10ffff ), nullptr, pegtl::NS::ranges< 0, 0x3f, 0x80, 0x3ff, 0x800, 0x3fff, 0x10000, 0x3ffff, 0x80000, 0xbffff, 0x10ffff > ) \
      ROW( #NS, "string", E, 0, ~u64( 0 ), 1, 1, 0, 0, ( 0x20ac, 0x20ac ), nullptr, pegtl::NS::string< 0x20ac > ) \
      ROW( #NS, "string", E, 0, ~u64( 0 ), 2, 1, 1, 0, ( 0x41, 0x41, 0x20ac, 0x20ac ), nullptr, pegtl::NS::string< 0x41, 0x20ac > ) \
      ROW( #NS, "string", E, 0, ~u64( 0 ), 3, 1, 1, 1, ( 0x10ffff, 0x10ffff, 0x7f, 0x7f, 0x80, 0x80 ), nullptr, pegtl::NS::string< 0x10ffff, 0x7f, 0x80 > ) \
      ROW( #NS, "string", E, 0, ~u64( 0 ), 2, 1, 1, 0, ( 0x10000, 0x10000, 0xffff, 0xffff ), nullptr, pegtl::NS::string< 0x10000, 0xffff > ) \

#if HAS( 0 )
   constexpr spec utf8_rows[] = { UNICODE_ROWS( utf8, enc::utf8 ) };
#endif
#if HAS( 1 )
   constexpr spec utf16_be_rows[] = { UNICODE_ROWS( utf16_be, enc::utf16_be ) };
   constexpr spec utf16_le_rows[] = { UNICODE_ROWS( utf16_le, enc::utf16_le ) };
   constexpr spec utf32_be_rows[] = { UNICODE_ROWS( utf32_be, enc::utf32_be ) };
   constexpr spec utf32_le_rows[] = { UNICODE_ROWS( utf32_le, enc::utf32_le ) };
#endif

   // binary rules: constants with all bytes different (a wrong byte order changes the value); LO's bits are a
   // subset of HI's and LO2's of HI2's, so that ( LO & M ) <= ( HI & M ) for every mask M
#define UINT_PLAIN_ROWS( ... ) UINT_PLAIN_ROWS_( __VA_ARGS__ )
#define UINT_MASKED_ROWS( ... ) UINT_MASKED_ROWS_( __VA_ARGS__ )
#define ALL1 ~u64( 0 )
#define UINT_PLAIN_ROWS_( NS, E, T, K1, K2, LO, HI, LO2, HI2 ) \
      ROW( #NS, "any", E, CORE | NOT, ALL1, 1, 0, 0, 0, (), nullptr, pegtl::NS::any ) \
      ROW( #NS, "one", E, 0, ALL1, 1, 0, 0, 0, (), nullptr, pegtl::NS::one<> ) \
      ROW( #NS, "one", E, NAME | PTS, ALL1, 1, 1, 0, 0, ( T( K1 ), T( K1 ) ), nullptr, pegtl::NS::one< T( K1 ) > ) \
      ROW( #NS, "one", E, NAME | PTS, ALL1, 1, 3, 0, 0, ( T( K1 ), T( K1 ), T( K2 ), T( K2 ), T( LO ), T( LO ) ), nullptr, pegtl::NS::one< T( K1 ), T( K2 ), T( LO ) > ) \
      ROW( #NS, "not_one", E, NOT, ALL1, 1, 0, 0, 0, (), nullptr, pegtl::NS::not_one<> ) \
      ROW( #NS, "not_one", E, NAME | PTS | NOT, ALL1, 1, 1, 0, 0, ( T( K1 ), T( K1 ) ), nullptr, pegtl::NS::not_one< T( K1 ) > ) \
      ROW( #NS, "not_one", E, NAME | PTS | NOT, ALL1, 1, 3, 0, 0, ( T( K1 ), T( K1 ), T( K2 ), T( K2 ), T( HI ), T( HI ) ), nullptr, pegtl::NS::not_one< T( K1 ), T( K2 ), T( HI ) > ) \
      ROW( #NS, "range", E, NAME | CORE, ALL1, 1, 1, 0, 0, ( T( LO ), T( HI ) ), nullptr, pegtl::NS::range< T( LO ), T( HI ) > ) \
      ROW( #NS, "range", E, NAME, ALL1, 1, 1, 0, 0, ( T( K1 ), T( K1 ) ), nullptr, pegtl::NS::range< T( K1 ), T( K1 ) > ) \
      ROW( #NS, "range", E, NAME, ALL1, 1, 1, 0, 0, ( 0, T( ~T( 0 ) ) ), nullptr, pegtl::NS::range< T( 0 ), T( ~T( 0 ) ) > ) \
      ROW( #NS, "not_range", E, NAME | NOT, ALL1, 1, 1, 0, 0, ( T( LO ), T( HI ) ), nullptr, pegtl::NS::not_range< T( LO ), T( HI ) > ) \
      ROW( #NS, "not_range", E, NAME | NOT, ALL1, 1, 1, 0, 0, ( T( K2 ), T( K2 ) ), nullptr, pegtl::NS::not_range< T( K2 ), T( K2 ) > ) \
      ROW( #NS, "ranges", E, 0, ALL1, 1, 0, 0, 0, (), nullptr, pegtl::NS::ranges<> ) \
      ROW( #NS, "ranges", E, NAME | PTS, ALL1, 1, 1, 0, 0, ( T( K2 ), T( K2 ) ), nullptr, pegtl::NS::ranges< T( K2 ) > ) \
      ROW( #NS, "ranges", E, NAME, ALL1, 1, 2, 0, 0, ( T( LO ), T( HI ), T( LO2 ), T( HI2 ) ), nullptr, pegtl::NS::ranges< T( LO ), T( HI ), T( LO2 ), T( HI2 ) > ) \
      ROW( #NS, "ranges", E, NAME | ODD, ALL1, 1, 3, 0, 0, ( T( LO ), T( HI ), T( LO2 ), T( HI2 ), T( K2 ), T( K2 ) ), nullptr, pegtl::NS::ranges< T( LO ), T( HI ), T( LO2 ), T( HI2 ), T( K2 ) > ) \
      ROW( #NS, "string", E, NAME | PTS, ALL1, 1, 1, 0, 0, ( T( K1 ), T( K1 ) ), nullptr, pegtl::NS::string< T( K1 ) > ) \
      ROW( #NS, "string", E, NAME | PTS, ALL1, 2, 1, 1, 0, ( T( K1 ), T( K1 ), T( K2 ), T( K2 ) ), nullptr, pegtl::NS::string< T( K1 ), T( K2 ) > ) \
      ROW( #NS, "mask_one", E, NAME | PTS | MASKED, 0xff, 1, 1, 0, 0, ( T( K1 ), T( K1 ) ), nullptr, pegtl::NS::mask_one< T( 0xff ), T( K1 ) > )

#define AM( T, X, M ) T( T( X ) & T( M ) )
#define UINT_MASKED_ROWS_( NS, E, T, M, K1, K2, LO, HI, LO2, HI2 ) \
      ROW( #NS, "mask_one", E, NAME | PTS | MASKED, T( M ), 1, 2, 0, 0, ( AM( T, K1, M ), AM( T, K1, M ), AM( T, K2, M ), AM( T, K2, M ) ), nullptr, pegtl::NS::mask_one< T( M ), AM( T, K1, M ), AM( T, K2, M ) > ) \
      ROW( #NS, "mask_not_one", E, NAME | PTS | MASKED | NOT, T( M ), 1, 1, 0, 0, ( AM( T, K1, M ), AM( T, K1, M ) ), nullptr, pegtl::NS::mask_not_one< T( M ), AM( T, K1, M ) > ) \
      ROW( #NS, "mask_range", E, NAME | MASKED, T( M ), 1, 1, 0, 0, ( AM( T, LO, M ), AM( T, HI, M ) ), nullptr, pegtl::NS::mask_range< T( M ), AM( T, LO, M ), AM( T, HI, M ) > ) \
      ROW( #NS, "mask_not_range", E, NAME | MASKED | NOT, T( M ), 1, 1, 0, 0, ( AM( T, LO, M ), AM( T, HI, M ) ), nullptr, pegtl::NS::mask_not_range< T( M ), AM( T, LO, M ), AM( T, HI, M ) > ) \
      ROW( #NS, "mask_ranges", E, NAME | MASKED, T( M ), 1, 2, 0, 0, ( AM( T, LO, M ), AM( T, HI, M ), AM( T, LO2, M ), AM( T, HI2, M ) ), nullptr, pegtl::NS::mask_ranges< T( M ), AM( T, LO, M ), AM( T, HI, M ), AM( T, LO2, M ), AM( T, HI2, M ) > ) \
      ROW( #NS, "mask_ranges", E, NAME | MASKED | ODD, T( M ), 1, 3, 0, 0, ( AM( T, LO, M ), AM( T, HI, M ), AM( T, LO2, M ), AM( T, HI2, M ), AM( T, K2, M ), AM( T, K2, M ) ), nullptr, pegtl::NS::mask_ranges< T( M ), AM( T, LO, M ), AM( T, HI, M ), AM( T, LO2, M ), AM( T, HI2, M ), AM( T, K2, M ) > ) \
      ROW( #NS, "mask_string", E, NAME | PTS | MASKED, T( M ), 2, 1, 1, 0, ( AM( T, K1, M ), AM( T, K1, M ), AM( T, K2, M ), AM( T, K2, M ) ), nullptr, pegtl::NS::mask_string< T( M ), AM( T, K1, M ), AM( T, K2, M ) > )

#define U8_ARGS 0x12, 0xfe, 0x10, 0x7a, 0x80, 0xc5
#define U16_ARGS 0x1234, 0xfe01, 0x0100, 0x7f02, 0x8000, 0xc0f0
#define U32_ARGS 0x12345678, 0xfedcba98, 0x01000000, 0x7f020301, 0x80000000, 0xc00000f0
#define U64_ARGS 0x0123456789abcdefull, 0xfedcba9876543210ull, 0x0100000000000000ull, 0x7f02030405060708ull, 0x8000000000000000ull, 0xc0000000000000f0ull

#define U8M( M ) UINT_MASKED_ROWS( uint8, enc::uint8, std::uint8_t, M, U8_ARGS )
#if HAS( 2 )
   constexpr spec uint8_rows[] = {
      UINT_PLAIN_ROWS( uint8, enc::uint8, std::uint8_t, U8_ARGS )
      U8M( 0x00 ) U8M( 0xff ) U8M( 0xf0 ) U8M( 0x0f ) U8M( 0x80 ) U8M( 0x01 ) U8M( 0x7f ) U8M( 0x55 ) U8M( 0xaa ) U8M( 0x3c )
   };

#endif
#define U16M( NS, E, M ) UINT_MASKED_ROWS( NS, E, std::uint16_t, M, U16_ARGS )
#define U16_ROWS( NS, E ) UINT_PLAIN_ROWS( NS, E, std::uint16_t, U16_ARGS ) \
      U16M( NS, E, 0x0000 ) U16M( NS, E, 0xffff ) U16M( NS, E, 0xff00 ) U16M( NS, E, 0x00ff ) U16M( NS, E, 0x8000 ) U16M( NS, E, 0x0001 ) \
      U16M( NS, E, 0x7fff ) U16M( NS, E, 0xf00f ) U16M( NS, E, 0x0ff0 ) U16M( NS, E, 0x5555 ) U16M( NS, E, 0xaaaa ) U16M( NS, E, 0x8001 )
#if HAS( 4 )
   constexpr spec uint16_be_rows[] = { U16_ROWS( uint16_be, enc::uint16_be ) };
   constexpr spec uint16_le_rows[] = { U16_ROWS( uint16_le, enc::uint16_le ) };

#endif
#define U32M( NS, E, M ) UINT_MASKED_ROWS( NS, E, std::uint32_t, M, U32_ARGS )
#define U32_ROWS( NS, E ) UINT_PLAIN_ROWS( NS, E, std::uint32_t, U32_ARGS ) \
      U32M( NS, E, 0x00000000 ) U32M( NS, E, 0xffffffff ) U32M( NS, E, 0xff000000 ) U32M( NS, E, 0x000000ff ) \
      U32M( NS, E, 0x80000001 ) U32M( NS, E, 0x00ffff00 ) U32M( NS, E, 0x55555555 ) U32M( NS, E, 0x0f0f0f0f )
#if HAS( 5 )
   constexpr spec uint32_be_rows[] = { U32_ROWS( uint32_be, enc::uint32_be ) };
   constexpr spec uint32_le_rows[] = { U32_ROWS( uint32_le, enc::uint32_le ) };

#endif
#define U64M( NS, E, M ) UINT_MASKED_ROWS( NS, E, std::uint64_t, M, U64_ARGS )
#define U64_ROWS( NS, E ) UINT_PLAIN_ROWS( NS, E, std::uint64_t, U64_ARGS ) \
      U64M( NS, E, 0x0000000000000000ull ) U64M( NS, E, 0xffffffffffffffffull ) U64M( NS, E, 0xff00000000000000ull ) U64M( NS, E, 0x00000000000000ffull ) \
      U64M( NS, E, 0x8000000000000001ull ) U64M( NS, E, 0x00ffffffffffff00ull ) U64M( NS, E, 0x5555555555555555ull ) U64M( NS, E, 0x0f0f0f0f0f0f0f0full )
#if HAS( 5 )
   constexpr spec uint64_be_rows[] = { U64_ROWS( uint64_be, enc::uint64_be ) };
   constexpr spec uint64_le_rows[] = { U64_ROWS( uint64_le, enc::uint64_le ) };

#endif

   // uint8: mask_one and mask_not_range for every one of the 256 masks (two halves: compile time)
   template< std::size_t Base, std::size_t... Is >
   [[maybe_unused]] void load_uint8_masks( std::index_sequence< Is... > /*unused*/ )
   {
      using u8 = std::uint8_t;
      static constexpr spec rows[] = {
         spec{ "uint8", "mask_one", "", enc::uint8, &parse_rule< pegtl::uint8::mask_one< u8( Base + Is ), u8( ( Base + Is ) & 0xA5 ) > >, NAME | PTS | MASKED, u64( Base + Is ), 1, { 1, 0, 0 }, { ( Base + Is ) & 0xA5, ( Base + Is ) & 0xA5 }, nullptr }...,
         spec{ "uint8", "mask_not_range", "", enc::uint8, &parse_rule< pegtl::uint8::mask_not_range< u8( Base + Is ), u8( ( Base + Is ) & 0x18 ), u8( ( Base + Is ) & 0x3C ) > >, NAME | MASKED | NOT, u64( Base + Is ), 1, { 1, 0, 0 }, { ( Base + Is ) & 0x18, ( Base + Is ) & 0x3C }, nullptr }...
      };
      load_all( rows );
   }

   void register_rules()
   {
#if HAS( 0 )
      load_all( ascii_rows );
      load_all( utf8_rows );
#endif
#if HAS( 1 )
      load_all( utf16_be_rows );
      load_all( utf16_le_rows );
      load_all( utf32_be_rows );
      load_all( utf32_le_rows );
#endif
#if HAS( 2 )
      load_all( uint8_rows );
      load_uint8_masks< 0 >( std::make_index_sequence< 128 >() );
#endif
#if HAS( 3 )
      load_uint8_masks< 128 >( std::make_index_sequence< 128 >() );
#endif
#if HAS( 4 )
      load_all( uint16_be_rows );
      load_all( uint16_le_rows );
#endif
#if HAS( 5 )
      load_all( uint32_be_rows );
      load_all( uint32_le_rows );
      load_all( uint64_be_rows );
      load_all( uint64_le_rows );
#endif
   }

#if HAS( 0 ) || HAS( 2 ) || HAS( 3 )
   // ------------------------------------------------------------------ A: one-byte rules (ascii, abnf, uint8): all 256 bytes
   void part_byte_classes( const std::string& fam )
   {
      group& g = grp( fam );
      for( entry* r : g.single ) {
         verif::guarded_buffer &b0 = exact( 0 ), &b1 = exact( 1 ), &b2 = exact( 2 );
         if( !V.begin_case( "C10", r->label, b1.base, 1 ) ) continue;
         const vset& s = r->seq[ 0 ];
         use( b0 );
         judge( *r, b0.base, 0, false, 0 );
         ++g_empty_inputs;
         use( b1 );
         int member = -1, other = -1;
         for( unsigned v = 0; v < 256; ++v ) {
            b1.base[ 0 ] = char( v );
            const bool in = s.has( v );
            judge( *r, b1.base, 1, in, 1 );
            if( in && member < 0 ) member = int( v );
            if( !in && other < 0 ) other = int( v );
         }
         use( b2 );  // trailing bytes after the unit
         for( unsigned v = 0; v < 256; ++v )
            for( const unsigned t : { 0x00u, 0x61u, 0x80u, 0xffu, v, v ^ 0x20u } ) {
               b2.base[ 0 ] = char( v );
               b2.base[ 1 ] = char( t );
               judge( *r, b2.base, 2, s.has( v ), 1 );
            }
         // poisoned tail holding a member byte: an over-read would turn the rejection into a match
         if( member >= 0 ) {
            const std::string m( 1, char( member ) );
            {
               verif::guarded_buffer p( std::string(), 1, m );
               judge( *r, p.begin(), 0, false, 0 );
               ++g_empty_inputs;
            }
            {
               verif::guarded_buffer p( m, 1, m );
               V.cur_data = p.base;
               judge( *r, p.begin(), 1, true, 1 );
               V.cur_data = nullptr;
            }
            if( other >= 0 ) {
               verif::guarded_buffer p( std::string( 1, char( other ) ), 1, m );
               V.cur_data = p.base;
               judge( *r, p.begin(), 1, false, 0 );
               V.cur_data = nullptr;
            }
         }
         V.cur_len = 0;
      }
   }

   // ------------------------------------------------------------------ B: byte strings (string, istring, two, three, CRLF, uint8::string ...)
   void sweep_alphabet( entry& r, const std::vector< unsigned char >& alpha, const std::size_t len )
   {
      verif::guarded_buffer& gb = exact( len );
      use( gb );
      std::vector< std::size_t > idx( len, 0 );
      for( ;; ) {
         for( std::size_t i = 0; i < len; ++i ) gb.base[ i ] = char( alpha[ idx[ i ] ] );
         judge_seq( r, gb.base, len );
         std::size_t k = 0;
         while( k < len && ++idx[ k ] == alpha.size() ) idx[ k++ ] = 0;
         if( k == len ) break;
      }
   }

   void part_byte_strings( const std::string& fam )
   {
      group& g = grp( fam );
      for( entry* r : g.multi ) {
         verif::guarded_buffer &b0 = exact( 0 ), &b1 = exact( 1 ), &b2 = exact( 2 ), &b3 = exact( 3 );
         if( !V.begin_case( "C10", r->label, b2.base, 2 ) ) continue;
         use( b0 );
         judge_seq( *r, b0.base, 0 );
         ++g_empty_inputs;
         use( b1 );
         for( unsigned v = 0; v < 256; ++v ) {
            b1.base[ 0 ] = char( v );
            judge_seq( *r, b1.base, 1 );
         }
         use( b2 );  // all 2^16 two-byte inputs
         for( unsigned v = 0; v < 65536; ++v ) {
            b2.base[ 0 ] = char( v >> 8 );
            b2.base[ 1 ] = char( v & 255 );
            judge_seq( *r, b2.base, 2 );
         }
         use( b3 );  // ... and with one more byte behind them
         for( unsigned v = 0; v < 65536; ++v ) {
            b3.base[ 0 ] = char( v >> 8 );
            b3.base[ 1 ] = char( v & 255 );
            b3.base[ 2 ] = char( ( v >> 8 ) ^ 0x20 );
            judge_seq( *r, b3.base, 3 );
         }
         if( r->seq.size() >= 3 ) {
            // alphabet: the rule's own bytes and their neighbours under the folds a wrong implementation could apply
            std::vector< unsigned char > alpha = { 0x00, 0xff };
            for( const vset& s : r->seq )
               for( const auto& sp : s.spans )
                  for( const u64 x : { sp.first, sp.first ^ 0x20, sp.first ^ 0x80, sp.first ^ 0xA0, sp.first + 1, sp.first - 1, sp.first ^ 0x40 } ) alpha.push_back( static_cast< unsigned char >( x ) );
            std::sort( alpha.begin(), alpha.end() );
            alpha.erase( std::unique( alpha.begin(), alpha.end() ), alpha.end() );
            sweep_alphabet( *r, alpha, 3 );
            if( alpha.size() > 12 ) alpha.resize( 12 );
            sweep_alphabet( *r, alpha, 4 );
         }
         // truncated by one byte, the missing byte sitting in the poisoned tail
         if( !r->seq.empty() ) {
            std::string full;
            for( const vset& s : r->seq ) full += char( s.spans.empty() ? 0 : s.spans[ 0 ].first );
            const std::string cut = full.substr( 0, full.size() - 1 );
            verif::guarded_buffer p( cut, 1, full.substr( full.size() - 1 ) );
            V.cur_data = p.base;
            V.cur_len = p.size;
            judge_seq( *r, p.begin(), cut.size() );
            if( cut.empty() ) ++g_empty_inputs;
            V.cur_data = nullptr;
         }
         V.cur_len = 0;
         V.sample( "{\"part\":\"byte strings\",\"rule\":\"" + verif::jesc( r->name ) + "\",\"inputs\":\"empty, all 256 one-byte, all 65536 two-byte, 65536 three-byte\"}" );
      }
   }

#endif
#if HAS( 0 )
   // ------------------------------------------------------------------ L: abnf::LWSP against RFC 5234 "LWSP = *(WSP / CRLF WSP)"
   [[maybe_unused]] void part_lwsp()
   {
      static const char sym[] = { ' ', '\t', '\r', '\n', 'x' };
      if( !V.begin_case( "C10", "abnf::LWSP" ) ) return;
      long n_cases = 0;
      for( std::size_t len = 0; len <= 6; ++len ) {
         verif::guarded_buffer& gb = exact( len );
         use( gb );
         std::size_t total = 1;
         for( std::size_t i = 0; i < len; ++i ) total *= 5;
         for( std::size_t code = 0; code < total; ++code ) {
            std::size_t c = code;
            for( std::size_t i = 0; i < len; ++i ) {
               gb.base[ i ] = sym[ c % 5 ];
               c /= 5;
            }
            const std::size_t exp = oracle::rfc5234::LWSP( reinterpret_cast< const unsigned char* >( gb.base ), len );
            const int got = run_on( &parse_rule< pegtl::abnf::LWSP >, gb.base, gb.base + len );
            ++n_cases;
            V.count( exp ? "abnf:LWSP:consumes" : "abnf:LWSP:consumes-nothing" );
            if( got != int( exp ) ) {
               V.violation( "C10", std::string( "C10|abnf::LWSP|" ) + ( got < 0 ? "false-reject" : "wrong-length" ),
                            "abnf::LWSP on " + verif::show( std::string( gb.base, len ) ) + " (" + verif::hex( gb.base, len ) + "): RFC 5234 *(WSP / CRLF WSP) matches " + std::to_string( exp ) + " bytes, got " + describe( got ),
                            "{\"rule\":\"abnf::LWSP\",\"input_hex\":\"" + verif::hex( gb.base, len ) + "\",\"expected\":" + std::to_string( exp ) + ",\"got\":" + std::to_string( got ) + "}" );
            }
         }
      }
      V.evaluations += n_cases;
      V.nontrivial += n_cases - 1;
      V.cur_len = 0;
   }

#endif
   // ------------------------------------------------------------------ shared helpers for the multi-byte encodings
   [[maybe_unused]] long g_truncated = 0;  // candidates that are a proper prefix of a well-formed unit (all must be rejected)

   [[maybe_unused]] inline void note_truncated( const enc e, const char* b, const std::size_t n )
   {
      if( oracle::truncated_unit( e, reinterpret_cast< const unsigned char* >( b ), n ) ) ++g_truncated;
   }

   // UTF-8 style bytes for any value below 2^21 in a chosen length, with no validity check (overlongs, surrogates, > U+10FFFF)
#if HAS( 0 ) || HAS( 1 )
   [[maybe_unused]] std::string raw_utf8( const u64 v, const unsigned len )
   {
      std::string s;
      if( len == 1 ) s += char( v & 0x7f );
      if( len == 2 ) { s += char( 0xC0 | ( ( v >> 6 ) & 0x1f ) ); s += char( 0x80 | ( v & 0x3f ) ); }
      if( len == 3 ) { s += char( 0xE0 | ( ( v >> 12 ) & 0x0f ) ); s += char( 0x80 | ( ( v >> 6 ) & 0x3f ) ); s += char( 0x80 | ( v & 0x3f ) ); }
      if( len == 4 ) { s += char( 0xF0 | ( ( v >> 18 ) & 0x07 ) ); s += char( 0x80 | ( ( v >> 12 ) & 0x3f ) ); s += char( 0x80 | ( ( v >> 6 ) & 0x3f ) ); s += char( 0x80 | ( v & 0x3f ) ); }
      return s;
   }

   // every value 0 .. top in blocks of 0x1000: the encoding of each scalar value (all rules; with a trailing unit: core rules),
   // plus what a careless encoder would write for the non-scalar ones and, for UTF-8, the overlong forms
   void part_scalar_sweep( const std::string& fam )
   {
      group& g = grp( fam );
      const enc e = g.e;
      const bool is8 = ( e == enc::utf8 ), is16 = ( e == enc::utf16_be || e == enc::utf16_le );
      const u64 top = is16 ? 0x110000 : 0x120000;
      for( u64 base = 0; base < top; base += 0x1000 ) {
         if( !V.begin_case( "C10", g.single[ 0 ]->label ) ) continue;
         for( u64 cp = base; cp < base + 0x1000; ++cp ) {
            std::string bytes = oracle::encode_unit( e, cp );
            if( bytes.empty() ) {
               if( is8 ) bytes = raw_utf8( cp, cp < 0x10000 ? 3 : 4 );
               else bytes = oracle::encode_unit( e == enc::utf16_be ? enc::uint16_be : enc::uint16_le, cp );  // lone surrogate unit
            }
            verif::guarded_buffer& gb = exact( bytes.size() );
            fill( gb, bytes );
            judge_list( g.single, e, use( gb ), bytes.size() );
            // the same unit followed by bytes that look like the start of another one
            verif::guarded_buffer& gt = exact( bytes.size() + 2 );
            fill( gt, bytes );
            gt.base[ bytes.size() ] = is8 ? '\x80' : '\xdc';
            gt.base[ bytes.size() + 1 ] = is8 ? '\xbf' : '\xdc';
            judge_list( g.core, e, use( gt ), bytes.size() + 2 );
            if( is8 ) {
               for( unsigned len = ( cp < 0x80 ? 2 : cp < 0x800 ? 3 : 4 ); len <= 4 && cp < 0x10000; ++len ) {
                  const std::string ov = raw_utf8( cp, len );
                  verif::guarded_buffer& go = exact( len );
                  fill( go, ov );
                  judge_list( len == 4 ? g.single : g.core, e, use( go ), len );
                  V.count( "sweep:utf8:overlong-form" );
               }
            }
         }
         V.count( "sweep:" + fam + ":code-point", 0x1000 );
      }
      V.cur_len = 0;
   }

   // multi-unit rules (string<...>) and unit boundaries: all concatenations of k units from a pool that holds the
   // rule's own code points / values, their neighbours and ill-formed units; every truncation of each concatenation
#endif
   [[maybe_unused]] void part_unit_strings( const std::string& fam, const std::vector< std::string >& bad_units )
   {
      group& g = grp( fam );
      const enc e = g.e;
      for( entry* r : g.multi ) {
         if( !V.begin_case( "C10", r->label ) ) continue;
         std::vector< std::string > pool;
         for( const vset& s : r->seq )
            for( const auto& sp : s.spans )
               for( const u64 x : { sp.first, sp.first + 1, sp.first - 1 } ) {
                  const std::string u = oracle::encode_unit( e, x );
                  if( !u.empty() ) pool.push_back( u );
               }
         for( const std::string& b : bad_units ) pool.push_back( b );
         std::sort( pool.begin(), pool.end() );
         pool.erase( std::unique( pool.begin(), pool.end() ), pool.end() );
         const std::size_t k = r->seq.size();
         std::vector< std::size_t > idx( k, 0 );
         for( ;; ) {
            std::string cat;
            for( std::size_t i = 0; i < k; ++i ) cat += pool[ idx[ i ] ];
            for( std::size_t len = 0; len <= cat.size(); ++len ) {
               verif::guarded_buffer& gb = exact( len );
               std::memcpy( gb.base, cat.data(), len );
               use( gb );
               judge_seq( *r, gb.base, len );
               if( len == 0 ) ++g_empty_inputs;
            }
            {
               const std::string more = cat + pool[ idx[ 0 ] ];
               verif::guarded_buffer& gb = exact( more.size() );
               fill( gb, more );
               use( gb );
               judge_seq( *r, gb.base, more.size() );
               judge_list( g.core, e, gb.base, more.size() );
            }
            if( cat.size() > 1 ) {
               verif::guarded_buffer p( cat.substr( 0, cat.size() - 1 ), 1, cat.substr( cat.size() - 1 ) );
               V.cur_data = p.base;
               V.cur_len = p.size;
               judge_seq( *r, p.begin(), cat.size() - 1 );
               V.cur_data = nullptr;
               V.cur_len = 0;
            }
            std::size_t j = 0;
            while( j < k && ++idx[ j ] == pool.size() ) idx[ j++ ] = 0;
            if( j == k ) break;
         }
         V.count( "sweep:" + fam + ":string-rule-x-pool-unit", long( pool.size() ) );
      }
      V.cur_len = 0;
   }

   // boundary units: every proper prefix on an exact block, on a poisoned block whose tail holds the missing bytes,
   // and at an odd address; the whole unit likewise. All rules of the family.
   [[maybe_unused]] void part_truncations( const std::string& fam, const std::vector< std::string >& units )
   {
      group& g = grp( fam );
      if( !V.begin_case( "C10", g.single[ 0 ]->label ) ) return;
      for( const std::string& u : units ) {
         for( std::size_t len = 0; len <= u.size(); ++len ) {
            const std::string pre = u.substr( 0, len );
            note_truncated( g.e, pre.data(), len );
            probe_exact( g, pre );
            probe_poisoned( g, pre, len < u.size() ? u.substr( len ) : u );
            probe_unaligned( g, pre );
         }
         probe_exact( g, u + u );
      }
      V.count( "sweep:" + fam + ":boundary-units-truncated-everywhere", long( units.size() ) );
      V.sample( "{\"part\":\"truncations\",\"family\":\"" + fam + "\",\"unit_hex\":\"" + verif::hex( units.back() ) + "\",\"runs\":\"every prefix: exact block, poisoned block holding the missing bytes, odd address; all rules of the family\"}" );
      V.cur_len = 0;
   }

#if HAS( 0 )
   // ------------------------------------------------------------------ C: UTF-8
   const unsigned char cont_boundary[] = { 0x00, 0x7f, 0x80, 0x8f, 0x90, 0x9f, 0xa0, 0xbf, 0xc0, 0xff };

   void part_utf8()
   {
      group& g = grp( "utf8" );
      const enc e = enc::utf8;
      // lengths 0 and 1
      if( V.begin_case( "C10", "utf8::any" ) ) {
         probe_exact( g, std::string() );
         verif::guarded_buffer& b1 = exact( 1 );
         use( b1 );
         for( unsigned v = 0; v < 256; ++v ) {
            b1.base[ 0 ] = char( v );
            note_truncated( e, b1.base, 1 );
            judge_group( g, b1.base, 1 );
         }
         V.count( "sweep:utf8:all-1-byte", 256 );
      }
      // all two-byte inputs
      for( unsigned hi = 0; hi < 256; hi += 16 ) {
         verif::guarded_buffer& b2 = exact( 2 );
         if( !V.begin_case( "C10", "utf8::any", b2.base, 2 ) ) continue;
         for( unsigned v = hi << 8; v < ( ( hi + 16 ) << 8 ); ++v ) {
            b2.base[ 0 ] = char( v >> 8 );
            b2.base[ 1 ] = char( v & 255 );
            note_truncated( e, b2.base, 2 );
            judge_group( g, b2.base, 2 );
         }
         V.count( "sweep:utf8:all-2-byte", 4096 );
      }
      // all three-byte inputs: every rule where the lead byte starts a multi-byte form, the core rules elsewhere
      for( unsigned lead = 0; lead < 256; ++lead ) {
         verif::guarded_buffer& b3 = exact( 3 );
         if( !V.begin_case( "C10", "utf8::any", b3.base, 3 ) ) continue;
         const std::vector< entry* >& rs = ( lead >= 0xC0 || V.thorough() ) ? g.single : g.core;
         b3.base[ 0 ] = char( lead );
         for( unsigned v = 0; v < 65536; ++v ) {
            b3.base[ 1 ] = char( v >> 8 );
            b3.base[ 2 ] = char( v & 255 );
            note_truncated( e, b3.base, 3 );
            judge_list( rs, e, b3.base, 3 );
         }
         V.count( "sweep:utf8:all-3-byte", 65536 );
      }
      // four-byte inputs: every lead byte x boundary values of the three following bytes
      for( unsigned hi = 0; hi < 256; hi += 16 ) {
         verif::guarded_buffer& b4 = exact( 4 );
         if( !V.begin_case( "C10", "utf8::any", b4.base, 4 ) ) continue;
         for( unsigned lead = hi; lead < hi + 16; ++lead )
            for( const unsigned char c1 : cont_boundary )
               for( const unsigned char c2 : cont_boundary )
                  for( const unsigned char c3 : cont_boundary ) {
                     b4.base[ 0 ] = char( lead );
                     b4.base[ 1 ] = char( c1 );
                     b4.base[ 2 ] = char( c2 );
                     b4.base[ 3 ] = char( c3 );
                     judge_group( g, b4.base, 4 );
                  }
         V.count( "sweep:utf8:4-byte-boundary", 16 * 1000 );
      }
      // thorough: the whole four-byte space with a lead byte >= 0xC0, core rules
      if( V.thorough() ) {
         for( unsigned top = 0xC000; top < 0x10000; ++top ) {
            verif::guarded_buffer& b4 = exact( 4 );
            if( !V.begin_case( "C10", "utf8::any", b4.base, 4 ) ) continue;
            b4.base[ 0 ] = char( top >> 8 );
            b4.base[ 1 ] = char( top & 255 );
            for( unsigned v = 0; v < 65536; ++v ) {
               b4.base[ 2 ] = char( v >> 8 );
               b4.base[ 3 ] = char( v & 255 );
               judge_list( g.core, e, b4.base, 4 );
            }
            V.count( "sweep:utf8:all-4-byte-lead>=C0", 65536 );
         }
      }
      V.cur_len = 0;
   }

   std::vector< std::string > utf8_bad_units()
   {
      return { "\xC0\x80", "\xC1\xBF", "\xE0\x80\x80", "\xE0\x9F\xBF", "\xED\xA0\x80", "\xED\xBF\xBF", "\xF0\x80\x80\x80", "\xF0\x8F\xBF\xBF", "\xF4\x90\x80\x80", "\xF7\xBF\xBF\xBF",
               "\xF8\x88\x80\x80\x80", "\x80", "\xBF", "\xFE", "\xFF", "\xE2\x82", "\xF0\x9F\x98", "\xC3" };
   }

#endif
#if HAS( 0 ) || HAS( 1 )
   [[maybe_unused]] std::vector< std::string > boundary_units( const enc e )
   {
      std::vector< std::string > r;
      for( const u64 cp : { 0x0ull, 0x41ull, 0x7full, 0x80ull, 0x7ffull, 0x800ull, 0xfffull, 0x1000ull, 0x20acull, 0xd7ffull, 0xe000ull, 0xfeffull, 0xfffdull, 0xffffull, 0x10000ull, 0x3ffffull, 0x40000ull, 0xfffffull, 0x100000ull, 0x10ffffull } ) r.push_back( oracle::encode_unit( e, cp ) );
      return r;
   }

#endif
#if HAS( 1 )
   // ------------------------------------------------------------------ D: UTF-16 (both byte orders see the same byte strings)
   std::vector< unsigned > utf16_unit_pool()
   {
      std::vector< unsigned > u = { 0x0000, 0x0001, 0x0041, 0x007f, 0x0080, 0x00ff, 0x0100, 0x07ff, 0x0800, 0x1234, 0x3412, 0x20ac, 0xac20, 0xd7fe, 0xd7ff, 0xd800, 0xd801, 0xdabc, 0xdbfe, 0xdbff,
                                    0xdc00, 0xdc01, 0xdeaf, 0xdffe, 0xdfff, 0xe000, 0xe001, 0xfefe, 0xfeff, 0xfffe, 0xffff, 0x00d8, 0xffd7, 0xffdb, 0x00dc, 0xffdf, 0x00e0, 0x01d8, 0x01dc, 0xd8d8, 0xdcdc, 0xdbdf, 0xdfdb };
      verif::rng r( V.seed * 7919 + 16 );
      const std::size_t want = V.thorough() ? 512 : 192;
      while( u.size() < want ) {
         const unsigned k = unsigned( r.below( 4 ) );
         u.push_back( k == 0 ? unsigned( r.below( 0x10000 ) ) : k == 1 ? 0xd800 + unsigned( r.below( 0x400 ) ) : k == 2 ? 0xdc00 + unsigned( r.below( 0x400 ) ) : ( ( 0xd8 + unsigned( r.below( 8 ) ) ) | unsigned( r.below( 256 ) << 8 ) ) );
      }
      std::sort( u.begin(), u.end() );
      u.erase( std::unique( u.begin(), u.end() ), u.end() );
      return u;
   }

   void part_utf16()
   {
      group& be = grp( "utf16_be" );
      group& le = grp( "utf16_le" );
      if( V.begin_case( "C10", "utf16_be::any" ) ) {
         probe_exact( be, std::string() );
         probe_exact( le, std::string() );
         verif::guarded_buffer& b1 = exact( 1 );
         use( b1 );
         for( unsigned v = 0; v < 256; ++v ) {
            b1.base[ 0 ] = char( v );
            ++g_truncated;
            judge_group( be, b1.base, 1 );
            judge_group( le, b1.base, 1 );
         }
      }
      // all single units on a two-byte block (a lone high surrogate is a truncated pair)
      for( unsigned hi = 0; hi < 256; hi += 16 ) {
         verif::guarded_buffer& b2 = exact( 2 );
         if( !V.begin_case( "C10", "utf16_be::any", b2.base, 2 ) ) continue;
         for( unsigned v = hi << 8; v < ( ( hi + 16 ) << 8 ); ++v ) {
            b2.base[ 0 ] = char( v >> 8 );
            b2.base[ 1 ] = char( v & 255 );
            note_truncated( enc::utf16_be, b2.base, 2 );
            judge_group( be, b2.base, 2 );
            judge_group( le, b2.base, 2 );
         }
         V.count( "sweep:utf16:all-2-byte", 4096 );
      }
      // all single units followed by one more byte
      for( const unsigned third : { 0x00u, 0xdcu, 0xd8u, 0xffu } )
         for( unsigned hi = 0; hi < 256; hi += 16 ) {
            verif::guarded_buffer& b3 = exact( 3 );
            if( !V.begin_case( "C10", "utf16_be::any", b3.base, 3 ) ) continue;
            b3.base[ 2 ] = char( third );
            for( unsigned v = hi << 8; v < ( ( hi + 16 ) << 8 ); ++v ) {
               b3.base[ 0 ] = char( v >> 8 );
               b3.base[ 1 ] = char( v & 255 );
               note_truncated( enc::utf16_be, b3.base, 3 );
               judge_list( be.single, enc::utf16_be, b3.base, 3 );
               judge_list( le.single, enc::utf16_le, b3.base, 3 );
            }
            V.count( "sweep:utf16:all-units-plus-1-byte", 4096 );
         }
      // pairs of units from the boundary pool (squared), plus a third unit behind them
      const std::vector< unsigned > pool = utf16_unit_pool();
      for( std::size_t i = 0; i < pool.size(); i += 8 ) {
         verif::guarded_buffer &b4 = exact( 4 ), &b6 = exact( 6 );
         if( !V.begin_case( "C10", "utf16_be::any", b4.base, 4 ) ) continue;
         for( std::size_t ii = i; ii < i + 8 && ii < pool.size(); ++ii )
            for( const unsigned b : pool ) {
               const unsigned a = pool[ ii ];
               use( b4 );
               b4.base[ 0 ] = char( a >> 8 );
               b4.base[ 1 ] = char( a & 255 );
               b4.base[ 2 ] = char( b >> 8 );
               b4.base[ 3 ] = char( b & 255 );
               judge_group( be, b4.base, 4 );
               judge_group( le, b4.base, 4 );
               use( b6 );
               std::memcpy( b6.base, b4.base, 4 );
               b6.base[ 4 ] = char( b >> 8 );
               b6.base[ 5 ] = char( b & 255 );
               judge_list( be.core, enc::utf16_be, b6.base, 6 );
               judge_list( le.core, enc::utf16_le, b6.base, 6 );
               V.count( "sweep:utf16:boundary-pairs" );
            }
      }
      // thorough: more of the 2^32 space of unit pairs, in blocks of 2^16 (one first unit x every second unit), core rules.
      // Both byte orders read the same four bytes, so one pass over all byte strings enumerates all pairs for both.
      if( V.thorough() ) {
         for( unsigned a = 0; a < 65536; ++a ) {
            verif::guarded_buffer& b4 = exact( 4 );
            if( !V.begin_case( "C10", "utf16_be::any", b4.base, 4 ) ) continue;
            b4.base[ 0 ] = char( a >> 8 );
            b4.base[ 1 ] = char( a & 255 );
            for( unsigned b = 0; b < 65536; ++b ) {
               b4.base[ 2 ] = char( b >> 8 );
               b4.base[ 3 ] = char( b & 255 );
               judge_list( be.core, enc::utf16_be, b4.base, 4 );
               judge_list( le.core, enc::utf16_le, b4.base, 4 );
            }
            V.count( "sweep:utf16:all-pairs", 65536 );
         }
      }
      V.cur_len = 0;
   }

#endif
#if HAS( 1 ) || HAS( 4 ) || HAS( 5 )
   // ------------------------------------------------------------------ E: UTF-32
   [[maybe_unused]] std::vector< u64 > structured_values( const unsigned width, const std::vector< u64 >& interesting )
   {
      const u64 all = ( width == 8 ) ? ~u64( 0 ) : ( ( u64( 1 ) << ( 8 * width ) ) - 1 );
      std::vector< u64 > v;
      auto swap = [ & ]( u64 x ) {
         u64 y = 0;
         for( unsigned i = 0; i < width; ++i ) {
            y = ( y << 8 ) | ( x & 255 );
            x >>= 8;
         }
         return y;
      };
      auto both = [ & ]( const u64 x ) {
         for( const u64 d : { u64( 0 ), u64( 1 ), ~u64( 0 ), u64( 2 ), ~u64( 1 ) } ) {
            v.push_back( ( x + d ) & all );
            v.push_back( swap( ( x + d ) & all ) );
            v.push_back( ( swap( x & all ) + d ) & all );
         }
      };
      for( const u64 x : interesting ) both( x );
      for( unsigned k = 0; k < 8 * width; ++k ) both( u64( 1 ) << k );
      for( const u64 x : { u64( 0 ), all, u64( 0x0102030405060708ull ) & all, u64( 0x8040201008040201ull ) & all, u64( 0x00ff00ff00ff00ffull ) & all, u64( 0x7f7f7f7f7f7f7f7full ) & all, u64( 0x8080808080808080ull ) & all } ) both( x );
      return v;
   }

   [[maybe_unused]] void dedupe( std::vector< u64 >& v )
   {
      // keep the (boundary first) order, drop repeats
      std::unordered_set< u64 > seen;
      std::vector< u64 > out;
      for( const u64 x : v )
         if( seen.insert( x ).second ) out.push_back( x );
      v.swap( out );
   }

#endif
#if HAS( 1 )
   void part_utf32()
   {
      group& be = grp( "utf32_be" );
      group& le = grp( "utf32_le" );
      // short inputs: boundary bytes on blocks of 0..3 bytes
      if( V.begin_case( "C10", "utf32_be::any" ) ) {
         static const unsigned char bb[] = { 0x00, 0x01, 0x10, 0x11, 0xd8, 0xdf, 0x7f, 0x80, 0xfe, 0xff };
         probe_exact( be, std::string() );
         probe_exact( le, std::string() );
         for( std::size_t len = 1; len <= 3; ++len ) {
            verif::guarded_buffer& gb = exact( len );
            use( gb );
            std::size_t total = 1;
            for( std::size_t i = 0; i < len; ++i ) total *= 10;
            for( std::size_t code = 0; code < total; ++code ) {
               std::size_t c = code;
               for( std::size_t i = 0; i < len; ++i ) {
                  gb.base[ i ] = char( bb[ c % 10 ] );
                  c /= 10;
               }
               ++g_truncated;
               judge_group( be, gb.base, len );
               judge_group( le, gb.base, len );
            }
         }
      }
      // boundary-structured and random 32-bit values, all rules, exact and with four more bytes behind
      std::vector< u64 > vals = structured_values( 4, { 0x7f, 0x80, 0x7ff, 0x800, 0xd7ff, 0xd800, 0xdbff, 0xdc00, 0xdfff, 0xe000, 0xfeff, 0xfffe, 0xffff, 0x10000, 0x3ffff, 0x40000, 0x80000, 0xbffff, 0xc0000, 0x10ffff, 0x110000, 0x1fffff,
                                                         0x200000, 0xffffff, 0x1000000, 0x7fffffff, 0x80000000u, 0xfffeffffu, 0x20ac, 0x41 } );
      {
         verif::rng r( V.seed * 104729 + 32 );
         const long nrand = V.thorough() ? 4000000 : 300000;
         for( long i = 0; i < nrand; ++i ) {
            const unsigned k = unsigned( r.below( 3 ) );
            const u64 small = r.below( 0x120000 ), full = r.below( u64( 1 ) << 32 );
            const u64 turned = ( ( small & 0xff ) << 24 ) | ( ( small & 0xff00 ) << 8 ) | ( ( small >> 8 ) & 0xff00 ) | ( small >> 24 );  // small value for the other byte order
            vals.push_back( k == 0 ? small : k == 1 ? turned : full );
         }
         dedupe( vals );
      }
      for( std::size_t i = 0; i < vals.size(); i += 4096 ) {
         verif::guarded_buffer &b4 = exact( 4 ), &b8 = exact( 8 );
         if( !V.begin_case( "C10", "utf32_be::any", b4.base, 4 ) ) continue;
         for( std::size_t j = i; j < i + 4096 && j < vals.size(); ++j ) {
            use( b4 );
            oracle::put_msb_first( reinterpret_cast< unsigned char* >( b4.base ), 4, vals[ j ] );
            judge_group( be, b4.base, 4 );
            judge_group( le, b4.base, 4 );
            if( j < 1024 ) {
               use( b8 );
               std::memcpy( b8.base, b4.base, 4 );
               std::memcpy( b8.base + 4, b4.base, 4 );
               judge_group( be, b8.base, 8 );
               judge_group( le, b8.base, 8 );
            }
            V.count( "sweep:utf32:boundary+random-values" );
         }
      }
      // thorough: every 32-bit unit (one pass over all four-byte strings serves both byte orders), core rules
      if( V.thorough() ) {
         for( unsigned a = 0; a < 65536; ++a ) {
            verif::guarded_buffer& b4 = exact( 4 );
            if( !V.begin_case( "C10", "utf32_be::any", b4.base, 4 ) ) continue;
            b4.base[ 0 ] = char( a >> 8 );
            b4.base[ 1 ] = char( a & 255 );
            for( unsigned b = 0; b < 65536; ++b ) {
               b4.base[ 2 ] = char( b >> 8 );
               b4.base[ 3 ] = char( b & 255 );
               judge_list( be.core, enc::utf32_be, b4.base, 4 );
               judge_list( le.core, enc::utf32_le, b4.base, 4 );
            }
            V.count( "sweep:utf32:all-units", 65536 );
         }
      }
      V.cur_len = 0;
   }

#endif
#if HAS( 4 )
   // ------------------------------------------------------------------ F: binary rules
   // uint16: every value for every rule (exact block, and with one / two more bytes), short inputs
   void part_uint16( const std::string& fam )
   {
      group& g = grp( fam );
      const enc e = g.e;
      for( entry* r : g.single ) {
         verif::guarded_buffer &b0 = exact( 0 ), &b1 = exact( 1 ), &b2 = exact( 2 ), &b3 = exact( 3 ), &b4 = exact( 4 );
         if( !V.begin_case( "C10", r->label, b2.base, 2 ) ) continue;
         const vset& s = r->seq[ 0 ];
         use( b0 );
         judge( *r, b0.base, 0, false, 0 );
         ++g_empty_inputs;
         use( b1 );
         for( unsigned v = 0; v < 256; ++v ) {
            b1.base[ 0 ] = char( v );
            judge( *r, b1.base, 1, false, 0 );
         }
         g_truncated += 256;
         use( b2 );
         for( unsigned v = 0; v < 65536; ++v ) {
            b2.base[ 0 ] = char( v >> 8 );
            b2.base[ 1 ] = char( v & 255 );
            const u64 val = oracle::big_endian( e ) ? v : ( ( v & 255 ) << 8 | v >> 8 );
            judge( *r, b2.base, 2, s.has( val ), 2 );
         }
         use( b3 );
         for( unsigned v = 0; v < 65536; v += 1 ) {
            b3.base[ 0 ] = char( v >> 8 );
            b3.base[ 1 ] = char( v & 255 );
            b3.base[ 2 ] = char( v >> 8 );
            const oracle::unit u = oracle::decode_unit( e, reinterpret_cast< const unsigned char* >( b3.base ), 3 );
            judge( *r, b3.base, 3, u.ok && s.has( u.value ), 2 );
         }
         use( b4 );
         for( unsigned v = 0; v < 65536; v += 7 ) {
            b4.base[ 0 ] = char( v >> 8 );
            b4.base[ 1 ] = char( v & 255 );
            b4.base[ 2 ] = char( v & 255 );
            b4.base[ 3 ] = char( v >> 8 );
            const oracle::unit u = oracle::decode_unit( e, reinterpret_cast< const unsigned char* >( b4.base ), 4 );
            judge( *r, b4.base, 4, u.ok && s.has( u.value ), 2 );
         }
         V.cur_len = 0;
         V.count( "sweep:" + fam + ":rule-x-all-65536-values", 65536 );
      }
   }

   // values that matter to the rules of a family: span ends, +-1, with random bits where the mask hides them, in both byte orders
#endif
#if HAS( 5 )
   std::vector< u64 > uint_pool( const std::string& fam_be, const std::string& fam_le, const unsigned width )
   {
      const u64 all = ( width == 8 ) ? ~u64( 0 ) : ( ( u64( 1 ) << ( 8 * width ) ) - 1 );
      verif::rng r( V.seed * 15485863 + width );
      std::vector< u64 > interesting;
      for( const std::string& fam : { fam_be, fam_le } )
         for( const entry& en : g_rules ) {
            if( en.family != fam ) continue;
            for( const vset& s : en.seq )
               for( const auto& sp : s.spans )
                  for( const u64 x : { sp.first, sp.second } ) {
                     interesting.push_back( x );
                     if( ( s.mask & all ) != all )
                        for( int k = 0; k < 3; ++k )
                           for( const u64 d : { u64( 0 ), u64( 1 ), ~u64( 0 ) } ) interesting.push_back( ( ( ( x + d ) & s.mask ) | ( r.next() & ~s.mask ) ) & all );
                  }
         }
      std::vector< u64 > v = structured_values( width, interesting );
      const long nrand = ( width == 4 ) ? ( V.thorough() ? 400000 : 20000 ) : ( V.thorough() ? 200000 : 12000 );
      for( long i = 0; i < nrand; ++i ) {
         const u64 x = r.next() & all;
         const unsigned k = unsigned( r.below( 4 ) );
         // uniformly random; sparse; dense; near one of the interesting values
         v.push_back( k == 0 ? x : k == 1 ? ( x & r.next() & r.next() ) : k == 2 ? ( ( x | r.next() | r.next() ) & all ) : ( ( interesting[ r.below( interesting.size() ) ] ^ ( u64( 1 ) << r.below( 8 * width ) ) ) & all ) );
      }
      dedupe( v );
      return v;
   }

   void part_uint_wide( const std::string& fam, const std::vector< u64 >& pool )
   {
      group& g = grp( fam );
      const enc e = g.e;
      const unsigned w = oracle::unit_width( e );
      for( entry* r : g.single ) {
         verif::guarded_buffer &bw = exact( w ), &b2w = exact( 2 * w );
         if( !V.begin_case( "C10", r->label, bw.base, w ) ) continue;
         const vset& s = r->seq[ 0 ];
         for( std::size_t i = 0; i < pool.size(); ++i ) {
            use( bw );
            oracle::put_msb_first( reinterpret_cast< unsigned char* >( bw.base ), w, pool[ i ] );
            const oracle::unit u = oracle::decode_unit( e, reinterpret_cast< const unsigned char* >( bw.base ), w );
            judge( *r, bw.base, w, s.has( u.value ), w );
            if( i < 200 ) {
               // every truncation (exact block) and the value followed by more bytes
               for( unsigned len = 0; len < w; ++len ) {
                  verif::guarded_buffer& bt = exact( len );
                  std::memcpy( bt.base, bw.base, len );
                  use( bt );
                  judge( *r, bt.base, len, false, 0 );
                  if( len == 0 ) ++g_empty_inputs;
                  else ++g_truncated;
               }
               use( b2w );
               std::memcpy( b2w.base, bw.base, w );
               std::memcpy( b2w.base + w, bw.base, w );
               b2w.base[ w ] ^= 0x55;
               judge( *r, b2w.base, 2 * w, s.has( u.value ), w );
            }
         }
         V.cur_len = 0;
         V.count( "sweep:" + fam + ":rule-x-pool-value", long( pool.size() ) );
      }
   }

#endif
#if HAS( 4 ) || HAS( 5 )
   [[maybe_unused]] std::vector< std::string > first_units( const enc e, const std::vector< u64 >& pool, std::size_t n )
   {
      std::vector< std::string > r;
      for( std::size_t i = 0; i < pool.size() && i < n; ++i ) r.push_back( oracle::encode_unit( e, pool[ i ] ) );
      return r;
   }

#endif
   void run_parts()
   {
#if HAS( 0 )
      part_byte_classes( "ascii" );
      part_byte_classes( "abnf" );
      part_byte_strings( "ascii" );
      part_byte_strings( "abnf" );
      // part_lwsp() is deliberately not run: abnf::LWSP is a repetition, not a single-unit class rule, so it is
      // outside what C10 states (the driver found that it matches *((CRLF / WSP) WSP) instead of RFC 5234's
      // *(WSP / CRLF WSP); recorded in DESIGN.md as an observation outside the property, not as a finding).

      part_utf8();
      part_scalar_sweep( "utf8" );
      part_unit_strings( "utf8", utf8_bad_units() );
      {
         std::vector< std::string > u = boundary_units( enc::utf8 );
         for( const std::string& b : utf8_bad_units() ) u.push_back( b );
         part_truncations( "utf8", u );
      }
#endif
#if HAS( 1 )
      part_utf16();
      for( const char* fam : { "utf16_be", "utf16_le" } ) {
         const enc e = grp( fam ).e;
         const enc raw = ( e == enc::utf16_be ) ? enc::uint16_be : enc::uint16_le;
         std::vector< std::string > bad;
         for( const u64 x : { 0xd800ull, 0xdbffull, 0xdc00ull, 0xdfffull } ) bad.push_back( oracle::encode_unit( raw, x ) );
         bad.push_back( oracle::encode_unit( raw, 0xd800 ) + oracle::encode_unit( raw, 0xd800 ) );
         bad.push_back( oracle::encode_unit( raw, 0xdbff ) + oracle::encode_unit( raw, 0xdbff ) );
         bad.push_back( std::string( 1, '\x41' ) );
         part_scalar_sweep( fam );
         part_unit_strings( fam, bad );
         std::vector< std::string > u = boundary_units( e );
         for( const std::string& b : bad ) u.push_back( b );
         part_truncations( fam, u );
      }
      part_utf32();
      for( const char* fam : { "utf32_be", "utf32_le" } ) {
         const enc e = grp( fam ).e;
         std::vector< std::string > bad;
         for( const u64 x : { 0xd800ull, 0xdfffull, 0x110000ull, 0xffffffffull, 0x41000000ull, 0xffff0000ull, 0xac200000ull } ) bad.push_back( oracle::encode_unit( e, x ) );
         bad.push_back( std::string( "\x00\x00\x41", 3 ) );
         part_scalar_sweep( fam );
         part_unit_strings( fam, bad );
         std::vector< std::string > u = boundary_units( e );
         for( const std::string& b : bad ) u.push_back( b );
         part_truncations( fam, u );
      }
#endif
#if HAS( 2 ) || HAS( 3 )
      part_byte_classes( "uint8" );
      part_byte_strings( "uint8" );
#endif
#if HAS( 4 )
      part_uint16( "uint16_be" );
      part_uint16( "uint16_le" );
      {
         const std::vector< u64 > p16 = structured_values( 2, { 0x1234, 0xfe01, 0x0100, 0x7f02, 0x8000, 0xc0f0 } );
         for( const char* fam : { "uint16_be", "uint16_le" } ) {
            part_unit_strings( fam, { std::string( 1, '\x12' ) } );
            part_truncations( fam, first_units( grp( fam ).e, p16, 24 ) );
         }
      }
#endif
#if HAS( 5 )
      {
         const std::vector< u64 > p32 = uint_pool( "uint32_be", "uint32_le", 4 );
         for( const char* fam : { "uint32_be", "uint32_le" } ) {
            part_uint_wide( fam, p32 );
            part_unit_strings( fam, { std::string( "\x12\x34\x56", 3 ) } );
            part_truncations( fam, first_units( grp( fam ).e, p32, 24 ) );
         }
         const std::vector< u64 > p64 = uint_pool( "uint64_be", "uint64_le", 8 );
         for( const char* fam : { "uint64_be", "uint64_le" } ) {
            part_uint_wide( fam, p64 );
            part_unit_strings( fam, { std::string( "\x01\x23\x45\x67\x89\xab\xcd", 7 ) } );
            part_truncations( fam, first_units( grp( fam ).e, p64, 24 ) );
         }
      }
#endif
      V.count( "sweep:truncated-units-rejected-or-reported", g_truncated );
      V.sample( "{\"part\":\"rule list\",\"instantiations\":" + std::to_string( g_rules.size() ) + ",\"first\":\"" + verif::jesc( g_rules.front().name ) + "\",\"last\":\"" + verif::jesc( g_rules.back().name ) + "\"}" );
   }

}  // namespace

int main( int argc, char** argv )
{
   verif::init( argc, argv );
   tao::pegtl::internal::verif::hooks.window_violation = +[]( int, const void*, std::size_t, std::size_t ) { g_overread = true; };
   register_rules();
   run_parts();
   long evals = 0;
   for( const entry& r : g_rules ) {
      evals += r.acc + r.rej;
      if( r.acc ) V.count( r.family + ":" + r.kind + ":accept", r.acc );
      if( r.rej ) V.count( r.family + ":" + r.kind + ":reject", r.rej );
   }
   V.evaluations += evals + g_incremental_runs;
   V.nontrivial += evals - g_empty_inputs;
   if( g_incremental_runs ) V.count( "runs:incremental-input (multi-byte encodings, one byte per read)", g_incremental_runs );
   if( std::getenv( "C10_DEBUG" ) )
      for( const entry& r : g_rules ) std::fprintf( stderr, "%-70s acc %10ld rej %10ld\n", r.name.c_str(), r.acc, r.rej );
   V.finish();
   return 0;
}
