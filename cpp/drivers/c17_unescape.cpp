// C17 — unescape helpers produce exact UTF-8 and reject invalid code points.
// Monitor: the real helpers (called directly and through the real grammars, so that the action-input
// contract is the one users get) run beside an independent encoder; every disagreement is reported.
#include <tao/pegtl.hpp>
#include <tao/pegtl/contrib/json.hpp>
#include <tao/pegtl/contrib/unescape.hpp>

#include <json_unescape.hpp>  // src/example/pegtl

#include "common/verif.hpp"
#include "oracles/utf_codec.hpp"

namespace pegtl = tao::pegtl;
using verif::V;

namespace
{
   const char* cp_class( std::uint64_t cp )
   {
      if( cp < 0x80 ) return "ascii";
      if( cp < 0x800 ) return "2byte";
      if( cp < 0xD800 ) return "3byte-low";
      if( cp < 0xDC00 ) return "high-surrogate";
      if( cp < 0xE000 ) return "low-surrogate";
      if( cp < 0x10000 ) return "3byte-high";
      if( cp < 0x110000 ) return "4byte";
      return "above-max";
   }

   // ---------------------------------------------------------------- A: utf8_append_utf32
   void check_append( std::uint64_t cp64 )
   {
      const unsigned cp = unsigned( cp64 );
      std::string s = "pre";
      const bool ok = pegtl::unescape::utf8_append_utf32( s, cp );
      const std::string enc = oracle::utf8_encode( cp );
      const bool exp_ok = !enc.empty();
      ++V.evaluations;
      if( ok != exp_ok || s != "pre" + enc ) {
         char b[ 160 ];
         std::snprintf( b, sizeof b, "utf8_append_utf32(U+%X): returned %d appended '%s', expected %d '%s'", cp, int( ok ), verif::hex( s.substr( 3 ) ).c_str(), int( exp_ok ), verif::hex( enc ).c_str() );
         V.violation( "C17", std::string( "C17|utf8_append_utf32|" ) + cp_class( cp ), b, "{\"cp\":" + std::to_string( cp ) + "}" );
      }
      // round trip through the independent decoder
      if( ok ) {
         const auto d = oracle::utf8_decode( reinterpret_cast< const unsigned char* >( s.data() + 3 ), s.size() - 3 );
         if( !d.ok || d.cp != cp || d.len != s.size() - 3 ) V.violation( "C17", std::string( "C17|utf8_append_utf32|roundtrip|" ) + cp_class( cp ), "appended bytes do not decode back to U+" + std::to_string( cp ) );
      }
   }

   void part_append()
   {
      const std::uint64_t top = V.thorough() ? 0x200000 : 0x112000;
      for( std::uint64_t base = 0; base < top; base += 0x1000 ) {
         if( !V.begin_case( "C17", "append-block" ) ) continue;
         for( std::uint64_t cp = base; cp < base + 0x1000; ++cp ) check_append( cp );
         V.nontrivial += 0x1000;
         V.count( std::string( "append:" ) + cp_class( base ), 0x1000 );
      }
      if( V.begin_case( "C17", "append-high" ) ) {
         for( int k = 16; k <= 32; ++k )
            for( int d = -2; d <= 2; ++d ) {
               const std::uint64_t v = ( std::uint64_t( 1 ) << k ) + std::uint64_t( std::int64_t( d ) );
               if( v <= 0xFFFFFFFFull ) { check_append( v ); ++V.nontrivial; V.count( "append:high-boundary" ); }
            }
         verif::rng r( V.seed * 77 + 1 );
         for( int i = 0; i < ( V.thorough() ? 2000000 : 100000 ); ++i ) { check_append( 0x110000 + r.below( 0xFFFFFFFFull - 0x110000 + 1 ) ); V.count( "append:above-max-random" ); }
         V.sample( "{\"part\":\"utf8_append_utf32\",\"cp\":\"all 0..0x112000 (quick) / 0..0x200000 (thorough), 2^k+-2, random above U+10FFFF\"}" );
      }
   }

   // ---------------------------------------------------------------- B: unescape_j through the JSON string grammar
   template< typename Rule > struct jaction : example::json_unescape_action< Rule > {};
   struct jstate { std::string out; };
   template<> struct jaction< pegtl::json::string::content > : example::json_unescape
   {
      template< typename ParseInput >
      static void success( const ParseInput& /*unused*/, std::string& unescaped, jstate& st ) { st.out = std::move( unescaped ); }
   };

   struct jres { int st; std::string out; std::string msg; };  // 1 ok, 0 local failure, 2 parse_error, 3 other exception

   jres run_json_string( const std::string& text )
   {
      verif::guarded_buffer gb( text, 0 );
      pegtl::memory_input<> in( gb.begin(), gb.end(), "c17" );
      jstate st;
      try {
         const bool r = pegtl::parse< pegtl::seq< pegtl::json::string, pegtl::eof >, jaction >( in, st );
         return { r ? 1 : 0, st.out, "" };
      }
      catch( const pegtl::parse_error& e ) {
         return { 2, "", std::string( e.message() ) };
      }
      catch( ... ) {
         return { 3, "", "" };
      }
   }

   // model of RFC 8259 section 7 for a run of consecutive \uXXXX escapes
   bool model_j( const std::vector< unsigned >& units, std::string& out )
   {
      for( std::size_t i = 0; i < units.size(); ++i ) {
         const unsigned c = units[ i ];
         if( c >= 0xD800 && c <= 0xDBFF && i + 1 < units.size() && units[ i + 1 ] >= 0xDC00 && units[ i + 1 ] <= 0xDFFF ) {
            out += oracle::utf8_encode( 0x10000 + ( c - 0xD800 ) * 1024 + ( units[ i + 1 ] - 0xDC00 ) );
            ++i;
            continue;
         }
         if( c >= 0xD800 && c <= 0xDFFF ) return false;
         out += oracle::utf8_encode( c );
      }
      return true;
   }

   std::string esc4( unsigned u, bool upper )
   {
      char b[ 8 ];
      std::snprintf( b, sizeof b, upper ? "\\u%04X" : "\\u%04x", u );
      return b;
   }

   const char* unit_class( unsigned u ) { return u < 0xD800 ? "B" : u < 0xDC00 ? "H" : u < 0xE000 ? "L" : "B2"; }

   void check_j( const std::vector< unsigned >& units, int sepmask, bool upper )
   {
      // sepmask bit i set: a plain character separates escape i and i+1 (so they reach the action separately)
      std::string text = "\"";
      std::vector< std::vector< unsigned > > runs( 1 );
      std::string pattern;
      for( std::size_t i = 0; i < units.size(); ++i ) {
         text += esc4( units[ i ], upper );
         runs.back().push_back( units[ i ] );
         pattern += unit_class( units[ i ] );
         if( i + 1 < units.size() && ( sepmask >> i ) & 1 ) {
            text += "x";
            runs.emplace_back();
            pattern += "x";
         }
      }
      text += "\"";
      if( !V.distinct( text ) ) return;
      if( !V.begin_case( "C17", "unescape_j", text.data(), text.size() ) ) return;
      std::string exp;
      bool exp_ok = true;
      for( std::size_t i = 0; i < runs.size() && exp_ok; ++i ) {
         exp_ok = model_j( runs[ i ], exp );
         if( exp_ok && i + 1 < runs.size() ) exp += "x";
      }
      const jres r = run_json_string( text );
      ++V.evaluations;
      ++V.nontrivial;
      V.count( "unescape_j:" + pattern );
      const std::string key = std::string( "C17|unescape_j|" ) + ( exp_ok ? "valid-run" : "lone-surrogate" );
      if( exp_ok ) {
         if( r.st != 1 || r.out != exp ) V.violation( "C17", key, "input " + verif::show( text ) + ": expected success with " + verif::hex( exp ) + ", got status " + std::to_string( r.st ) + " out " + verif::hex( r.out ) + " " + r.msg );
      }
      else {
         if( r.st != 2 || r.msg != "invalid escaped unicode code point" ) V.violation( "C17", key, "input " + verif::show( text ) + ": expected rejection of a lone surrogate, got status " + std::to_string( r.st ) + " out " + verif::hex( r.out ) + " " + r.msg );
      }
      V.sample( "{\"part\":\"unescape_j\",\"json\":\"" + verif::jesc( text ) + "\",\"expect\":\"" + ( exp_ok ? verif::hex( exp ) : std::string( "reject" ) ) + "\"}" );
   }

   void part_unescape_j()
   {
      static const unsigned bnd[] = { 0x0000, 0x0001, 0x007F, 0x0080, 0x07FF, 0x0800, 0xD7FF, 0xD800, 0xD801, 0xDBFF, 0xDC00, 0xDC01, 0xDFFF, 0xE000, 0xFFFE, 0xFFFF };
      const std::size_t nb = sizeof bnd / sizeof bnd[ 0 ];
      for( std::size_t a = 0; a < nb; ++a ) check_j( { bnd[ a ] }, 0, false );
      for( std::size_t a = 0; a < nb; ++a )
         for( std::size_t b = 0; b < nb; ++b )
            for( int sep = 0; sep < 2; ++sep ) check_j( { bnd[ a ], bnd[ b ] }, sep, ( a + b ) & 1 );
      for( std::size_t a = 0; a < nb; ++a )
         for( std::size_t b = 0; b < nb; ++b )
            for( std::size_t c = 0; c < nb; ++c )
               for( int sep = 0; sep < 4; ++sep ) {
                  if( !V.thorough() && sep != 0 && ( ( a * 7 + b * 3 + c + V.seed ) % 4 ) != 0 ) continue;
                  check_j( { bnd[ a ], bnd[ b ], bnd[ c ] }, sep, ( a + c ) & 1 );
               }
      // random members of each class, 1..4 escapes
      verif::rng r( V.seed * 1009 + 17 );
      auto member = [ & ]( int cls ) -> unsigned {
         switch( cls ) {
            case 0: return unsigned( r.below( 0xD800 ) );
            case 1: return 0xD800 + unsigned( r.below( 0x400 ) );
            case 2: return 0xDC00 + unsigned( r.below( 0x400 ) );
            default: return 0xE000 + unsigned( r.below( 0x2000 ) );
         }
      };
      const int nrand = V.thorough() ? 400000 : 20000;
      for( int i = 0; i < nrand; ++i ) {
         const int n = 1 + int( r.below( 4 ) );
         std::vector< unsigned > u;
         for( int k = 0; k < n; ++k ) u.push_back( member( int( r.below( 4 ) ) ) );
         check_j( u, int( r.below( 8 ) ) & ( r.chance( 1, 2 ) ? 0 : 7 ), r.chance( 1, 2 ) );
      }
      // every high x every low surrogate pair (2^20) in blocks: thorough only
      if( V.thorough() ) {
         for( unsigned h = 0xD800; h <= 0xDBFF; ++h ) {
            if( !V.begin_case( "C17", "unescape_j-allpairs" ) ) continue;
            for( unsigned l = 0xDC00; l <= 0xDFFF; ++l ) {
               const std::string text = "\"" + esc4( h, false ) + esc4( l, true ) + "\"";
               const jres res = run_json_string( text );
               std::string exp;
               model_j( { h, l }, exp );
               ++V.evaluations;
               if( res.st != 1 || res.out != exp ) V.violation( "C17", "C17|unescape_j|HL-allpairs", "pair " + verif::show( text ) );
            }
            V.nontrivial += 0x400;
            V.count( "unescape_j:all-pairs", 0x400 );
         }
      }
   }

   // ---------------------------------------------------------------- C: unhex_char / unhex_string
   int hexval( char c ) { return ( c >= '0' && c <= '9' ) ? c - '0' : ( c >= 'a' && c <= 'f' ) ? c - 'a' + 10 : c - 'A' + 10; }
   const char xd[] = "0123456789abcdefABCDEF";

   template< typename I >
   void check_unhex( const char* tname, const std::string& digits )
   {
      unsigned long long exp = 0;
      for( char c : digits ) exp = exp * 16 + unsigned( hexval( c ) );
      const I got = pegtl::unescape::unhex_string< I >( digits.data(), digits.data() + digits.size() );
      ++V.evaluations;
      if( got != static_cast< I >( exp ) ) V.violation( "C17", std::string( "C17|unhex_string<" ) + tname + ">", "unhex_string(" + digits + ") = " + std::to_string( (unsigned long long)got ) + ", expected " + std::to_string( exp ) );
   }

   template< typename I >
   void part_unhex_type( const char* tname )
   {
      if( !V.begin_case( "C17", "unhex" ) ) return;
      for( const char* p = xd; *p; ++p ) {
         const I v = pegtl::unescape::unhex_char< I >( *p );
         ++V.evaluations;
         ++V.nontrivial;
         if( v != I( hexval( *p ) ) ) V.violation( "C17", std::string( "C17|unhex_char<" ) + tname + ">", std::string( "unhex_char('" ) + *p + "')" );
      }
      V.count( std::string( "unhex_char:" ) + tname, 22 );
      const unsigned width = 2 * sizeof( I );
      const unsigned full = width < 4 ? width : 4;  // exhaustive up to 4 digits over 22 digit characters
      std::string s;
      long n = 0;
      for( unsigned len = 0; len <= full; ++len ) {
         unsigned long total = 1;
         for( unsigned i = 0; i < len; ++i ) total *= 22;
         for( unsigned long code = 0; code < total; ++code ) {
            s.clear();
            unsigned long c = code;
            for( unsigned i = 0; i < len; ++i ) { s.push_back( xd[ c % 22 ] ); c /= 22; }
            check_unhex< I >( tname, s );
            ++n;
         }
      }
      verif::rng r( V.seed * 31 + width );
      for( int i = 0; i < ( V.thorough() ? 300000 : 30000 ) && width > 4; ++i ) {
         const unsigned len = 5 + unsigned( r.below( width - 4 ) );
         s.clear();
         const int mode = int( r.below( 4 ) );
         for( unsigned k = 0; k < len; ++k ) s.push_back( mode == 0 ? 'f' : mode == 1 ? ( k == 0 ? '8' : '0' ) : xd[ r.below( 22 ) ] );
         check_unhex< I >( tname, s );
         ++n;
      }
      V.nontrivial += n;
      V.count( std::string( "unhex_string:" ) + tname, n );
      V.sample( std::string( "{\"part\":\"unhex_string\",\"type\":\"" ) + tname + "\",\"cases\":" + std::to_string( n ) + "}" );
   }

   // ---------------------------------------------------------------- D: unescape_x / _u / _c through the example grammar
   namespace ex
   {
      using namespace tao::pegtl;
      struct escaped_x : seq< one< 'x' >, rep< 2, xdigit > > {};
      struct escaped_u : seq< one< 'u' >, rep< 4, xdigit > > {};
      struct escaped_U : seq< one< 'U' >, rep< 8, xdigit > > {};
      struct escaped_c : one< '\'', '"', '?', '\\', 'a', 'b', 'f', 'n', 'r', 't', 'v' > {};
      struct escaped : sor< escaped_x, escaped_u, escaped_U, escaped_c > {};
      struct character : if_then_else< one< '\\' >, escaped, utf8::range< 0x20, 0x10FFFF > > {};
      struct literal : seq< one< '"' >, until< one< '"' >, character > > {};
      struct padded : seq< pad< literal, blank >, eof > {};
      template< typename Rule > struct action {};
      template<> struct action< utf8::range< 0x20, 0x10FFFF > > : unescape::append_all {};
      template<> struct action< escaped_x > : unescape::unescape_x {};
      template<> struct action< escaped_u > : unescape::unescape_u {};
      template<> struct action< escaped_U > : unescape::unescape_u {};
      template<> struct action< escaped_c > : unescape::unescape_c< escaped_c, '\'', '"', '?', '\\', '\a', '\b', '\f', '\n', '\r', '\t', '\v' > {};
   }  // namespace ex

   jres run_example( const std::string& text )
   {
      verif::guarded_buffer gb( text, 0 );
      pegtl::memory_input<> in( gb.begin(), gb.end(), "c17" );
      std::string out;
      try {
         const bool r = pegtl::parse< ex::padded, ex::action >( in, out );
         return { r ? 1 : 0, out, "" };
      }
      catch( const pegtl::parse_error& e ) {
         return { 2, "", std::string( e.message() ) };
      }
      catch( ... ) {
         return { 3, "", "" };
      }
   }

   void expect_example( const char* keypart, const std::string& text, bool exp_ok, const std::string& exp )
   {
      const jres r = run_example( text );
      ++V.evaluations;
      const std::string key = std::string( "C17|" ) + keypart;
      if( exp_ok ? ( r.st != 1 || r.out != exp ) : ( r.st != 2 || r.msg != "invalid escaped unicode code point" ) )
         V.violation( "C17", key, "literal " + verif::show( text ) + ": expected " + ( exp_ok ? "value " + verif::hex( exp ) : std::string( "rejection" ) ) + ", got status " + std::to_string( r.st ) + " value " + verif::hex( r.out ) + " " + r.msg );
   }

   void part_example()
   {
      if( V.begin_case( "C17", "unescape_x" ) ) {
         for( unsigned v = 0; v < 256; ++v )
            for( int up = 0; up < 2; ++up ) {
               char b[ 16 ];
               std::snprintf( b, sizeof b, up ? "\"a\\x%02Xz\"" : "\"a\\x%02xz\"", v );
               expect_example( "unescape_x", b, true, std::string( "a" ) + char( v ) + "z" );
               ++V.nontrivial;
            }
         V.count( "unescape_x", 512 );
      }
      for( unsigned base = 0; base < 0x10000; base += 0x1000 ) {
         if( !V.begin_case( "C17", "unescape_u4" ) ) continue;
         for( unsigned v = base; v < base + 0x1000; ++v ) {
            char b[ 16 ];
            std::snprintf( b, sizeof b, ( v & 1 ) ? "\"\\u%04X\"" : "\"\\u%04x\"", v );
            const std::string enc = oracle::utf8_encode( v );
            expect_example( "unescape_u|4digits", b, !enc.empty(), enc );
         }
         V.nontrivial += 0x1000;
         V.count( "unescape_u:4digits", 0x1000 );
      }
      if( V.begin_case( "C17", "unescape_U8" ) ) {
         verif::rng r( V.seed * 131 + 5 );
         std::vector< std::uint64_t > vals;
         for( std::uint64_t b : { 0ull, 0x7Full, 0x80ull, 0x7FFull, 0x800ull, 0xD7FFull, 0xD800ull, 0xDFFFull, 0xE000ull, 0xFFFFull, 0x10000ull, 0x10FFFFull, 0x110000ull, 0x1FFFFFull, 0x200000ull, 0x7FFFFFFFull, 0x80000000ull, 0xFFFFFFFFull } )
            for( int d = -1; d <= 1; ++d ) {
               const std::uint64_t v = b + std::uint64_t( std::int64_t( d ) );
               if( v <= 0xFFFFFFFFull ) vals.push_back( v );
            }
         for( int i = 0; i < ( V.thorough() ? 500000 : 40000 ); ++i ) vals.push_back( r.chance( 1, 2 ) ? r.below( 0x120000 ) : r.below( 0x100000000ull ) );
         for( std::uint64_t v : vals ) {
            char b[ 24 ];
            std::snprintf( b, sizeof b, ( v & 1 ) ? "\"\\U%08llX\"" : "\"\\U%08llx\"", (unsigned long long)v );
            const std::string enc = oracle::utf8_encode( v );
            expect_example( "unescape_u|8digits", b, !enc.empty(), enc );
         }
         V.nontrivial += long( vals.size() );
         V.count( "unescape_u:8digits", long( vals.size() ) );
         V.sample( "{\"part\":\"unescape_u\",\"literal\":\"\\\"\\\\U0010FFFF\\\"\",\"cases\":" + std::to_string( vals.size() ) + "}" );
      }
      if( V.begin_case( "C17", "unescape_c" ) ) {
         const char from[] = { '\'', '"', '?', '\\', 'a', 'b', 'f', 'n', 'r', 't', 'v' };
         const char to[] = { '\'', '"', '?', '\\', '\a', '\b', '\f', '\n', '\r', '\t', '\v' };
         for( unsigned i = 0; i < sizeof from; ++i ) {
            const std::string text = std::string( "\"p\\" ) + from[ i ] + "q\"";
            expect_example( "unescape_c", text, true, std::string( "p" ) + to[ i ] + "q" );
            ++V.nontrivial;
         }
         V.count( "unescape_c:example", long( sizeof from ) );
         // the JSON mapping, through the JSON grammar
         const char jf[] = { '"', '\\', '/', 'b', 'f', 'n', 'r', 't' };
         const char jt[] = { '"', '\\', '/', '\b', '\f', '\n', '\r', '\t' };
         for( unsigned i = 0; i < sizeof jf; ++i ) {
            const std::string text = std::string( "\"p\\" ) + jf[ i ] + "q\"";
            const jres r = run_json_string( text );
            ++V.evaluations;
            ++V.nontrivial;
            if( r.st != 1 || r.out != std::string( "p" ) + jt[ i ] + "q" ) V.violation( "C17", "C17|unescape_c|json", "json literal " + verif::show( text ) + " gave " + verif::hex( r.out ) );
         }
         V.count( "unescape_c:json", long( sizeof jf ) );
      }
   }
}  // namespace

int main( int argc, char** argv )
{
   verif::init( argc, argv );
   part_append();
   part_unescape_j();
   part_unhex_type< char >( "char" );
   part_unhex_type< unsigned char >( "unsigned char" );
   part_unhex_type< std::uint16_t >( "uint16_t" );
   part_unhex_type< unsigned >( "unsigned" );
   part_unhex_type< std::uint64_t >( "uint64_t" );
   part_example();
   V.finish();
   return 0;
}
