// C03 — no rule reads or consumes outside the bounds of the input.
// Driver c03_shipped: the SHIPPED grammars and rule families of PEGTL on hostile inputs that are
// placed so that a read outside the input faults or is recorded.
//
// For every target (a grammar or a rule) a set of VALID documents is built (hand-written ones that
// contain every multi-byte construct of the grammar, plus seeded random ones).  From every document:
//   valid     the document itself
//   prefix    EVERY proper prefix (truncation at every byte offset, including the empty input)
//   mut       single-byte replacement at every offset by the bytes of a hostile set (NUL 80 C2 E0 F0 F4 FF
//             " \ 7 ] CR LF; quick: plus two seeded bytes of a structural set, thorough: plus the whole
//             structural set and the per-grammar extras), and single-byte deletions and insertions
//             (quick: 40 seeded offsets per document, thorough: every offset)
// Every (target, input) pair runs
//   tail      memory_input over verif::guarded_buffer mode 1: the input is a prefix of a larger heap
//             block whose remainder is POISONED and filled with bytes that would EXTEND a match
//             (chosen from the last bytes of the input: continuation bytes after a truncated UTF-8
//             lead, hex digits inside \uXXXX / %XX, "\n" after "\r", "=]" after "]=", more digits after
//             a digit, the last byte repeated ..., followed by a per-target suffix).
//             The window hook of -DTAO_PEGTL_VERIF records a peek_char(offset)/bump*(count) that
//             reaches outside [current,end) as "C03|<target>|window|<op>" and unpoisons the tail so
//             that the sweep survives the fault it has recorded.
//   exact     (only when the hook stayed silent) memory_input over guarded_buffer mode 0: exact-size
//             heap block, ASan red zone right behind, no terminator.  Raw pointer reads that bypass
//             peek_char (memcmp in string/istring, R::read( in.current() ) in the UTF-16/32 and uintN
//             peekers) show as ASan reports in either run (keyed by the framework as
//             "C03|<target>|heap-buffer-overflow" / "use-after-poison") or as a differing result:
//             result, consumed bytes and action output of both runs must agree, else
//             "C03|<target>|result-depends-on-bytes-behind-end".
//   buffer    (buffer parts, a sample: documents, every prefix, a few mutants per offset) through
//             buffer_input< reader, Eol, std::string, 4 > with a reader that delivers the same bytes
//             in short pieces; the buffer_window hook POISONS the not-yet-filled part of the internal
//             buffer after every require()/discard() and unpoisons what is filled, so a read beyond
//             what was delivered faults.  std::overflow_error (small buffers) is legitimate and counted.
// After every run in.current() must lie in [begin,end] ("C03|<target>|cursor-outside-input").
// Sub-inputs (rematch, minus, limit_bytes): additionally the result is compared with a model that
// runs the inner rule on an exact-size COPY of the sub-window (bytes behind a sub-window are ordinary
// readable input, so only the hook or a differing result can show a read behind it).
// Any exception type is acceptable for C03; only memory safety is judged.
//
// The file is compiled in parts (-DC03_PART=n, -O0, in parallel): see tools/specs/c03_shipped.py.
// Cells: <group>|<valid,prefix,mut>|<accept,reject,exception>|<memory,buffer> (memory = the poisoned-tail run; the
// exact-size run has the same outcome or a violation is reported; exact-size-runs|<group> counts them),
// cut|<group>|<construct> = prefixes that end inside a multi-byte construct of their document,
// inv:<target>|<tail,exact,buffer>|<outcome> per target.  Environment C03_DEBUG=1 (diagnostics only) lists the
// documents a target does not accept.
#include <tao/pegtl.hpp>

#include <cstdint>
#include <stdexcept>
#include <string>
#include <tuple>
#include <string_view>
#include <vector>

#include "common/verif.hpp"

#ifndef C03_PART
#define C03_PART 0
#endif
#define C03_HAS( n ) ( C03_PART == 0 || C03_PART == ( n ) )

namespace pegtl = tao::pegtl;
using verif::V;

namespace c03
{
   // ------------------------------------------------------------------ outcome of one run
   enum : int { REJECT = 0, ACCEPT = 1, PARSE_ERROR = 2, STD_EXC = 3, OTHER_EXC = 4, OVERFLOW_ERROR = 5 };
   const char* const code_name[] = { "local-failure", "success", "parse_error", "std::exception", "foreign-exception", "std::overflow_error" };

   struct outcome
   {
      int code = REJECT;
      std::size_t consumed = 0;
      std::uint64_t extra = 0;  // digest of what the actions produced (0 when there are none)
      bool cursor_bad = false;
      long cursor_off = 0;
   };

   inline std::uint64_t fnv( std::string_view s, std::uint64_t h = 1469598103934665603ull )
   {
      for( unsigned char c : s ) {
         h ^= c;
         h *= 1099511628211ull;
      }
      return h;
   }

   inline bool debug_errors = false;  // C03_DEBUG: keep the message of the last parse_error (diagnostics only)
   inline std::string last_error;

   template< typename F >
   int classify( F&& f )
   {
      try {
         return f() ? ACCEPT : REJECT;
      }
      catch( const pegtl::parse_error& e ) {
         if( debug_errors ) last_error = e.what();
         return PARSE_ERROR;
      }
      catch( const std::overflow_error& ) {
         return OVERFLOW_ERROR;
      }
      catch( const std::exception& ) {
         return STD_EXC;
      }
      catch( ... ) {
         return OTHER_EXC;
      }
   }

   template< typename In, typename F >
   outcome guarded( In& in, const char* b, const char* e, F&& f )
   {
      outcome o;
      o.code = classify( f );
      const char* c = in.current();
      o.cursor_bad = ( c < b ) || ( c > e );
      o.cursor_off = long( c - b );
      o.consumed = std::size_t( c - b );
      return o;
   }

   // plain rule / grammar on a memory_input
   template< typename Rule,
             typename Eol = pegtl::eol::lf_crlf,
             pegtl::tracking_mode TM = pegtl::tracking_mode::eager,
             template< typename... > class Action = pegtl::nothing,
             template< typename... > class Control = pegtl::normal >
   outcome mem( const char* b, const char* e )
   {
      pegtl::memory_input< TM, Eol > in( b, e, "c03" );
      return guarded( in, b, e, [ & ] { return pegtl::parse< Rule, Action, Control >( in ); } );
   }

   // ------------------------------------------------------------------ hooks
   struct hook_state
   {
      long fired = 0;
      int op = 0;
      std::size_t request = 0, available = 0;
      // memory runs: poisoned region behind the logical end (mode 1)
      char* tail = nullptr;
      std::size_t tail_len = 0;
      bool open = false;
      // buffer runs: the internal buffer of the buffer_input in flight
      char* buf = nullptr;
      std::size_t cap = 0;
      const char* buf_end = nullptr;
      long windows = 0;
   } H;

   const char* const op_name[] = { "peek_char", "bump", "bump_in_this_line", "bump_to_next_line" };

   inline void on_window_violation( int op, const void* /*input*/, std::size_t request, std::size_t available )
   {
      if( H.fired++ == 0 ) {
         H.op = op & 3;
         H.request = request;
         H.available = available;
      }
      // the fault is recorded; let the access go through so that the sweep continues
      if( H.tail && !H.open ) {
         VERIF_UNPOISON( H.tail, H.tail_len );
         H.open = true;
      }
      if( H.buf ) VERIF_UNPOISON( H.buf, H.cap );
   }

   // buffer_input: after every require()/discard(): [buffer,end) is data, [end,buffer+capacity) has not been delivered
   inline void on_buffer_window( const void* /*input*/, const char* buffer, std::size_t capacity, const char* /*current*/, const char* end )
   {
      char* b = const_cast< char* >( buffer );
      char* e = const_cast< char* >( end );
      H.buf = b;
      H.cap = capacity;
      H.buf_end = end;
      ++H.windows;
      if( e > b ) VERIF_UNPOISON( b, std::size_t( e - b ) );
      if( e < b + capacity ) VERIF_POISON( e, std::size_t( b + capacity - e ) );
   }

   inline void install_hooks()
   {
      pegtl::internal::verif::hooks.window_violation = &on_window_violation;
      pegtl::internal::verif::hooks.buffer_window = &on_buffer_window;
   }

   // ------------------------------------------------------------------ buffer_input runs
   // reader over bytes that live in an exact-size heap block; delivers short pieces
   struct piece_reader
   {
      const char* p;
      const char* e;
      std::uint64_t s;
      int mode;  // 0: as much as asked for, 1: random 1..asked, 2: one byte at a time
      piece_reader( const char* b, const char* en, std::uint64_t seed, int m ) : p( b ), e( en ), s( seed | 1 ), mode( m ) {}
      std::size_t operator()( char* dst, const std::size_t len )
      {
         std::size_t k = std::min( len, std::size_t( e - p ) );
         if( k > 1 ) {
            if( mode == 1 ) {
               s ^= s << 13;
               s ^= s >> 7;
               s ^= s << 17;
               k = 1 + std::size_t( s % k );
            }
            else if( mode == 2 ) k = 1;
         }
         if( k ) {
            VERIF_UNPOISON( dst, k );  // the hook has poisoned everything behind the data delivered so far
            std::memcpy( dst, p, k );
            p += k;
         }
         return k;
      }
   };

   template< typename Eol = pegtl::eol::lf_crlf >
   using buf_input = pegtl::buffer_input< piece_reader, Eol, std::string, 4 >;

   struct buf_outcome : outcome
   {
      long windows = 0;
   };

   // maximum + 4 must be a multiple of 8 (ASan shadow granularity)
   template< typename Rule,
             typename Eol = pegtl::eol::lf_crlf,
             template< typename... > class Action = pegtl::nothing,
             template< typename... > class Control = pegtl::normal >
   outcome buf( const char* b, const char* e, const std::size_t maximum, const int mode )
   {
      buf_input< Eol > in( "c03", maximum, b, e, std::uint64_t( e - b ) * 2654435761u + 12345u, mode );
      char* base = const_cast< char* >( in.current() );
      const std::size_t cap = in.buffer_capacity();
      H.buf = base;
      H.cap = cap;
      H.buf_end = base;
      VERIF_POISON( base, cap );  // nothing has been delivered yet
      outcome o;
      o.code = classify( [ & ] { return pegtl::parse< Rule, Action, Control >( in ); } );
      const char* c = in.current();
      o.cursor_bad = ( c < base ) || ( c > H.buf_end ) || ( c > base + cap );
      o.cursor_off = long( c - base );
      o.consumed = in.byte();
      VERIF_UNPOISON( base, cap );
      H.buf = nullptr;
      return o;
   }

   // ------------------------------------------------------------------ targets
   enum family : int { FAM_TEXT, FAM_U16BE, FAM_U16LE, FAM_U32BE, FAM_U32LE, FAM_BIN };

   using mem_fn = outcome ( * )( const char*, const char* );
   using buf_fn = outcome ( * )( const char*, const char*, std::size_t, int );
   // model for sub-input targets: expected outcome computed from exact-size copies (see file comment)
   using model_fn = outcome ( * )( std::string_view );

   struct target
   {
      std::string name;   // label of the cases, part of the violation keys
      std::string group;  // grammar / rule family (cells)
      mem_fn run = nullptr;
      buf_fn brun = nullptr;
      model_fn model = nullptr;
      std::string filler;  // bytes behind the adaptive part of the poisoned tail
      family fam = FAM_TEXT;
      std::uint64_t id = 0;
   };

   inline target T( std::string name, std::string group, mem_fn run, std::string filler = "", family fam = FAM_TEXT )
   {
      target t;
      t.name = std::move( name );
      t.group = std::move( group );
      t.run = run;
      t.filler = std::move( filler );
      t.fam = fam;
      return t;
   }
   inline target TB( std::string name, std::string group, buf_fn brun, family fam = FAM_TEXT )
   {
      target t;
      t.name = std::move( name );
      t.group = std::move( group );
      t.brun = brun;
      t.fam = fam;
      return t;
   }
   inline target TM( std::string name, std::string group, mem_fn run, model_fn model, std::string filler = "" )
   {
      target t = T( std::move( name ), std::move( group ), run, std::move( filler ) );
      t.model = model;
      return t;
   }

   // ------------------------------------------------------------------ inputs derived from a document
   enum kind : int { K_VALID, K_PREFIX, K_MUT, NK };
   const char* const kind_name[ NK ] = { "valid", "prefix", "mut" };
   enum edit : int { E_NONE, E_REPLACE, E_DELETE, E_INSERT };

   enum cut : int { CUT_NONE, CUT_UNIT, CUT_SURROGATE, CUT_UTF8, CUT_UESC, CUT_XESC, CUT_BACKSLASH, CUT_PCT, CUT_CR, CUT_LBCLOSE, CUT_LBOPEN, CUT_NUM, CUT_WORD, NCUT };
   const char* const cut_name[ NCUT ] = { "-", "inside-code-unit", "between-surrogates", "inside-utf8-sequence", "inside-u-escape", "inside-x-escape", "after-backslash", "inside-pct-encoding",
                                          "between-cr-and-lf", "inside-long-bracket-close", "inside-long-bracket-open", "inside-numeral", "inside-word" };

   inline bool is_hex( unsigned char c ) { return ( c >= '0' && c <= '9' ) || ( c >= 'a' && c <= 'f' ) || ( c >= 'A' && c <= 'F' ); }
   inline bool is_dig( unsigned char c ) { return c >= '0' && c <= '9'; }
   inline bool is_alp( unsigned char c ) { return ( c >= 'a' && c <= 'z' ) || ( c >= 'A' && c <= 'Z' ); }

   // number of continuation bytes still missing from an incomplete UTF-8 sequence at the end of s (0: none incomplete)
   inline int utf8_missing( std::string_view s, unsigned char* lead = nullptr, int* have = nullptr )
   {
      const std::size_t n = s.size();
      for( std::size_t back = 1; back <= 3 && back <= n; ++back ) {
         const unsigned char c = static_cast< unsigned char >( s[ n - back ] );
         if( ( c & 0xC0 ) == 0x80 ) continue;  // continuation byte: look further back
         int need = 0;
         if( ( c & 0xE0 ) == 0xC0 ) need = 1;
         else if( ( c & 0xF0 ) == 0xE0 ) need = 2;
         else if( ( c & 0xF8 ) == 0xF0 ) need = 3;
         else return 0;
         const int got = int( back ) - 1;
         if( got >= need ) return 0;
         if( lead ) *lead = c;
         if( have ) *have = got;
         return need - got;
      }
      return 0;
   }

   // does the prefix doc[0,k) end inside a multi-byte construct of the document?
   inline cut cut_class( std::string_view doc, const std::size_t k, const family fam )
   {
      if( k == 0 || k >= doc.size() ) return CUT_NONE;
      const std::string_view p = doc.substr( 0, k );
      const unsigned char last = static_cast< unsigned char >( p[ k - 1 ] );
      const unsigned char next = static_cast< unsigned char >( doc[ k ] );
      if( fam == FAM_U16BE || fam == FAM_U16LE ) {
         if( k % 2 ) return CUT_UNIT;
         const unsigned char hi = static_cast< unsigned char >( fam == FAM_U16BE ? p[ k - 2 ] : p[ k - 1 ] );
         return ( hi >= 0xD8 && hi <= 0xDB ) ? CUT_SURROGATE : CUT_NONE;
      }
      if( fam == FAM_U32BE || fam == FAM_U32LE ) return ( k % 4 ) ? CUT_UNIT : CUT_NONE;
      if( fam == FAM_BIN ) return ( k % 2 ) ? CUT_UNIT : CUT_NONE;
      if( utf8_missing( p ) > 0 && ( next & 0xC0 ) == 0x80 ) return CUT_UTF8;
      // \uXXXX, \u{XXX}, \xXX, \ddd
      for( std::size_t back = 1; back <= 6 && back <= k; ++back ) {
         const unsigned char c = static_cast< unsigned char >( p[ k - back ] );
         if( c == '\\' ) {
            if( back == 1 ) break;
            const unsigned char t = static_cast< unsigned char >( p[ k - back + 1 ] );
            if( t == 'u' && back <= 5 && ( is_hex( next ) || next == '{' ) ) return CUT_UESC;
            if( t == 'u' && back >= 3 && p[ k - back + 2 ] == '{' && ( is_hex( next ) || next == '}' ) ) return CUT_UESC;
            if( ( t == 'x' || t == 'X' ) && back <= 3 && is_hex( next ) ) return CUT_XESC;
            if( is_dig( t ) && back <= 3 && is_dig( next ) ) return CUT_XESC;
            break;
         }
         if( !( is_hex( c ) || c == 'u' || c == 'x' || c == 'X' || c == '{' ) ) break;
      }
      {
         std::size_t bs = 0;
         while( bs < k && p[ k - 1 - bs ] == '\\' ) ++bs;
         if( bs % 2 ) return CUT_BACKSLASH;
      }
      if( is_hex( next ) && ( last == '%' || ( k >= 2 && p[ k - 2 ] == '%' && is_hex( last ) ) ) ) return CUT_PCT;
      if( last == '\r' && next == '\n' ) return CUT_CR;
      if( ( last == '=' || last == ']' || last == '[' ) && ( next == '=' || next == ']' || next == '[' ) ) {
         std::size_t i = k;
         while( i > 0 && p[ i - 1 ] == '=' ) --i;
         if( i > 0 && p[ i - 1 ] == ']' && ( next == '=' || next == ']' ) ) return CUT_LBCLOSE;
         if( i > 0 && p[ i - 1 ] == '[' && ( next == '=' || next == '[' ) ) return CUT_LBOPEN;
      }
      if( ( is_dig( last ) && ( is_hex( next ) || next == '.' ) ) || ( is_hex( last ) && is_dig( next ) ) || ( ( last == '.' || last == '-' || last == '+' ) && is_dig( next ) ) ) return CUT_NUM;
      if( is_alp( last ) && is_alp( next ) ) return CUT_WORD;
      return CUT_NONE;
   }

   // bytes that would extend what the input ends with
   inline std::string adaptive_filler( std::string_view s, const family fam, const std::uint64_t salt )
   {
      const std::size_t n = s.size();
      switch( fam ) {
         case FAM_U16BE:
            return std::string( ( n % 2 ) ? ( ( salt & 1 ) ? "\x00" : "\xDC" ) : "", n % 2 ) + std::string( "\xDC\x00\x00\x41\xD8\x3D\xDE\x00", 8 );
         case FAM_U16LE:
            return std::string( ( n % 2 ) ? ( ( salt & 1 ) ? "\x00" : "\xDC" ) : "", n % 2 ) + std::string( "\x00\xDC\x41\x00\x3D\xD8\x00\xDE", 8 );
         case FAM_U32BE:
            return std::string( "\x00\x00\x00\x41", 4 ).substr( n % 4 ) + std::string( "\x00\x01\xF6\x00\x00\x00\x00\x41", 8 );
         case FAM_U32LE:
            return std::string( "\x41\x00\x00\x00", 4 ).substr( n % 4 ) + std::string( "\x00\xF6\x01\x00\x41\x00\x00\x00", 8 );
         case FAM_BIN:
            return n ? std::string( 4, s[ n - 1 ] ) : std::string( "\x00\x01", 2 );
         default:
            break;
      }
      if( n == 0 ) return "";
      unsigned char lead = 0;
      int have = 0;
      if( const int miss = utf8_missing( s, &lead, &have ) ) {
         std::string r;
         for( int i = 0; i < miss; ++i ) {
            unsigned char c = 0x80 + ( ( salt >> ( 2 * i ) ) & 0x3F );
            if( have == 0 && i == 0 ) {  // second byte: stay clear of overlong forms, surrogates and > U+10FFFF
               if( lead == 0xE0 ) c = 0xA0;
               else if( lead == 0xED ) c = 0x80;
               else if( lead == 0xF0 ) c = 0x90;
               else if( lead == 0xF4 ) c = 0x80;
            }
            r += char( c );
         }
         return r;
      }
      const unsigned char last = static_cast< unsigned char >( s[ n - 1 ] );
      // inside \uXXXX / \xXX / %XX: hex digits
      for( std::size_t back = 1; back <= 5 && back <= n; ++back ) {
         const unsigned char c = static_cast< unsigned char >( s[ n - back ] );
         if( c == 'u' && back < n && s[ n - back - 1 ] == '\\' ) return std::string( "0041" ).substr( 0, 5 - back );
         if( ( c == 'x' || c == 'X' ) && back < n && s[ n - back - 1 ] == '\\' && back <= 2 ) return std::string( "41" ).substr( 0, 3 - back );
         if( c == '%' && back <= 2 ) return std::string( "41" ).substr( 0, 3 - back );
         if( !is_hex( c ) ) break;
      }
      if( last == '\\' ) return ( salt & 1 ) ? "\"" : "n";
      if( last == '\r' ) return "\n";
      if( last == ']' || last == '=' || last == '[' ) {
         std::size_t i = n;
         while( i > 0 && s[ i - 1 ] == '=' ) --i;
         if( i > 0 && s[ i - 1 ] == ']' ) return std::string( salt % 3, '=' ) + "]";
         if( i > 0 && s[ i - 1 ] == '[' ) return std::string( salt % 3, '=' ) + "[";
      }
      if( is_dig( last ) ) return std::string( "0123456789" ).substr( salt % 7 );
      if( last == '.' || last == '+' || last == '-' || last == ':' ) return "12";
      return std::string( 1 + salt % 3, char( last ) );
   }

   struct item
   {
      std::string text;
      kind k = K_VALID;
      edit e = E_NONE;
      cut c = CUT_NONE;
   };

   // hostile single-byte replacements (the brief's set) and a few structural bytes
   const unsigned char HOSTILE[] = { 0x00, 0x80, 0xC2, 0xE0, 0xF0, 0xF4, 0xFF, '"', '\\', '7', ']', '\r', '\n' };
   constexpr unsigned NHOSTILE = sizeof HOSTILE;
   const unsigned char EXTRA[] = { '[', '=', '%', '0', 'u', ';', ' ', '\'', '-', 'e', 0xBF, 0xED };
   constexpr unsigned NEXTRA = sizeof EXTRA;

   // ------------------------------------------------------------------ counters
   struct group_cells
   {
      long n[ NK ][ 3 ][ 2 ] = {};  // kind x outcome( accept, reject, exception ) x placement( memory_input, buffer_input )
      long tail_runs = 0, exact_runs = 0;  // memory placements: poisoned tail, exact-size block (same outcome, or a violation is reported)
      long cuts[ NCUT ] = {};
      long edits[ 4 ] = {};
      long exc[ 6 ] = {};
      long buffer_same = 0, buffer_differs = 0, buffer_overflow = 0;
      long window_hook_fired = 0;
      long unaccepted_valid = 0;
      long model_checks = 0;
   };
   inline std::map< std::string, group_cells >& groups()
   {
      static std::map< std::string, group_cells > g;
      return g;
   }
   struct target_cells
   {
      long n[ 3 ][ 3 ] = {};  // outcome x placement
   };
   inline std::map< std::string, target_cells >& per_target()
   {
      static std::map< std::string, target_cells > g;
      return g;
   }

   inline int oc3( const int code ) { return code == ACCEPT ? 0 : code == REJECT ? 1 : 2; }
   const char* const oc3_name[ 3 ] = { "accept", "reject", "exception" };
   const char* const place_name[ 3 ] = { "tail", "exact", "buffer" };
   const char* const place2_name[ 2 ] = { "memory", "buffer" };

   inline void flush_cells()
   {
      for( const auto& [ g, c ] : groups() ) {
         for( int k = 0; k < NK; ++k )
            for( int o = 0; o < 3; ++o )
               for( int p = 0; p < 2; ++p )
                  if( c.n[ k ][ o ][ p ] ) V.count( g + "|" + kind_name[ k ] + "|" + oc3_name[ o ] + "|" + place2_name[ p ], c.n[ k ][ o ][ p ] );
         if( c.tail_runs ) V.count( "poisoned-tail-runs", c.tail_runs );
         if( c.exact_runs ) V.count( "exact-size-runs|" + g, c.exact_runs );
         for( int i = 1; i < NCUT; ++i )
            if( c.cuts[ i ] ) V.count( "cut|" + g + "|" + cut_name[ i ], c.cuts[ i ] );
         static const char* const en[ 4 ] = { "", "replace", "delete", "insert" };
         for( int i = 1; i < 4; ++i )
            if( c.edits[ i ] ) V.count( std::string( "edit|" ) + en[ i ], c.edits[ i ] );
         for( int i = 2; i < 6; ++i )
            if( c.exc[ i ] ) V.count( "exception|" + g + "|" + code_name[ i ], c.exc[ i ] );
         if( c.buffer_same ) V.count( "buffer-vs-memory|same-verdict-and-consumption", c.buffer_same );
         if( c.buffer_differs ) V.count( "buffer-vs-memory|differs", c.buffer_differs );
         if( c.buffer_overflow ) V.count( "buffer-overflow_error", c.buffer_overflow );
         if( c.window_hook_fired ) V.count( "left-window|" + g, c.window_hook_fired );
         if( c.unaccepted_valid ) V.count( "document-not-accepted-by-a-target", c.unaccepted_valid );
         if( c.model_checks ) V.count( "sub-window-model-checks|" + g, c.model_checks );
      }
      for( const auto& [ t, c ] : per_target() )
         for( int o = 0; o < 3; ++o )
            for( int p = 0; p < 3; ++p )
               if( c.n[ o ][ p ] ) V.count( "inv:" + t + "|" + place_name[ p ] + "|" + oc3_name[ o ], c.n[ o ][ p ] );
   }

   inline std::string replay_json( const target& t, std::string_view s, const char* placement )
   {
      return "{\"target\":\"" + verif::jesc( t.name ) + "\",\"placement\":\"" + placement + "\",\"input_hex\":\"" + verif::hex( s ) + "\",\"input\":\"" + verif::jesc( s ) + "\"}";
   }

   inline std::string describe( const outcome& o )
   {
      return std::string( code_name[ o.code ] ) + ", " + std::to_string( o.consumed ) + " bytes consumed, action digest " + std::to_string( o.extra );
   }

   inline std::size_t tail_bytes( const verif::guarded_buffer& gb ) { return ( ( ( gb.size + gb.tail + 7 ) & ~std::size_t( 7 ) ) + 8 ) - gb.size; }

   // one memory run in a guarded buffer; returns the outcome, sets H.fired
   inline outcome run_placed( const target& t, std::string_view s, const int mode, const std::string& filler )
   {
      verif::guarded_buffer gb( s, mode, filler );
      H.fired = 0;
      H.open = false;
      H.tail = ( mode == 1 ) ? gb.base + gb.size : nullptr;
      H.tail_len = ( mode == 1 ) ? tail_bytes( gb ) : 0;
      const outcome o = t.run( gb.begin(), gb.end() );
      if( H.open ) {
         VERIF_POISON( H.tail, H.tail_len );
         H.open = false;
      }
      H.tail = nullptr;
      return o;
   }

   inline long samples_taken = 0;

   // monitor one (target, input) pair in the memory placements
   inline void exec_mem( const target& t, const item& it, const std::string_view doc )
   {
      const std::string_view s = it.text;
      V.cur_data = s.data();
      V.cur_len = s.size();
      group_cells& G = groups()[ t.group ];
      target_cells& TC = per_target()[ t.name ];
      const std::uint64_t salt = fnv( s, t.id );
      const std::string filler = adaptive_filler( s, t.fam, salt >> 8 ) + ( t.filler.empty() ? std::string( "\0", 1 ) : t.filler );

      V.set_extra( "tail" );
      const outcome a = run_placed( t, s, 1, filler );
      ++V.evaluations;
      ++G.n[ it.k ][ oc3( a.code ) ][ 0 ];
      ++G.tail_runs;
      ++TC.n[ oc3( a.code ) ][ 0 ];
      if( a.code >= 2 ) ++G.exc[ a.code ];
      if( it.k == K_VALID && a.code != ACCEPT ) {
         ++G.unaccepted_valid;
         static const bool dbg = std::getenv( "C03_DEBUG" ) != nullptr;  // diagnostics only
         if( dbg ) std::fprintf( stderr, "document not accepted: %s: %s [%s] after %zu bytes: '%s'\n", t.name.c_str(), code_name[ a.code ], last_error.c_str(), a.consumed, verif::show( s ).c_str() );
      }
      if( it.k == K_PREFIX ) ++G.cuts[ it.c ];
      if( it.k == K_MUT ) ++G.edits[ it.e ];
      if( a.cursor_bad )
         V.violation( "C03", "C03|" + t.name + "|cursor-outside-input", t.name + " on '" + verif::show( s ) + "' (" + std::to_string( s.size() ) + " bytes, poisoned tail): cursor ends at offset " + std::to_string( a.cursor_off ) + " of the input", replay_json( t, s, "tail" ) );
      if( H.fired ) {
         ++G.window_hook_fired;
         V.violation( "C03", "C03|" + t.name + "|window|" + op_name[ H.op ],
                      t.name + " on '" + verif::show( s ) + "' (" + std::to_string( s.size() ) + " bytes): " + op_name[ H.op ] + "(" + std::to_string( H.request ) + ") with " + std::to_string( H.available ) + " bytes left in the input, " + std::to_string( H.fired )
                         + " accesses outside the window; bytes behind the end were '" + verif::show( filler.substr( 0, 8 ) ) + "', result " + describe( a ),
                      replay_json( t, s, "tail" ) );
      }
      else {
         V.set_extra( "exact" );
         const outcome b = run_placed( t, s, 0, "" );
         ++V.evaluations;
         ++G.exact_runs;
         ++TC.n[ oc3( b.code ) ][ 1 ];
         if( b.cursor_bad )
            V.violation( "C03", "C03|" + t.name + "|cursor-outside-input", t.name + " on '" + verif::show( s ) + "' (" + std::to_string( s.size() ) + " bytes, exact-size block): cursor ends at offset " + std::to_string( b.cursor_off ) + " of the input", replay_json( t, s, "exact" ) );
         if( H.fired )  // cannot happen without an ASan report when the tail run was silent, unless the result depends on the bytes behind the end
            V.violation( "C03", "C03|" + t.name + "|window|" + op_name[ H.op ], t.name + " on '" + verif::show( s ) + "' (exact-size block): " + op_name[ H.op ] + "(" + std::to_string( H.request ) + ") with " + std::to_string( H.available ) + " bytes left", replay_json( t, s, "exact" ) );
         if( a.code != b.code || a.consumed != b.consumed || a.extra != b.extra )
            V.violation( "C03", "C03|" + t.name + "|result-depends-on-bytes-behind-end",
                         t.name + " on '" + verif::show( s ) + "' (" + std::to_string( s.size() ) + " bytes): with '" + verif::show( filler.substr( 0, 8 ) ) + "' behind the end: " + describe( a ) + "; on the exact-size block: " + describe( b ) + "; window hook silent",
                         replay_json( t, s, "tail-vs-exact" ) );
         if( t.model ) {
            const outcome m = t.model( s );
            ++G.model_checks;
            // (after a local failure the cursor position is unspecified: parse<>() runs with rewind_mode::optional)
            if( m.code != b.code || ( b.code == ACCEPT && m.consumed != b.consumed ) )
               V.violation( "C03", "C03|" + t.name + "|result-depends-on-bytes-behind-end",
                            t.name + " on '" + verif::show( s ) + "': " + describe( b ) + "; the inner rule on an exact-size copy of the sub-window gives: " + describe( m ) + " (bytes behind the sub-window influence the result)",
                            replay_json( t, s, "sub-window-model" ) );
         }
      }
      if( it.k != K_VALID && !s.empty() ) ++V.nontrivial;
      if( samples_taken < 6 && it.k != K_VALID && s.size() >= 4 && ( ( salt >> 20 ) % 97 ) == 0 ) {
         ++samples_taken;
         V.sample( "{\"target\":\"" + verif::jesc( t.name ) + "\",\"kind\":\"" + kind_name[ it.k ] + "\",\"of_document\":\"" + verif::jesc( doc.substr( 0, 80 ) ) + "\",\"input\":\"" + verif::jesc( s.substr( 0, 120 ) ) + "\",\"cut\":\"" + cut_name[ it.c ]
                   + "\",\"result\":\"" + code_name[ a.code ] + "\",\"consumed\":" + std::to_string( a.consumed ) + "}" );
      }
   }

   // monitor one (target, input) pair through buffer_input
   inline void exec_buf( const target& t, const item& it, const std::string_view /*doc*/, const mem_fn reference )
   {
      const std::string_view s = it.text;
      V.cur_data = s.data();
      V.cur_len = s.size();
      group_cells& G = groups()[ t.group ];
      target_cells& TC = per_target()[ t.name ];
      const std::uint64_t salt = fnv( s, t.id );
      verif::guarded_buffer src( s, 0 );
      outcome ref;
      bool have_ref = false;
      for( int cfg = 0; cfg < 2; ++cfg ) {
         // ample buffer with random short reads; small buffer (8 + 4 bytes ... 24 + 4) fed byte by byte or in full pieces
         const std::size_t maximum = ( cfg == 0 ) ? 4092 : ( 4 + 8 * ( ( salt >> 4 ) % 3 ) );
         const int mode = ( cfg == 0 ) ? 1 : int( ( salt >> 9 ) % 3 );
         V.set_extra( cfg == 0 ? "buffer-ample" : "buffer-small" );
         H.fired = 0;
         H.windows = 0;
         const outcome o = t.brun( src.begin(), src.end(), maximum, mode );
         ++V.evaluations;
         ++G.n[ it.k ][ oc3( o.code ) ][ 1 ];
         ++TC.n[ oc3( o.code ) ][ 2 ];
         if( o.code >= 2 ) ++G.exc[ o.code ];
         if( o.code == OVERFLOW_ERROR ) ++G.buffer_overflow;
         if( o.cursor_bad )
            V.violation( "C03", "C03|" + t.name + "|cursor-outside-input", t.name + " on '" + verif::show( s ) + "' through buffer_input (maximum " + std::to_string( maximum ) + "): cursor ends at offset " + std::to_string( o.cursor_off ) + " of the internal buffer, outside the delivered data", replay_json( t, s, "buffer" ) );
         if( H.fired ) {
            ++G.window_hook_fired;
            V.violation( "C03", "C03|" + t.name + "|window|" + op_name[ H.op ],
                         t.name + " on '" + verif::show( s ) + "' through buffer_input (maximum " + std::to_string( maximum ) + ", reader mode " + std::to_string( mode ) + "): " + op_name[ H.op ] + "(" + std::to_string( H.request ) + ") with " + std::to_string( H.available ) + " bytes in the buffer window",
                         replay_json( t, s, "buffer" ) );
         }
         if( cfg == 0 && reference && o.code != OVERFLOW_ERROR ) {
            if( !have_ref ) {
               verif::guarded_buffer gb( s, 0 );
               H.tail = nullptr;
               ref = reference( gb.begin(), gb.end() );
               have_ref = true;
            }
            if( ref.code == o.code && ref.consumed == o.consumed ) ++G.buffer_same;
            else ++G.buffer_differs;
         }
      }
      if( it.k == K_PREFIX ) ++G.cuts[ it.c ];
      if( it.k == K_MUT ) ++G.edits[ it.e ];
      if( it.k != K_VALID && !s.empty() ) ++V.nontrivial;
   }

   // ------------------------------------------------------------------ the sweep over one document
   struct sweep_cfg
   {
      bool sample_only = false;          // buffer parts: a few mutants per offset
      const unsigned char* extra = nullptr;  // additional replacement bytes for this grammar
      unsigned nextra = 0;
   };

   inline std::uint64_t next_target_id = 1;

   struct job
   {
      std::vector< target > targets;
      std::vector< std::string > docs;
      std::vector< mem_fn > references;  // buffer targets: the same rule on a memory_input (informational comparison)
      sweep_cfg cfg;
   };

   inline void run_block( job& j, const std::string& doc, std::vector< item >& block )
   {
      for( std::size_t ti = 0; ti < j.targets.size(); ++ti ) {
         target& t = j.targets[ ti ];
         // the distinct() filter runs in every shard (before begin_case) so that all shards number the cases identically
         std::vector< const item* > todo;
         for( const item& it : block )
            if( V.distinct( it.text, t.id * 0x9E3779B97F4A7C15ull ) ) todo.push_back( &it );
         if( !V.begin_case( "C03", t.name.c_str(), doc.data(), doc.size() ) ) continue;
         for( const item* it : todo ) {
            if( t.brun ) exec_buf( t, *it, doc, ti < j.references.size() ? j.references[ ti ] : nullptr );
            else exec_mem( t, *it, doc );
         }
      }
      block.clear();
   }

   inline void sweep_document( job& j, const std::string& doc, verif::rng& r )
   {
      const family fam = j.targets.front().fam;
      const std::size_t n = doc.size();
      std::vector< item > block;
      // the document and every proper prefix
      block.push_back( { doc, K_VALID, E_NONE, CUT_NONE } );
      for( std::size_t k = 0; k < n; ++k ) {
         block.push_back( { doc.substr( 0, k ), K_PREFIX, E_NONE, cut_class( doc, k, fam ) } );
         if( block.size() >= 96 ) run_block( j, doc, block );
      }
      run_block( j, doc, block );
      // single-byte replacements at every offset
      const bool all = V.thorough() && !j.cfg.sample_only;
      const unsigned per_offset = j.cfg.sample_only ? 2 : NHOSTILE + 2;
      for( std::size_t i = 0; i < n; ++i ) {
         const unsigned total = NHOSTILE + NEXTRA + j.cfg.nextra;
         const auto byte_at = [ & ]( unsigned x ) -> unsigned char { return x < NHOSTILE ? HOSTILE[ x ] : x < NHOSTILE + NEXTRA ? EXTRA[ x - NHOSTILE ] : j.cfg.extra[ x - NHOSTILE - NEXTRA ]; };
         if( all ) {
            for( unsigned x = 0; x < total; ++x ) {
               const unsigned char c = byte_at( x );
               if( c == static_cast< unsigned char >( doc[ i ] ) ) continue;
               item it{ doc, K_MUT, E_REPLACE, CUT_NONE };
               it.text[ i ] = char( c );
               block.push_back( std::move( it ) );
            }
         }
         else {
            // quick: the whole hostile set plus two random bytes of the structural set; buffer sample: two bytes of the hostile set
            const unsigned start = unsigned( r.below( NHOSTILE ) );
            for( unsigned q = 0; q < per_offset; ++q ) {
               const unsigned char c = ( q < NHOSTILE ) ? HOSTILE[ ( start + q * 3 ) % NHOSTILE ] : byte_at( NHOSTILE + unsigned( r.below( total - NHOSTILE ) ) );
               if( c == static_cast< unsigned char >( doc[ i ] ) ) continue;
               item it{ doc, K_MUT, E_REPLACE, CUT_NONE };
               it.text[ i ] = char( c );
               block.push_back( std::move( it ) );
            }
         }
         if( block.size() >= 96 ) run_block( j, doc, block );
      }
      run_block( j, doc, block );
      // deletions and insertions: a seeded sample of offsets (thorough: every offset)
      const std::size_t nsample = j.cfg.sample_only ? std::min< std::size_t >( n, 8 ) : V.thorough() ? n : std::min< std::size_t >( n, 40 );
      for( std::size_t q = 0; q < nsample; ++q ) {
         const std::size_t i = ( nsample == n ) ? q : std::size_t( r.below( n ) );
         if( i + 1 < n && doc[ i ] != doc[ i + 1 ] ) {  // deleting the last byte is the longest prefix; equal neighbours give equal results
            item it{ doc, K_MUT, E_DELETE, CUT_NONE };
            it.text.erase( i, 1 );
            block.push_back( std::move( it ) );
         }
         const unsigned total = NHOSTILE + NEXTRA + j.cfg.nextra;
         const unsigned x = unsigned( r.below( total ) );
         const unsigned char c = x < NHOSTILE ? HOSTILE[ x ] : x < NHOSTILE + NEXTRA ? EXTRA[ x - NHOSTILE ] : j.cfg.extra[ x - NHOSTILE - NEXTRA ];
         const std::size_t pos = ( q % 5 == 0 ) ? n : i;  // also behind the last byte
         if( pos == n || static_cast< unsigned char >( doc[ pos ] ) != c ) {
            item it{ doc, K_MUT, E_INSERT, CUT_NONE };
            it.text.insert( it.text.begin() + long( pos ), char( c ) );
            block.push_back( std::move( it ) );
         }
         if( block.size() >= 96 ) run_block( j, doc, block );
      }
      run_block( j, doc, block );
   }

   inline void run_job( job& j, const std::uint64_t stream )
   {
      for( target& t : j.targets ) t.id = next_target_id++;
      verif::rng r( V.seed * 1000003ull + stream );
      for( const std::string& d : j.docs ) sweep_document( j, d, r );
   }

   template< typename R >
   using to_eof = pegtl::seq< R, pegtl::eof >;

   // one rule with its own documents
   template< typename R >
   void single( const char* name, const char* group, std::vector< std::string > docs, const std::string& filler, const std::uint64_t stream, const family fam = FAM_TEXT )
   {
      job j;
      j.targets = { T( name, group, &mem< R >, filler, fam ) };
      j.docs = std::move( docs );
      run_job( j, stream );
   }

   // ------------------------------------------------------------------ small helpers for the document generators
   struct gen
   {
      verif::rng r;
      explicit gen( std::uint64_t stream ) : r( V.seed * 7919ull + stream ) {}
      std::size_t below( std::size_t n ) { return std::size_t( r.below( n ) ); }
      bool chance( unsigned a, unsigned b ) { return r.chance( a, b ); }
      char pick( std::string_view set ) { return set[ below( set.size() ) ]; }
      template< typename C >
      const auto& of( const C& c ) { return c[ below( c.size() ) ]; }
      std::string word( std::size_t lo, std::size_t hi, std::string_view set = "abcdefghijklmnopqrstuvwxyz" )
      {
         std::string s;
         const std::size_t n = lo + below( hi - lo + 1 );
         for( std::size_t i = 0; i < n; ++i ) s += pick( set );
         return s;
      }
      std::string digits( std::size_t lo, std::size_t hi ) { return word( lo, hi, "0123456789" ); }
      std::string hexs( std::size_t lo, std::size_t hi ) { return word( lo, hi, "0123456789abcdefABCDEF" ); }
   };

   inline std::size_t ndocs( std::size_t quick, std::size_t thorough ) { return V.thorough() ? thorough : quick; }

   inline std::string utf8_of( char32_t c )
   {
      std::string s;
      if( c < 0x80 ) s += char( c );
      else if( c < 0x800 ) {
         s += char( 0xC0 | ( c >> 6 ) );
         s += char( 0x80 | ( c & 0x3F ) );
      }
      else if( c < 0x10000 ) {
         s += char( 0xE0 | ( c >> 12 ) );
         s += char( 0x80 | ( ( c >> 6 ) & 0x3F ) );
         s += char( 0x80 | ( c & 0x3F ) );
      }
      else {
         s += char( 0xF0 | ( c >> 18 ) );
         s += char( 0x80 | ( ( c >> 12 ) & 0x3F ) );
         s += char( 0x80 | ( ( c >> 6 ) & 0x3F ) );
         s += char( 0x80 | ( c & 0x3F ) );
      }
      return s;
   }

}  // namespace c03

// ====================================================================== JSON (parts 1, 9)
#if C03_HAS( 1 ) || C03_HAS( 9 )
#include <tao/pegtl/contrib/json.hpp>

#include "json_errors.hpp"
#include "json_unescape.hpp"

namespace c03
{
   using json_top = pegtl::seq< pegtl::json::text, pegtl::eof >;

   struct json_out
   {
      std::string text;
   };
   template< typename Rule >
   struct json_action
   {};
   template<>
   struct json_action< pegtl::json::string::content > : example::json_unescape
   {
      template< typename ParseInput >
      static void success( const ParseInput& /*unused*/, std::string& s, json_out& o )
      {
         o.text += s;
         o.text += '\x1f';
      }
   };
   template<>
   struct json_action< pegtl::json::key::content > : example::json_unescape
   {
      template< typename ParseInput >
      static void success( const ParseInput& /*unused*/, std::string& s, json_out& o )
      {
         o.text += s;
         o.text += '\x1e';
      }
   };
   template<>
   struct json_action< pegtl::json::number >
   {
      template< typename ActionInput >
      static void apply( const ActionInput& in, json_out& o )
      {
         o.text.append( in.begin(), in.size() );
         o.text += '\x1d';
      }
   };

   // the example's way of parsing JSON: unescape actions (contrib/unescape.hpp via json_unescape.hpp) and the must_if control of json_errors.hpp
   inline outcome json_with_actions( const char* b, const char* e )
   {
      pegtl::memory_input<> in( b, e, "c03" );
      json_out out;
      outcome o = guarded( in, b, e, [ & ] { return pegtl::parse< json_top, json_action, example::control >( in, out ); } );
      o.extra = fnv( out.text );
      return o;
   }
   inline outcome json_with_actions_buf( const char* b, const char* e, const std::size_t maximum, const int mode )
   {
      buf_input<> in( "c03", maximum, b, e, std::uint64_t( e - b ) * 2654435761u + 12345u, mode );
      char* base = const_cast< char* >( in.current() );
      const std::size_t cap = in.buffer_capacity();
      H.buf = base;
      H.cap = cap;
      H.buf_end = base;
      VERIF_POISON( base, cap );
      json_out out;
      outcome o;
      o.code = classify( [ & ] { return pegtl::parse< json_top, json_action, example::control >( in, out ); } );
      const char* c = in.current();
      o.cursor_bad = ( c < base ) || ( c > H.buf_end ) || ( c > base + cap );
      o.cursor_off = long( c - base );
      o.consumed = in.byte();
      o.extra = fnv( out.text );
      VERIF_UNPOISON( base, cap );
      H.buf = nullptr;
      return o;
   }

   inline std::string hex4( unsigned v, gen& g )
   {
      static const char* lo = "0123456789abcdef";
      static const char* up = "0123456789ABCDEF";
      const char* d = g.chance( 1, 2 ) ? lo : up;
      std::string s;
      for( int sh = 12; sh >= 0; sh -= 4 ) s += d[ ( v >> sh ) & 15 ];
      return s;
   }

   inline std::string json_string( gen& g, std::size_t maxlen )
   {
      static const char* const esc[] = { "\\\"", "\\\\", "\\/", "\\b", "\\f", "\\n", "\\r", "\\t" };
      static const unsigned bmp[] = { 0x41, 0xe9, 0x20ac, 0x6771, 0x7f, 0x80, 0x7ff, 0x800, 0xffff, 0xd7ff, 0xe000 };
      static const char32_t raw[] = { 0xe9, 0x20ac, 0x1F600, 0x7ff, 0x800, 0xffff, 0x10000, 0x10ffff, 0x80 };
      std::string s = "\"";
      const std::size_t n = g.below( maxlen + 1 );
      for( std::size_t i = 0; i < n; ++i ) {
         switch( g.below( 10 ) ) {
            case 0: s += esc[ g.below( 8 ) ]; break;
            case 1: s += "\\u" + hex4( bmp[ g.below( sizeof bmp / sizeof bmp[ 0 ] ) ], g ); break;
            case 2: s += "\\u" + hex4( 0xD800 + unsigned( g.below( 0x400 ) ), g ) + "\\u" + hex4( 0xDC00 + unsigned( g.below( 0x400 ) ), g ); break;
            case 3: s += utf8_of( raw[ g.below( sizeof raw / sizeof raw[ 0 ] ) ] ); break;
            default: s += g.pick( "abcdefghijklmnopqrstuvwxyzABCXYZ0123456789 _-.,:;[]{}/'%u" ); break;
         }
      }
      return s + "\"";
   }
   inline std::string json_number( gen& g )
   {
      std::string s = g.chance( 1, 3 ) ? "-" : "";
      s += g.chance( 1, 4 ) ? std::string( "0" ) : std::string( 1, g.pick( "123456789" ) ) + g.digits( 0, 5 );
      if( g.chance( 1, 3 ) ) s += "." + g.digits( 1, 4 );
      if( g.chance( 1, 3 ) ) s += std::string( 1, g.pick( "eE" ) ) + std::string( g.chance( 1, 2 ) ? ( g.chance( 1, 2 ) ? "+" : "-" ) : "" ) + g.digits( 1, 3 );
      return s;
   }
   inline std::string json_ws( gen& g )
   {
      static const char* const w[] = { " ", "\n", "\r\n", "\t", "  ", "\r" };
      return g.chance( 1, 3 ) ? w[ g.below( 6 ) ] : "";
   }
   inline std::string json_value( gen& g, const int depth )
   {
      const std::size_t k = g.below( depth > 0 ? 9 : 6 );
      switch( k ) {
         case 0: return "true";
         case 1: return "false";
         case 2: return "null";
         case 3: case 4: return json_number( g );
         case 5: return json_string( g, 8 );
         case 6: case 7: {
            std::string s = "[" + json_ws( g );
            const std::size_t n = g.below( 4 );
            for( std::size_t i = 0; i < n; ++i ) s += ( i ? "," + json_ws( g ) : std::string() ) + json_value( g, depth - 1 ) + json_ws( g );
            return s + "]";
         }
         default: {
            std::string s = "{" + json_ws( g );
            const std::size_t n = g.below( 4 );
            for( std::size_t i = 0; i < n; ++i ) s += ( i ? "," + json_ws( g ) : std::string() ) + json_string( g, 4 ) + json_ws( g ) + ":" + json_ws( g ) + json_value( g, depth - 1 ) + json_ws( g );
            return s + "}";
         }
      }
   }

   inline std::vector< std::string > json_docs( const std::size_t nrandom )
   {
      std::vector< std::string > d = {
         "{\"a\\u00e9\\uD83D\\uDE00\\n\\\"\\\\\\/\\b\\f\\r\\t\":[1,-2.5e+3,0,true,false,null,\"\xC3\xA9\xE2\x82\xAC\xF0\x9F\x98\x80\"],\r\n \"k\":{},\"e\":[]}",
         " [ \"\\u0041\\u00DF\\u6771\\uD801\\uDC37\" , 12345678901234567890 , -0.0E-0 ]\n",
         "\"\\u20AC\xF4\x8F\xBF\xBF\"",
         "[[[\"]\"]],{\"\":\"\\\\\"}]",
         "-12.50e-07\r\n",
      };
      gen g( 101 );
      while( d.size() < 5 + nrandom ) {
         std::string s = json_ws( g ) + json_value( g, 3 ) + json_ws( g );
         if( s.size() >= 12 && s.size() <= 200 ) d.push_back( std::move( s ) );
      }
      return d;
   }

#if C03_HAS( 1 )
   inline void part_json()
   {
      const std::string close = "\"]}]}\"]}]} \"]}";
      {
         job j;
         j.targets = { T( "json::text", "json", &mem< json_top >, close ), T( "json::text+unescape-actions", "json", &json_with_actions, close ) };
         j.docs = json_docs( ndocs( 10, 160 ) );
         run_job( j, 1 );
      }
      {
         job j;
         j.targets = { T( "json::string", "json", &mem< pegtl::json::string >, close ), T( "json::key", "json", &mem< pegtl::json::key >, close ) };
         gen g( 102 );
         j.docs = { "\"a\\u00e9\\uD83D\\uDE00\\n\\\"\"", "\"\xC3\xA9\xE2\x82\xAC\xF0\x9F\x98\x80\"", "\"\\\\\"", "\"\"" };
         for( std::size_t i = 0; i < ndocs( 6, 120 ); ++i ) j.docs.push_back( json_string( g, 10 ) );
         run_job( j, 2 );
      }
      {
         job j;
         j.targets = { T( "json::number", "json", &mem< pegtl::json::number >, "0123456789" ), T( "json::value", "json", &mem< pegtl::json::value >, "0123456789" ) };
         gen g( 103 );
         j.docs = { "0", "-0.5", "12e+10", "1E-2", "-123.456e789", "1.0" };
         for( std::size_t i = 0; i < ndocs( 6, 120 ); ++i ) j.docs.push_back( json_number( g ) );
         run_job( j, 3 );
      }
   }
#endif
}  // namespace c03
#endif

// ====================================================================== URI, IRI (parts 2, 9)
#if C03_HAS( 2 ) || C03_HAS( 9 )
#include <tao/pegtl/contrib/iri.hpp>
#include <tao/pegtl/contrib/uri.hpp>

namespace c03
{
   struct urigen
   {
      gen& g;
      bool iri;
      std::string pct() { return std::string( "%" ) + g.hexs( 2, 2 ); }
      std::string ucs()
      {
         static const char32_t u[] = { 0xA0, 0xE9, 0x7FF, 0x800, 0x20AC, 0x6771, 0xD7FF, 0xF900, 0xFFEF, 0x10000, 0x1F600, 0x2FFFD, 0xE1000, 0xEFFFD };
         return utf8_of( u[ g.below( sizeof u / sizeof u[ 0 ] ) ] );
      }
      std::string chars( std::size_t lo, std::size_t hi, std::string_view extra )
      {
         std::string s;
         const std::size_t n = lo + g.below( hi - lo + 1 );
         for( std::size_t i = 0; i < n; ++i ) {
            const std::size_t k = g.below( 12 );
            if( k < 5 ) s += g.pick( "abcxyzABZ019-._~" );
            else if( k < 6 ) s += g.pick( "!$&'()*+,;=" );
            else if( k < 8 ) s += pct();
            else if( k < 9 && !extra.empty() ) s += g.pick( extra );
            else if( k < 11 && iri ) s += ucs();
            else s += g.pick( "abc123" );
         }
         return s;
      }
      std::string octet()
      {
         static const char* const o[] = { "0", "1", "9", "10", "99", "100", "199", "200", "249", "250", "255" };
         return o[ g.below( 11 ) ];
      }
      std::string v4() { return octet() + "." + octet() + "." + octet() + "." + octet(); }
      std::string h16() { return g.hexs( 1, 4 ); }
      std::string v6()
      {
         switch( g.below( 7 ) ) {
            case 0: return h16() + ":" + h16() + ":" + h16() + ":" + h16() + ":" + h16() + ":" + h16() + ":" + h16() + ":" + h16();
            case 1: return "::" + h16();
            case 2: return h16() + "::" + h16() + ":" + h16();
            case 3: return "::ffff:" + v4();
            case 4: return h16() + ":" + h16() + "::" + v4();
            case 5: return "::";
            default: return h16() + ":" + h16() + ":" + h16() + ":" + h16() + ":" + h16() + ":" + h16() + ":" + v4();
         }
      }
      std::string host()
      {
         switch( g.below( 6 ) ) {
            case 0: return "[" + v6() + "]";
            case 1: return "[v" + g.hexs( 1, 2 ) + "." + g.word( 1, 4, "ab1:-~!" ) + "]";
            case 2: return v4();
            case 3: return v4() + g.word( 1, 2, ".5a" );
            default: return chars( 1, 8, "" );
         }
      }
      std::string authority()
      {
         std::string s;
         if( g.chance( 1, 3 ) ) s += chars( 0, 4, ":" ) + "@";
         s += host();
         if( g.chance( 1, 3 ) ) s += ":" + g.digits( 0, 5 );
         return s;
      }
      std::string path()
      {
         std::string s;
         const std::size_t n = g.below( 4 );
         for( std::size_t i = 0; i < n; ++i ) s += "/" + chars( 0, 5, ":@" );
         return s;
      }
      std::string uri()
      {
         std::string s = g.word( 1, 1 ) + g.word( 0, 4, "abz09+-." ) + ":";
         switch( g.below( 4 ) ) {
            case 0: s += chars( 1, 4, ":@" ) + path(); break;
            case 1: s += "/" + chars( 1, 4, ":@" ) + path(); break;
            default: s += "//" + authority() + path(); break;
         }
         if( g.chance( 1, 2 ) ) s += "?" + chars( 0, 6, ":@/?" );
         if( g.chance( 1, 2 ) ) s += "#" + chars( 0, 6, ":@/?" );
         return s;
      }
      std::string relative()
      {
         std::string s;
         switch( g.below( 3 ) ) {
            case 0: s = chars( 1, 4, "@" ) + path(); break;
            case 1: s = "/" + chars( 1, 4, ":@" ) + path(); break;
            default: s = "//" + authority() + path(); break;
         }
         if( g.chance( 1, 2 ) ) s += "?" + chars( 0, 6, ":@/?" );
         if( g.chance( 1, 2 ) ) s += "#" + chars( 0, 6, ":@/?" );
         return s;
      }
   };

   inline std::vector< std::string > uri_docs( const bool iri, const std::size_t nrandom )
   {
      std::vector< std::string > d = {
         "http://user:pw@[2001:db8::7:1.2.3.4]:8080/p%41th/x;y=1?q=%7e&r#frag%20",
         "ftp://192.168.10.255:21/a/b.txt",
         "x-y.z+1://[v1F.a:b-c]/",
         "https://www.example.com/%E2%82%AC/?k=v#top",
         "mailto:John.Doe@example.com",
         "//h%C3%A9st:99/../g?y#s",
         "../a/b;c?d=e",
         "http://[::ffff:255.255.255.255]/",
         "http://1.2.3.4.5/x",
         "http://255.255.255.2555/",
      };
      if( iri ) {
         d.push_back( "http://ex\xC3\xA4mple.org/p\xE2\x82\xACth/\xF0\x9F\x98\x80?q=\xEE\x80\x80\xF3\xB0\x80\x80#fr\xC3\xA4g" );
         d.push_back( "//\xE6\x9D\xB1\xE4\xBA\xAC.jp/\xF0\x90\x8D\x88" );
         d.push_back( "x:\xC2\xA0\xED\x9F\xBF\xEF\xA4\x80\xF2\xAF\xBF\xBD" );
      }
      gen g( iri ? 202 : 201 );
      urigen u{ g, iri };
      while( d.size() < ( iri ? 13 : 10 ) + nrandom ) {
         std::string s = g.chance( 2, 3 ) ? u.uri() : u.relative();
         if( s.size() >= 8 && s.size() <= 120 ) d.push_back( std::move( s ) );
      }
      return d;
   }

#if C03_HAS( 2 )
   inline void part_uri()
   {
      namespace uri = pegtl::uri;
      namespace iri = pegtl::iri;
      const std::string dig = "0123456789";
      {
         job j;
         j.targets = { T( "uri::URI", "uri", &mem< to_eof< uri::URI > >, dig ), T( "uri::URI_reference", "uri", &mem< to_eof< uri::URI_reference > >, dig ), T( "uri::absolute_URI", "uri", &mem< to_eof< uri::absolute_URI > >, dig ) };
         j.docs = uri_docs( false, ndocs( 12, 240 ) );
         run_job( j, 1 );
      }
      {
         job j;
         j.targets = { T( "iri::IRI", "iri", &mem< to_eof< iri::IRI > >, dig ), T( "iri::IRI_reference", "iri", &mem< to_eof< iri::IRI_reference > >, dig ), T( "iri::absolute_IRI", "iri", &mem< to_eof< iri::absolute_IRI > >, dig ) };
         j.docs = uri_docs( true, ndocs( 12, 240 ) );
         run_job( j, 2 );
      }
      gen g( 203 );
      urigen u{ g, false };
      {
         job j;
         j.targets = { T( "uri::IPv4address", "uri", &mem< uri::IPv4address >, dig ), T( "uri::dec_octet", "uri", &mem< uri::dec_octet >, dig ), T( "uri::host", "uri", &mem< uri::host >, dig ), T( "uri::authority", "uri", &mem< uri::authority >, dig ), T( "iri::ihost", "iri", &mem< iri::ihost >, dig ) };
         j.docs = { "1.2.3.4", "255.255.255.255", "192.168.1.1", "0.0.0.0", "12.34.56.78:80", "u:p@10.0.0.1:8080", "1.2.3.4.5", "1.2.3.4abc", "256.1.1.1", "1.2.3.25" };
         for( std::size_t i = 0; i < ndocs( 10, 200 ); ++i ) j.docs.push_back( u.v4() );
         run_job( j, 3 );
      }
      {
         job j;
         j.targets = { T( "uri::IPv6address", "uri", &mem< uri::IPv6address >, dig ), T( "uri::ls32", "uri", &mem< uri::ls32 >, dig ), T( "uri::h16", "uri", &mem< uri::h16 >, dig ) };
         j.docs = { "::1", "2001:db8::7", "::ffff:1.2.3.4", "1:2:3:4:5:6:7:8", "1:2:3:4:5:6:1.2.3.4", "::", "fe80::1:2:3:4", "1::", "::1.2.3.4", "a:b::c:d:255.255.255.255" };
         for( std::size_t i = 0; i < ndocs( 10, 200 ); ++i ) j.docs.push_back( u.v6() );
         run_job( j, 4 );
      }
      {
         job j;
         j.targets = { T( "uri::IP_literal", "uri", &mem< uri::IP_literal >, dig ), T( "uri::host@literal", "uri", &mem< uri::host >, dig ), T( "uri::authority@literal", "uri", &mem< uri::authority >, dig ), T( "iri::iauthority", "iri", &mem< iri::iauthority >, dig ) };
         j.docs = { "[::1]", "[2001:db8::7]:80", "[::ffff:1.2.3.4]", "[v7.x:y]", "[vFF.a]:1", "u@[1::2]:3" };
         for( std::size_t i = 0; i < ndocs( 6, 120 ); ++i ) j.docs.push_back( "[" + u.v6() + "]" );
         run_job( j, 5 );
      }
      {
         job j;
         j.targets = { T( "uri::pct_encoded", "uri", &mem< uri::pct_encoded >, "41" ), T( "uri::segment", "uri", &mem< uri::segment >, "41" ), T( "uri::reg_name", "uri", &mem< uri::reg_name >, "41" ), T( "uri::query", "uri", &mem< uri::query >, "41" ), T( "iri::isegment", "iri", &mem< iri::isegment >, "41" ), T( "iri::iquery", "iri", &mem< iri::iquery >, "41" ) };
         j.docs = { "%41", "%e9%AF", "a%20b%2Fc", "%C3%A9x", "x%4", "caf\xC3\xA9%20\xE2\x82\xAC", "\xF0\x9F\x98\x80%F0%9F%98%80", "\xEE\x80\x80?\xF3\xB0\x80\x80" };
         run_job( j, 6 );
      }
   }
#endif
}  // namespace c03
#endif
// ====================================================================== HTTP (parts 3, 9)
#if C03_HAS( 3 ) || C03_HAS( 9 )
#include <tao/pegtl/contrib/http.hpp>

namespace c03
{
   namespace http = pegtl::http;
   using chunked_top = pegtl::seq< http::chunked_body, pegtl::eof >;

   // actions as in src/test/pegtl/contrib_http.cpp (chunk rules receive the internal size state in front of the user states)
   template< typename Rule >
   struct chunked_action : pegtl::nothing< Rule >
   {};
   template<>
   struct chunked_action< http::chunk_ext >
   {
      template< typename ActionInput >
      static void apply( const ActionInput& in, std::string& s )
      {
         s += 'a';
         s.append( in.begin(), in.size() );
      }
   };
   template<>
   struct chunked_action< http::chunk_data >
   {
      template< typename ActionInput >
      static void apply( const ActionInput& in, std::string& s )
      {
         s += 'b';
         s.append( in.begin(), in.size() );
      }
   };

   inline outcome chunked_with_actions( const char* b, const char* e )
   {
      pegtl::memory_input<> in( b, e, "c03" );
      std::string st;
      outcome o = guarded( in, b, e, [ & ] { return pegtl::parse< chunked_top, chunked_action >( in, st ); } );
      o.extra = fnv( st );
      return o;
   }

   struct httpgen
   {
      gen& g;
      std::string token() { return g.word( 1, 6, "abcXYZ019!#$%&'*+-.^_`|~" ); }
      std::string value()
      {
         std::string s;
         const std::size_t n = 1 + g.below( 4 );
         for( std::size_t i = 0; i < n; ++i ) {
            if( i ) s += g.chance( 1, 4 ) ? "\r\n " : g.chance( 1, 3 ) ? "\t" : " ";
            s += g.word( 1, 6, "abcdefXYZ0123456789/;=,.\"()<>@*:\\?[]{}\xE9\x80\xFF" );
         }
         return s;
      }
      std::string header()
      {
         static const char* const fixed[] = { "Host: www.example.com:8080", "Content-Length: 12", "Transfer-Encoding: gzip, chunked", "TE: trailers, deflate;q=0.5", "Connection: keep-alive, Upgrade",
                                              "Via: 1.1 proxy (c1 (nested))", "Accept: */*", "X-Empty:", "X-Pad:   v  " };
         if( g.chance( 1, 2 ) ) return fixed[ g.below( sizeof fixed / sizeof fixed[ 0 ] ) ];
         return token() + ":" + ( g.chance( 1, 2 ) ? " " : "" ) + value() + ( g.chance( 1, 4 ) ? " " : "" );
      }
      std::string body()
      {
         std::string s;
         const std::size_t n = g.below( 12 );
         for( std::size_t i = 0; i < n; ++i ) s += char( g.below( 256 ) );
         return s;
      }
      std::string message()
      {
         static const char* const targets[] = { "/", "/index.html?x=1", "/a/b%20c/;p?q=%7e", "*", "http://1.2.3.4:80/p%41?q", "https://[::1]/x", "example.com:443", "[2001:db8::1]:8080", "/caf%C3%A9" };
         static const char* const methods[] = { "GET", "POST", "OPTIONS", "CONNECT", "M-SEARCH", "x" };
         std::string s;
         if( g.chance( 2, 3 ) ) s = std::string( methods[ g.below( 6 ) ] ) + " " + targets[ g.below( 9 ) ] + " HTTP/1." + g.digits( 1, 1 ) + "\r\n";
         else s = "HTTP/" + g.digits( 1, 1 ) + "." + g.digits( 1, 1 ) + " " + g.digits( 3, 3 ) + " " + g.word( 0, 8, "OKNot Found\t\xE9" ) + "\r\n";
         const std::size_t n = g.below( 4 );
         for( std::size_t i = 0; i < n; ++i ) s += header() + "\r\n";
         return s + "\r\n" + body();
      }
      std::string hexsize( std::size_t v )
      {
         char b[ 32 ];
         std::snprintf( b, sizeof b, g.chance( 1, 2 ) ? "%zx" : "%zX", v );
         return std::string( g.below( 3 ), '0' ) + b;
      }
      std::string ext()
      {
         std::string s;
         const std::size_t n = g.below( 3 );
         for( std::size_t i = 0; i < n; ++i ) {
            s += ";" + token();
            s += "=" + ( g.chance( 1, 2 ) ? token() : "\"" + g.word( 0, 5, "ab \t\xE9" ) + ( g.chance( 1, 2 ) ? "\\\"" : "" ) + ( g.chance( 1, 3 ) ? "\\\\" : "" ) + "\"" );
         }
         return s;
      }
      std::string chunked()
      {
         std::string s;
         const std::size_t n = g.below( 4 );
         for( std::size_t i = 0; i < n; ++i ) {
            const std::size_t len = 1 + g.below( g.chance( 1, 3 ) ? 40 : 12 );
            s += hexsize( len ) + ext() + "\r\n";
            for( std::size_t k = 0; k < len; ++k ) s += g.chance( 1, 6 ) ? g.pick( "\r\n0;" ) : char( g.below( 256 ) );
            s += "\r\n";
         }
         s += std::string( 1 + g.below( 3 ), '0' ) + ext() + "\r\n";
         const std::size_t t = g.below( 3 );
         for( std::size_t i = 0; i < t; ++i ) s += header() + "\r\n";
         return s + "\r\n";
      }
   };

   inline std::vector< std::string > http_message_docs( const std::size_t nrandom )
   {
      std::vector< std::string > d = {
         std::string( "GET /index.html?x=1 HTTP/1.1\r\nHost: www.example.com:8080\r\nAccept: */*\r\nX-Folded: a\r\n b\r\n\tc\r\nX-Obs: caf\xE9\r\n\r\nbody bytes\r\n" ) + std::string( "\x00\xff", 2 ),
         "POST http://1.2.3.4:80/p%41?q HTTP/1.0\r\nContent-Length: 5\r\nTransfer-Encoding: gzip, chunked\r\n\r\nhello",
         "CONNECT [::1]:443 HTTP/1.1\r\n\r\n",
         "OPTIONS * HTTP/1.1\r\nTE: trailers, deflate;q=0.5\r\n\r\n",
         "HTTP/1.1 200 OK\r\nServer: x/1.0 (comment)\r\nVia: 1.1 proxy (c1 (nested))\r\n\r\n<html>",
         "HTTP/1.0 404 Not Found \xfc\r\n\r\n",
      };
      gen g( 301 );
      httpgen h{ g };
      while( d.size() < 6 + nrandom ) {
         std::string s = h.message();
         if( s.size() <= 160 ) d.push_back( std::move( s ) );
      }
      return d;
   }

   inline std::vector< std::string > http_chunked_docs( const std::size_t nrandom, const bool with_giant_size )
   {
      std::vector< std::string > d = {
         "4\r\nWiki\r\n5\r\npedia\r\nE\r\n in\r\n\r\nchunks.\r\n0\r\n\r\n",
         "1a;ext=val;q=\"a\\\"b\"\r\nabcdefghijklmnopqrstuvwxyz\r\n000;last=1\r\nTrailer: v\r\nX-T: 1\r\n\r\n",
         "0\r\n\r\n",
         "01\r\nX\r\n1A\r\nabcdefghijklmnopqrstuvwxyz\r\n0\r\n\r\n",
         "2\r\n\r\n\r\n00;a=b\r\n\r\n",
      };
      // not valid (the size exceeds the data), but the interesting case for chunk_data: a size near SIZE_MAX
      if( with_giant_size ) d.push_back( "ffffffffffffffff\r\nab\r\n0\r\n\r\n" );
      if( with_giant_size ) d.push_back( "7fffffffffffffff;x=1\r\nab\r\n0\r\n\r\n" );
      gen g( 302 );
      httpgen h{ g };
      const std::size_t want = d.size() + nrandom;
      while( d.size() < want ) {
         std::string s = h.chunked();
         if( s.size() >= 10 && s.size() <= 160 ) d.push_back( std::move( s ) );
      }
      return d;
   }

#if C03_HAS( 3 )
   inline void part_http()
   {
      const std::string crlf = "\r\n\r\n0\r\n\r\n";
      {
         job j;
         j.targets = { T( "http::HTTP_message", "http", &mem< http::HTTP_message >, crlf ), T( "http::start_line", "http", &mem< http::start_line >, crlf ) };
         j.docs = http_message_docs( ndocs( 10, 200 ) );
         run_job( j, 1 );
      }
      {
         job j;
         j.targets = { T( "http::chunked_body", "http", &mem< chunked_top >, crlf ), T( "http::chunked_body+actions", "http", &chunked_with_actions, crlf ), T( "http::chunk", "http", &mem< http::chunk >, crlf ) };
         j.docs = http_chunked_docs( ndocs( 10, 200 ), true );
         static const unsigned char extra[] = { 'f', 'F', 'a', '1', ';', '"', '=' };
         j.cfg.extra = extra;
         j.cfg.nextra = sizeof extra;
         run_job( j, 2 );
      }
      single< http::header_field >( "http::header_field", "http", { "Host: example.com", "X-A:  v1 v2\t v3  ", "Fold: a\r\n b\r\n\tc", "X-Obs: caf\xE9\xFF", "E:" }, crlf, 3 );
      single< http::Host >( "http::Host", "http", { "www.example.com:8080", "[::1]:80", "1.2.3.4", "h%41:" }, "0123456789", 4 );
      single< http::TE >( "http::TE", "http", { "trailers, deflate;q=0.5, gzip ; Q=1.000", ", ,chunked", "x;a=\"q\\\"\";q=0.123" }, "0123", 5 );
      single< http::Connection >( "http::Connection", "http", { "keep-alive, Upgrade", ", close ,", "a" }, ",a", 6 );
      single< http::Transfer_Encoding >( "http::Transfer_Encoding", "http", { "gzip, chunked", "x-ext;a=b;c=\"q\\\"d\" , COMPRESS", "Deflate,GZIP" }, "d,", 7 );
      single< http::Via >( "http::Via", "http", { "1.0 fred, 1.1 p.example.net (Apache/1.1)", "HTTP/1.1 [::1]:80 (a (b) \\) c)", "1.1 1.2.3.4:8080" }, ")", 8 );
      single< http::Upgrade >( "http::Upgrade", "http", { "HTTP/2.0, SHTTP/1.3, IRC/6.9, RTA/x11", "websocket" }, "/1", 9 );
      single< http::Trailer >( "http::Trailer", "http", { "Expires, X-Checksum", ",A" }, ",a", 10 );
      single< http::http_URI >( "http::http_URI", "http", { "http://www.example.com:80/a/b?c#d", "HTTP://1.2.3.4/%41" }, "0123456789", 11 );
      single< http::https_URI >( "http::https_URI", "http", { "https://[::1]/%41?x#y", "HttpS://u@h:1" }, "0123456789", 12 );
      single< http::partial_URI >( "http::partial_URI", "http", { "//host/p?q", "/a/b?c", "a%20b/c" }, "41", 13 );
      single< http::quoted_string >( "http::quoted_string", "http", { "\"a b\\\"c\\\\ \xe9\"", "\"\"", "\"\\\t\"" }, "\"", 14 );
      single< http::comment >( "http::comment", "http", { "(a (b (c)) \\) d)", "()", "(\xe9\\()" }, "))", 15 );
      single< http::Content_Length >( "http::Content_Length", "http", { "1234567890", "0" }, "0123456789", 16 );
      single< http::request_target >( "http::request_target", "http", { "/a/b%20c?q", "http://h:1/p", "h:443", "*" }, "41", 17 );
      single< http::last_chunk >( "http::last_chunk", "http", { "0\r\n", "000;a=\"b\"\r\n" }, "\n", 18 );
   }
#endif
}  // namespace c03
#endif

// ====================================================================== Lua 5.3 example grammar (parts 4, 10)
#if C03_HAS( 4 ) || C03_HAS( 10 )
#include "lua53.hpp"

namespace c03
{
   struct luagen
   {
      gen& g;
      std::string name() { return g.word( 1, 4, "abfxyz_" ) + g.word( 0, 2, "019_Q" ); }
      std::string number()
      {
         static const char* const n[] = { "0", "12", "3.14e-2", "0x1F", "0xA.8p+1", ".5", "1e10", "0X.8P-3", "7.", "0xff" };
         return n[ g.below( 10 ) ];
      }
      std::string str()
      {
         static const char* const s[] = { "\"a\\n\\x41\\065\\u{1F600}\\z  b\"", "'it\\'s'", "[[long]]", "[==[\n ]] ]=] ]==]", "\"\"", "\"\\\\\"", "'\xC3\xA9\\\n'", "[=[\r\nx]=]" };
         return s[ g.below( 8 ) ];
      }
      std::string expr( int depth )
      {
         switch( g.below( depth > 0 ? 10 : 5 ) ) {
            case 0: return number();
            case 1: return str();
            case 2: return name();
            case 3: return g.chance( 1, 2 ) ? "nil" : g.chance( 1, 2 ) ? "true" : "...";
            case 4: return name() + "." + name();
            case 5: return expr( depth - 1 ) + " " + std::string( g.of( std::vector< const char* >{ "+", "-", "*", "/", "//", "%", "^", "..", "<", "<=", "==", "~=", "and", "or", ">>", "&", "|", "~" } ) ) + " " + expr( depth - 1 );
            case 6: return "{ " + expr( depth - 1 ) + ", " + name() + " = " + expr( depth - 1 ) + "; [" + expr( 0 ) + "] = " + expr( 0 ) + " }";
            case 7: return name() + "(" + expr( depth - 1 ) + ")";
            case 8: return "(" + expr( depth - 1 ) + ")";
            default: return std::string( g.chance( 1, 2 ) ? "-" : g.chance( 1, 2 ) ? "not " : "#" ) + expr( depth - 1 );
         }
      }
      std::string sep()
      {
         static const char* const s[] = { " ", "\n", "\r\n", " -- c\n", " --[[ x ]] ", "\t", " --[=[ ]] ]=]\n", ";\n" };
         return s[ g.below( 8 ) ];
      }
      std::string stat( int depth )
      {
         switch( g.below( depth > 0 ? 9 : 4 ) ) {
            case 0: return "local " + name() + " = " + expr( 1 );
            case 1: return name() + " = " + expr( 2 );
            case 2: return name() + "(" + expr( 1 ) + ")";
            case 3: return name() + "." + name() + "[" + expr( 0 ) + "] = " + expr( 1 );
            case 4: return "if " + expr( 1 ) + " then " + stat( depth - 1 ) + " elseif " + expr( 0 ) + " then " + stat( 0 ) + " else " + stat( 0 ) + " end";
            case 5: return "for " + name() + " = " + expr( 0 ) + ", " + expr( 0 ) + " do " + stat( depth - 1 ) + " end";
            case 6: return "while " + expr( 1 ) + " do " + stat( depth - 1 ) + " break end";
            case 7: return "function " + name() + "." + name() + ":" + name() + "(" + name() + ", ...) return " + expr( 1 ) + " end";
            default: return "repeat local function " + name() + "() end until " + expr( 1 );
         }
      }
      std::string chunk()
      {
         std::string s = g.chance( 1, 4 ) ? "#!/usr/bin/lua\n" : "";
         const std::size_t n = 1 + g.below( 3 );
         for( std::size_t i = 0; i < n; ++i ) s += stat( 2 ) + sep();
         if( g.chance( 1, 3 ) ) s += "return " + expr( 1 ) + sep();
         return s;
      }
   };

   inline std::vector< std::string > lua_docs( const std::size_t nrandom )
   {
      std::vector< std::string > d = {
         "#!/usr/bin/lua\n-- comment\r\nlocal s = [==[\nlong ]] ]=] string]==]\nlocal t = { 1, 0x1F, 3.14e-2, 0xA.8p+1, 'a\\n\\x41\\065\\u{1F600}\\z  b', \"q\\\"\" ; x = 2, [3] = 4 }\n--[[ long\ncomment ]]\nreturn t\n",
         "function f.g:h( a, b, ... ) if a == b then return a .. b elseif a ~= 1 then goto l end ::l:: for i = 1, 10, 2 do x[i] = -i ^ 2 // 3 end end\n",
         "while not ( a and b or c ) do repeat local function q() end until a >= 1 break end\nprint[[x]] f{y=1}:m'z'\n",
         "x = \"\xC3\xA9\xE2\x82\xAC\" --[==[ \xF0\x9F\x98\x80 ]==]",
      };
      gen g( 401 );
      luagen l{ g };
      while( d.size() < 4 + nrandom ) {
         std::string s = l.chunk();
         if( s.size() >= 20 && s.size() <= 170 ) d.push_back( std::move( s ) );
      }
      return d;
   }

#if C03_HAS( 4 )
   inline void part_lua()
   {
      const std::string close = "]==]\"' end";
      {
         job j;
         j.targets = { T( "lua53::grammar", "lua53", &mem< lua53::grammar >, close ) };
         j.docs = lua_docs( ndocs( 8, 160 ) );
         static const unsigned char extra[] = { '-', '.', 'x', '{', '}', '(', ')', 'z' };
         j.cfg.extra = extra;
         j.cfg.nextra = sizeof extra;
         run_job( j, 1 );
      }
      single< lua53::literal_string >( "lua53::literal_string", "lua53", { "\"a\\n\\x41\\065\\u{1F600}\\z  \\\nb\"", "'a\\'b'", "[[long]]", "[==[\n ]] ]=] ]==]", "\"\\u{10FFFF}\\255\"", "[=[\r\n\xE2\x82\xAC]=]" }, close, 2 );
      single< lua53::numeral >( "lua53::numeral", "lua53", { "0x1F", "3.14e-2", "0xA.8p+1", ".5", "1e10", "0x.8P-3", "12", "7.e+1" }, "0123456789", 3 );
      single< lua53::comment >( "lua53::comment", "lua53", { "--[[ long ]]", "--[==[ a ]] ]==]", "-- short\n", "-- short eof", "--[=[\r\n]=]", "--\r\n" }, close, 4 );
      single< lua53::seps >( "lua53::seps", "lua53", { " \t\r\n--x\n--[[y]] --[=[ z ]=]\n", "-- \xE2\x82\xAC" }, close, 5 );
   }
#endif
}  // namespace c03
#endif

// ====================================================================== proto3, double, ABNF example grammars (parts 5, 10)
#if C03_HAS( 5 ) || C03_HAS( 10 )
#include "proto3.hpp"

namespace c03
{
   struct protogen
   {
      gen& g;
      std::string ident() { return g.word( 1, 5, "abcxyzABC" ) + g.word( 0, 2, "0_9q" ); }
      std::string type()
      {
         static const char* const t[] = { "int32", "sfixed64", "string", "bytes", "bool", "double", ".foo.Bar", "Baz", "uint64", "float" };
         return t[ g.below( 10 ) ];
      }
      std::string constant()
      {
         static const char* const c[] = { "true", "false", "-1.5e+3", "0x1F", "017", "42", "\"x\\x41101n\"", "'q\\xfF007\\'", "inf", "-nan", "foo.bar", "+.5", "1.", "\"\xC3\xA9\"" };
         return c[ g.below( 14 ) ];
      }
      std::string sp()
      {
         static const char* const s[] = { " ", "\n", "\r\n", " // c\n", " /* m */ ", "\t", "/**/" };
         return s[ g.below( 7 ) ];
      }
      std::string field()
      {
         std::string s = g.chance( 1, 3 ) ? "repeated " : "";
         s += type() + " " + ident() + " = " + ( g.chance( 1, 3 ) ? "0x" + g.hexs( 1, 3 ) : std::string( 1, g.pick( "123456789" ) ) + g.digits( 0, 3 ) );
         if( g.chance( 1, 3 ) ) s += " [" + ident() + " = " + constant() + ( g.chance( 1, 2 ) ? ", (" + ident() + "." + ident() + ")." + ident() + "=" + constant() : "" ) + "]";
         return s + ";";
      }
      std::string message( int depth )
      {
         std::string s = "message " + ident() + sp() + "{" + sp();
         const std::size_t n = g.below( 4 );
         for( std::size_t i = 0; i < n; ++i ) {
            switch( g.below( depth > 0 ? 7 : 5 ) ) {
               case 0: case 1: s += field(); break;
               case 2: s += "map<string, " + type() + "> " + ident() + " = " + g.digits( 1, 1 ) + "1;"; break;
               case 3: s += "oneof " + ident() + " { " + type() + " " + ident() + " = 4; }"; break;
               case 4: s += "reserved 9 to 11, 40 to max;"; break;
               case 5: s += message( depth - 1 ); break;
               default: s += "enum " + ident() + " { " + ident() + " = 0; " + ident() + " = 0x1 [" + ident() + " = " + constant() + "]; }"; break;
            }
            s += sp();
         }
         return s + "}";
      }
      std::string file()
      {
         std::string s = std::string( g.chance( 1, 3 ) ? sp() : "" ) + "syntax = " + ( g.chance( 1, 2 ) ? "\"proto3\"" : "'proto3'" ) + ";" + sp();
         const std::size_t n = 1 + g.below( 3 );
         for( std::size_t i = 0; i < n; ++i ) {
            switch( g.below( 6 ) ) {
               case 0: s += "import " + std::string( g.chance( 1, 2 ) ? "public " : "" ) + "\"a/b.proto\";"; break;
               case 1: s += "package " + ident() + "." + ident() + ";"; break;
               case 2: s += "option " + ident() + " = " + constant() + ";"; break;
               case 3: s += "service " + ident() + " { rpc " + ident() + " (stream " + type() + ") returns (" + type() + "); }"; break;
               default: s += message( 1 ); break;
            }
            s += sp();
         }
         return s;
      }
   };

   inline std::vector< std::string > proto_docs( const std::size_t nrandom )
   {
      std::vector< std::string > d = {
         "syntax = \"proto3\";\n// comment\r\n/* multi\n line */\nimport public \"other.proto\";\npackage foo.bar;\noption java_package = \"com.example.foo\";\n"
         "enum E { option allow_alias = true; A = 0; B = 1 [(custom) = \"x\\x41101n\"]; }\n",
         "syntax = 'proto3';message M {\n  message Inner { int64 ival = 1; }\n  repeated Inner inner = 2 [packed = true, deprecated=false];\n  map<string, .foo.Bar> m = 3;\n"
         "  oneof o { string name = 4; SubMessage sub = 9; }\n  reserved 9 to 11, 40 to max;\n  reserved foo, bar;\n  double d = 0x1F [default = -1.5e+3];\n}\n",
         "syntax = \"proto3\";service S { rpc R (stream Req) returns (Resp); rpc Q (A) returns (stream B) { option x = inf; } }",
         "syntax=\"proto3\";option o = '\xC3\xA9\\xAf123\\';/* \xE2\x82\xAC */",
         "syntax=\"proto3\";option o = 'a\\n\\x41\\101';",  // rejected: the example's escape rule is if_must< '\\', hex_escape, oct_escape, char_escape >, a sequence
      };
      gen g( 501 );
      protogen p{ g };
      while( d.size() < 5 + nrandom ) {
         std::string s = p.file();
         if( s.size() >= 30 && s.size() <= 200 ) d.push_back( std::move( s ) );
      }
      return d;
   }
}  // namespace c03
#endif

#if C03_HAS( 5 )
#include "double.hpp"
// the ABNF grammar of the abnf2pegtl example lives in a .cpp with a main(): include it with main renamed
#define main c03_abnf2pegtl_main
#include "abnf2pegtl.cpp"
#undef main

namespace c03
{
   inline outcome abnf_rulelist( const char* b, const char* e )
   {
      namespace abnf = pegtl::abnf;
      abnf::previous_rules.clear();  // the example keeps raw node pointers of the rules it has seen in a global: one parse per process there
      pegtl::memory_input<> in( b, e, "c03" );
      std::size_t children = 0;
      outcome o = guarded( in, b, e, [ & ] {
         const auto root = pegtl::parse_tree::parse< abnf::grammar::rulelist, abnf::selector, pegtl::nothing, abnf::control >( in );
         if( root ) children = root->children.size() + 1;
         return bool( root );
      } );
      o.extra = children;
      return o;
   }

   inline void part_examples()
   {
      {
         job j;
         j.targets = { T( "proto3::proto", "proto3", &mem< proto3::proto >, "\"';} */\n" ) };
         j.docs = proto_docs( ndocs( 8, 160 ) );
         static const unsigned char extra[] = { '/', '*', '{', '}', '.', 'x', '(', ')' };
         j.cfg.extra = extra;
         j.cfg.nextra = sizeof extra;
         run_job( j, 1 );
      }
      single< proto3::str_lit >( "proto3::str_lit", "proto3", { "\"x\\x41101n\\XfF000n\"", "'q\\x41101\\'", "\"\xC3\xA9\xF0\x9F\x98\x80\"", "\"a\\n\\x41\\101\"" }, "\"'", 2 );
      single< proto3::constant >( "proto3::constant", "proto3", { "true", "-1.5e+3", "0x1F", "017", "inf", "-nan", "foo.bar", "+.5", "1.e5", "false" }, "0123456789", 3 );
      single< proto3::sps >( "proto3::sps", "proto3", { " // c\n /* m * / */\t\r\n//eof", "/* \xE2\x82\xAC */" }, "*/\n", 4 );
      {
         job j;
         j.targets = { T( "double_::grammar", "double", &mem< to_eof< double_::grammar > >, "0123456789" ), T( "double_::grammar-prefix", "double", &mem< double_::grammar >, "0123456789" ) };
         j.docs = { "-0x1.8p+3", "1e10", "inf", "nan(abc)", "+infinity", "-NaN(1a)", ".5e-3", "0X.Fp-1", "123.", "-1.25E+10", "INFINITY", "nan" };
         gen g( 502 );
         for( std::size_t i = 0; i < ndocs( 10, 200 ); ++i ) j.docs.push_back( std::string( g.chance( 1, 2 ) ? "-" : "" ) + g.digits( 1, 4 ) + ( g.chance( 1, 2 ) ? "." + g.digits( 0, 3 ) : "" ) + ( g.chance( 1, 2 ) ? "e" + std::string( g.chance( 1, 2 ) ? "-" : "+" ) + g.digits( 1, 2 ) : "" ) );
         static const unsigned char extra[] = { 'x', 'p', 'n', 'i', '(', ')', '.', 'f' };
         j.cfg.extra = extra;
         j.cfg.nextra = sizeof extra;
         run_job( j, 5 );
      }
      {
         job j;
         j.targets = { T( "abnf2pegtl::rulelist", "abnf", &abnf_rulelist, "\"\r\n" ) };
         j.docs = {
            "rulelist = 1*( rule / (*c-wsp c-nl) ) ; comment\r\nrule = rulename defined-as elements c-nl\r\n",
            "opt = x\r\nnum = %x41-5A / %d13.10 / %b1010 / \"str\" / %s\"cs\" / %i\"ci\" / <prose val>\r\nopt =/ [ a b ] *( c / d ) 1*3DIGIT 2e &f !g\n",
            "a = \"x\" ; c\rb = %s\"Y\"\nc = *DIGIT\r\n\r\n",
            "r1 = (a / b)\r\n ; continued\r\n c\r\n",
         };
         static const unsigned char extra[] = { '%', '<', '>', '(', ')', '*', '/', 'x', 'b', 'd', 's', 'i' };
         j.cfg.extra = extra;
         j.cfg.nextra = sizeof extra;
         run_job( j, 6 );
      }
   }
}  // namespace c03
#endif
// ====================================================================== integer, raw_string, rep_*, predicates (parts 6, 11)
#if C03_HAS( 6 ) || C03_HAS( 11 )
#include <tao/pegtl/contrib/integer.hpp>
#include <tao/pegtl/contrib/predicates.hpp>
#include <tao/pegtl/contrib/raw_string.hpp>
#include <tao/pegtl/contrib/rep_one_min_max.hpp>
#include <tao/pegtl/contrib/rep_string.hpp>

namespace c03
{
   template< typename Rule, typename State >
   outcome int_with_state( const char* b, const char* e )
   {
      pegtl::memory_input<> in( b, e, "c03" );
      State st{};
      outcome o = guarded( in, b, e, [ & ] { return pegtl::parse< Rule >( in, st ); } );
      o.extra = std::uint64_t( st ) + 1;
      return o;
   }
   template< typename Rule >
   struct int_action : pegtl::nothing< Rule >
   {};
   template<>
   struct int_action< pegtl::unsigned_rule > : pegtl::unsigned_action
   {};
   template<>
   struct int_action< pegtl::signed_rule > : pegtl::signed_action
   {};
   template< typename Rule, typename State >
   outcome int_with_action( const char* b, const char* e )
   {
      pegtl::memory_input<> in( b, e, "c03" );
      State st{};
      outcome o = guarded( in, b, e, [ & ] { return pegtl::parse< Rule, int_action >( in, st ); } );
      o.extra = std::uint64_t( st ) + 1;
      return o;
   }

   using rs_plain = pegtl::raw_string< '[', '=', ']' >;
   using rs_utf8 = pegtl::raw_string< '[', '=', ']', pegtl::utf8::any >;
   using rs_class = pegtl::raw_string< '[', '=', ']', pegtl::sor< pegtl::alnum, pegtl::one< ' ', ']', '=', '[', '\n', '\r' > > >;
   template< typename Rule >
   struct rs_action : pegtl::nothing< Rule >
   {};
   template<>
   struct rs_action< rs_plain::content >
   {
      // the content rule is matched with the marker size as an additional first state
      template< typename ActionInput, typename... States >
      static void apply( const ActionInput& in, States&&... st )
      {
         std::string& out = std::get< sizeof...( States ) - 1 >( std::tie( st... ) );
         out += in.string();
         out += '|';
      }
   };
   template<>
   struct rs_action< rs_utf8::content > : rs_action< rs_plain::content >
   {};
   template< typename Rule >
   outcome rs_with_action( const char* b, const char* e )
   {
      pegtl::memory_input<> in( b, e, "c03" );
      std::string out;
      outcome o = guarded( in, b, e, [ & ] { return pegtl::parse< Rule, rs_action >( in, out ); } );
      o.extra = fnv( out );
      return o;
   }

   inline std::vector< std::string > numeral_docs( const std::size_t nrandom )
   {
      std::vector< std::string > d = { "0", "7", "42", "255", "256", "299", "1000", "65535", "65536", "4294967295", "4294967296", "18446744073709551615", "18446744073709551616", "99999999999999999999999", "00", "01", "0x",
                                       "9,", "12345;rest", "-0", "+0", "-128", "-129", "+127", "127", "128", "-32768", "-2147483648", "2147483647", "-9223372036854775808", "9223372036854775807",
                                       "-9223372036854775809", "-", "+", "-a", "--1", "100", "101", "10000000000", "10000000001" };
      gen g( 601 );
      for( std::size_t i = 0; i < nrandom; ++i ) d.push_back( std::string( g.chance( 1, 3 ) ? ( g.chance( 1, 2 ) ? "-" : "+" ) : "" ) + std::string( 1, g.pick( "123456789" ) ) + g.digits( 0, 20 ) );
      return d;
   }
   inline std::vector< std::string > raw_string_docs( const std::size_t nrandom )
   {
      std::vector< std::string > d = { "[[abc]]", "[==[\r\nfoo]=]bar]]baz]==]", "[=[]=]", "[===[ x ]==] ]====] ]===]", "[[\n]]", "[=[\r\n\xE2\x82\xAC\xF0\x9F\x98\x80]=]", "[====[a]====]tail", "[[]]", "[=[ ]] ]=]x" };
      gen g( 602 );
      for( std::size_t i = 0; i < nrandom; ++i ) {
         const std::size_t lvl = g.below( 4 );
         std::string s = "[" + std::string( lvl, '=' ) + "[" + ( g.chance( 1, 3 ) ? "\r\n" : "" );
         const std::size_t n = g.below( 12 );
         for( std::size_t k = 0; k < n; ++k ) {
            if( g.chance( 1, 3 ) ) s += "]" + std::string( ( lvl + 1 + g.below( 2 ) ) % 4 == lvl ? lvl + 1 : ( lvl + 1 + g.below( 2 ) ) % 4, '=' ) + ( g.chance( 1, 2 ) ? "]" : "" );
            else s += g.chance( 1, 5 ) ? utf8_of( g.chance( 1, 2 ) ? 0x20AC : 0x1F600 ) : std::string( 1, g.pick( "ab =[\n9" ) );
         }
         // make sure no closer of the right level is inside by accident: cut at the first one
         const std::string closer = "]" + std::string( lvl, '=' ) + "]";
         const std::size_t at = s.find( closer, lvl + 2 );
         if( at != std::string::npos ) s.resize( at );
         d.push_back( s + closer + ( g.chance( 1, 3 ) ? "t" : "" ) );
      }
      return d;
   }
}  // namespace c03
#endif

#if C03_HAS( 6 )
namespace c03
{
   inline void part_rules()
   {
      const std::string dig = "0123456789";
      {
         job j;
         j.targets = {
            T( "unsigned_rule", "integer", &mem< pegtl::unsigned_rule >, dig ),
            T( "signed_rule", "integer", &mem< pegtl::signed_rule >, dig ),
            T( "maximum_rule<uint8_t>", "integer", &mem< pegtl::maximum_rule< std::uint8_t > >, dig ),
            T( "maximum_rule<uint16_t>", "integer", &mem< pegtl::maximum_rule< std::uint16_t > >, dig ),
            T( "maximum_rule<uint32_t>", "integer", &mem< pegtl::maximum_rule< std::uint32_t > >, dig ),
            T( "maximum_rule<uint64_t>", "integer", &mem< pegtl::maximum_rule< std::uint64_t > >, dig ),
            T( "maximum_rule<uint8_t,100>", "integer", &mem< pegtl::maximum_rule< std::uint8_t, 100 > >, dig ),
            T( "maximum_rule<uint64_t,10000000000>", "integer", &mem< pegtl::maximum_rule< std::uint64_t, 10000000000ull > >, dig ),
            T( "unsigned_rule_with_action<uint8_t>", "integer", &int_with_state< pegtl::unsigned_rule_with_action, std::uint8_t >, dig ),
            T( "unsigned_rule_with_action<uint32_t>", "integer", &int_with_state< pegtl::unsigned_rule_with_action, std::uint32_t >, dig ),
            T( "unsigned_rule_with_action<uint64_t>", "integer", &int_with_state< pegtl::unsigned_rule_with_action, std::uint64_t >, dig ),
            T( "signed_rule_with_action<int8_t>", "integer", &int_with_state< pegtl::signed_rule_with_action, std::int8_t >, dig ),
            T( "signed_rule_with_action<int32_t>", "integer", &int_with_state< pegtl::signed_rule_with_action, std::int32_t >, dig ),
            T( "signed_rule_with_action<int64_t>", "integer", &int_with_state< pegtl::signed_rule_with_action, std::int64_t >, dig ),
            T( "maximum_rule_with_action<uint8_t>", "integer", &int_with_state< pegtl::maximum_rule_with_action< std::uint8_t >, std::uint8_t >, dig ),
            T( "maximum_rule_with_action<uint16_t,1000>", "integer", &int_with_state< pegtl::maximum_rule_with_action< std::uint16_t, 1000 >, std::uint16_t >, dig ),
            T( "maximum_rule_with_action<uint64_t>", "integer", &int_with_state< pegtl::maximum_rule_with_action< std::uint64_t >, std::uint64_t >, dig ),
            T( "unsigned_rule+unsigned_action<uint16_t>", "integer", &int_with_action< pegtl::unsigned_rule, std::uint16_t >, dig ),
            T( "signed_rule+signed_action<int16_t>", "integer", &int_with_action< pegtl::signed_rule, std::int16_t >, dig ),
            T( "list<maximum_rule<uint8_t>,one<'.'>>", "integer", &mem< pegtl::list< pegtl::maximum_rule< std::uint8_t >, pegtl::one< '.' > > >, dig ),
         };
         j.docs = numeral_docs( ndocs( 12, 320 ) );
         j.docs.push_back( "1.22.255.0.99" );
         run_job( j, 1 );
      }
      {
         const std::string close = "=]==]]=]";
         job j;
         j.targets = {
            T( "raw_string<'[','=',']'>", "raw_string", &mem< rs_plain >, close ),
            T( "raw_string<'[','=',']',utf8::any>", "raw_string", &mem< rs_utf8 >, close ),
            T( "raw_string<'[','=',']',sor<alnum,one<...>>>", "raw_string", &mem< rs_class >, close ),
            T( "raw_string<'[','=',']'>+content-action", "raw_string", &rs_with_action< rs_plain >, close ),
            T( "raw_string<'[','=',']',utf8::any>+content-action", "raw_string", &rs_with_action< rs_utf8 >, close ),
            T( "seq<raw_string,eolf>", "raw_string", &mem< pegtl::seq< rs_plain, pegtl::eolf > >, close ),
         };
         j.docs = raw_string_docs( ndocs( 12, 320 ) );
         static const unsigned char extra[] = { '=', '=', '[', ']' };
         j.cfg.extra = extra;
         j.cfg.nextra = sizeof extra;
         run_job( j, 2 );
      }
      using namespace pegtl;
      single< rep_one_min_max< 2, 4, 'a' > >( "rep_one_min_max<2,4,'a'>", "rep", { "aaaa", "aa", "aaaaa", "aaab", "a" }, "aaaa", 3 );
      single< rep_one_min_max< 0, 3, '=' > >( "rep_one_min_max<0,3,'='>", "rep", { "===", "====", "", "=x" }, "====", 4 );
      single< rep_one_min_max< 1, 1, 'x' > >( "rep_one_min_max<1,1,'x'>", "rep", { "x", "xx" }, "xx", 5 );
      single< rep_one_min_max< 3, 3, '.' > >( "rep_one_min_max<3,3,'.'>", "rep", { "...", "....", ".." }, "....", 6 );
      single< rep_string< 3, 'a', 'b' > >( "rep_string<3,'a','b'>", "rep", { "ababab", "abababab", "ababa" }, "babab", 7 );
      single< ellipsis >( "ellipsis", "rep", { "...", "...." }, "...", 8 );
      single< seq< two< '-' >, three< '=' > > >( "seq<two<'-'>,three<'='>>", "rep", { "--===", "--====" }, "-===", 9 );
      single< forty_two< 'a', 'b' > >( "forty_two<'a','b'>", "rep", { std::string( 42, 'a' ), std::string( 21, 'a' ) + std::string( 22, 'b' ) }, "ab", 10 );
      single< rep< 3, string< 'a', 'b' >, opt< istring< 'C', 'D' > > > >( "rep<3,string<'a','b'>,opt<istring<'C','D'>>>", "rep", { "abcdabABCd", "ababab" }, "bcd", 11 );
      single< rep_min_max< 2, 4, string< 'x', 'y', 'z' > > >( "rep_min_max<2,4,string<'x','y','z'>>", "rep", { "xyzxyzxyz", "xyzxyzxyzxyzxyz" }, "yzxyz", 12 );

      {
         job j;
         j.targets = { T( "plus<predicates_and<range<'a','z'>,not_one<'x'>>>", "predicates", &mem< plus< predicates_and< range< 'a', 'z' >, not_one< 'x' > > > >, "ab" ),
                       T( "plus<predicate_not<digit>>", "predicates", &mem< plus< predicate_not< digit > > >, "ab" ),
                       T( "plus<predicates_or<digit,one<'_'>,upper>>", "predicates", &mem< plus< predicates_or< digit, one< '_' >, upper > > >, "A1" ) };
         j.docs = { "abcxd", "zz", "ab1", std::string( "\xFF\x00z", 3 ), "A_1b", "99" };
         gen g( 603 );
         for( std::size_t i = 0; i < ndocs( 6, 120 ); ++i ) j.docs.push_back( g.word( 2, 12, "abcxyzAZ_019 " ) );
         run_job( j, 13 );
      }
      {
         job j;
         j.targets = { T( "plus<utf8::predicates_and<utf8::range<0x80,0x10FFFF>,utf8::not_one<0x20AC>>>", "predicates", &mem< plus< utf8::predicates_and< utf8::range< 0x80, 0x10FFFF >, utf8::not_one< 0x20AC > > > >, "\xC3\xA9" ),
                       T( "plus<utf8::predicate_not<utf8::one<0xE9>>>", "predicates", &mem< plus< utf8::predicate_not< utf8::one< 0xE9 > > > >, "\xE2\x82\xAC" ),
                       T( "plus<utf8::predicates_or<utf8::one<0xE9>,utf8::range<0x1F600,0x1F64F>>>", "predicates", &mem< plus< utf8::predicates_or< utf8::one< 0xE9 >, utf8::range< 0x1F600, 0x1F64F > > > >, "\xF0\x9F\x98\x80" ) };
         j.docs = { "\xC3\xA9\xF0\x9F\x98\x80\xE2\x82\xAC", "\xF4\x8F\xBF\xBF\xC2\x80", "a\xE2\x82\xAC\xF0\x9F\x98\x80\xC3\xA9", "\xE2\x82\xAC", "\xC3\xA9\xF0\x9F\x98\x80\xC3\xA9\xF0\x9F\x98\x81", "\xF0\x9F\x98\x80" };
         gen g( 604 );
         static const char32_t pool[] = { 0xE9, 0x1F600, 0x1F64F, 0x20AC, 0x80, 0x7FF, 0x800, 0x10FFFF, 'a' };
         for( std::size_t i = 0; i < ndocs( 6, 120 ); ++i ) {
            std::string d;
            const std::size_t n = 1 + g.below( 6 );
            for( std::size_t k = 0; k < n; ++k ) d += utf8_of( pool[ g.below( 8 + ( k > 0 ) ) ] );
            j.docs.push_back( d );
         }
         run_job( j, 16 );
      }
   }
}  // namespace c03
#endif

// ====================================================================== UTF-8/16/32 and uintN rules (parts 7, 11)
#if C03_HAS( 7 ) || C03_HAS( 11 )
#include <tao/pegtl/contrib/uint16.hpp>
#include <tao/pegtl/contrib/uint32.hpp>
#include <tao/pegtl/contrib/uint64.hpp>
#include <tao/pegtl/contrib/uint8.hpp>
#include <tao/pegtl/contrib/utf16.hpp>
#include <tao/pegtl/contrib/utf32.hpp>

namespace c03
{
   inline std::string encode( const std::u32string& t, const family fam )
   {
      std::string s;
      for( char32_t c : t ) {
         switch( fam ) {
            case FAM_U16BE: case FAM_U16LE: {
               unsigned short u[ 2 ];
               int n = 1;
               if( c >= 0x10000 ) {
                  u[ 0 ] = static_cast< unsigned short >( 0xD800 + ( ( c - 0x10000 ) >> 10 ) );
                  u[ 1 ] = static_cast< unsigned short >( 0xDC00 + ( ( c - 0x10000 ) & 0x3FF ) );
                  n = 2;
               }
               else u[ 0 ] = static_cast< unsigned short >( c );
               for( int i = 0; i < n; ++i ) {
                  if( fam == FAM_U16BE ) { s += char( u[ i ] >> 8 ); s += char( u[ i ] & 0xFF ); }
                  else { s += char( u[ i ] & 0xFF ); s += char( u[ i ] >> 8 ); }
               }
               break;
            }
            case FAM_U32BE: s += char( ( c >> 24 ) & 0xFF ); s += char( ( c >> 16 ) & 0xFF ); s += char( ( c >> 8 ) & 0xFF ); s += char( c & 0xFF ); break;
            case FAM_U32LE: s += char( c & 0xFF ); s += char( ( c >> 8 ) & 0xFF ); s += char( ( c >> 16 ) & 0xFF ); s += char( ( c >> 24 ) & 0xFF ); break;
            default: s += utf8_of( c ); break;
         }
      }
      return s;
   }

   inline std::vector< std::u32string > unicode_texts( const std::size_t nrandom )
   {
      std::vector< std::u32string > t = {
         { 'a', 0xE9, 0x20AC, 0x1F600 }, { 0x1F600 }, { 0x20AC }, { 0xE9 },
         { 0xFEFF, 'h', 'e', 'l', 'l', 'o', ' ', 'w', 0xF6, 'r', 'l', 'd', ' ', 0x6771, 0x4EAC, ' ', 0x10348 },
         { 'a', 'b', 'c' }, { 0x10FFFF, 0xFFFF, 0x800, 0x7FF, 0x80, 0x7F }, { 0xE9, 'a', 0x1F600, 0x1F601 },
      };
      gen g( 701 );
      static const char32_t pool[] = { 'a', 'z', ' ', 0x7F, 0x80, 0xE9, 0x7FF, 0x800, 0x20AC, 0xD7FF, 0xE000, 0xFFFD, 0xFFFF, 0x10000, 0x1F600, 0x10FFFF };
      for( std::size_t i = 0; i < nrandom; ++i ) {
         std::u32string s;
         const std::size_t n = 1 + g.below( 8 );
         for( std::size_t k = 0; k < n; ++k ) s += pool[ g.below( 16 ) ];
         if( i % 2 ) s += pool[ 4 + g.below( 12 ) ];  // multi-byte at the very end
         t.push_back( s );
      }
      return t;
   }
   inline std::vector< std::string > unicode_docs( const family fam, const std::size_t nrandom )
   {
      std::vector< std::string > d;
      for( const auto& t : unicode_texts( nrandom ) ) d.push_back( encode( t, fam ) );
      return d;
   }

// one set of rule shapes per encoding namespace
#define C03_UTF_RULES( NS )                                                                                                                                \
   using NS##_r_any = pegtl::plus< pegtl::NS::any >;                                                                                                       \
   using NS##_r_range = pegtl::plus< pegtl::NS::range< 0x20, 0x10FFFF > >;                                                                                 \
   using NS##_r_ranges = pegtl::plus< pegtl::NS::ranges< 'a', 'z', 0x80, 0x7FF, 0x800, 0xFFFF, 0x10000, 0x10FFFF, ' ' > >;                                 \
   using NS##_r_not_one = pegtl::plus< pegtl::NS::not_one< 0x20AC, 'q' > >;                                                                                \
   using NS##_r_not_range = pegtl::plus< pegtl::NS::not_range< 0xD0, 0xFF > >;                                                                             \
   using NS##_r_mix = pegtl::seq< pegtl::opt< pegtl::NS::bom >, pegtl::star< pegtl::sor< pegtl::NS::string< 0xE9, 0x20AC, 0x1F600 >, pegtl::NS::one< 'a', 0xE9, 0x1F600 >, pegtl::NS::any > > >;

   C03_UTF_RULES( utf8 )
   C03_UTF_RULES( utf16_be )
   C03_UTF_RULES( utf16_le )
   C03_UTF_RULES( utf32_be )
   C03_UTF_RULES( utf32_le )

#define C03_UTF_TARGETS( NS, GROUP, FAM )                                                                                   \
   T( "plus<" #NS "::any>", GROUP, &mem< NS##_r_any >, "", FAM ),                                                           \
      T( "plus<" #NS "::range<0x20,0x10FFFF>>", GROUP, &mem< NS##_r_range >, "", FAM ),                                     \
      T( "plus<" #NS "::ranges<...>>", GROUP, &mem< NS##_r_ranges >, "", FAM ),                                             \
      T( "plus<" #NS "::not_one<0x20AC,'q'>>", GROUP, &mem< NS##_r_not_one >, "", FAM ),                                    \
      T( "plus<" #NS "::not_range<0xD0,0xFF>>", GROUP, &mem< NS##_r_not_range >, "", FAM ),                                 \
      T( "seq<opt<" #NS "::bom>,star<sor<string,one,any>>>", GROUP, &mem< NS##_r_mix >, "", FAM )

   // uintN: documents are "ABAB..."; V1/V2 are the unit values in both byte orders
#define C03_UINT_RULES( NS, TYPE, V1, V2 )                                                                                                     \
   using NS##_u_any = pegtl::plus< pegtl::NS::any >;                                                                                           \
   using NS##_u_one = pegtl::plus< pegtl::NS::one< V1, V2 > >;                                                                                 \
   using NS##_u_not_one = pegtl::plus< pegtl::NS::not_one< 0, 1 > >;                                                                           \
   using NS##_u_range = pegtl::plus< pegtl::NS::range< ( V1 < V2 ? V1 : V2 ), ( V1 < V2 ? V2 : V1 ) > >;                                       \
   using NS##_u_ranges = pegtl::plus< pegtl::NS::ranges< V1, V1, V2, V2, 7 > >;                                                                \
   using NS##_u_string = pegtl::plus< pegtl::sor< pegtl::NS::string< V1, V1 >, pegtl::NS::string< V2, V2 > > >;                                \
   using NS##_u_mask_one = pegtl::plus< pegtl::NS::mask_one< TYPE( ~TYPE( 0 ) >> 1 ), V1, V2 > >;                                             \
   using NS##_u_mask_not_one = pegtl::plus< pegtl::NS::mask_not_one< 0xFF, 0 > >;                                                              \
   using NS##_u_mask_range = pegtl::plus< pegtl::NS::mask_range< TYPE( ~TYPE( 0 ) ), ( V1 < V2 ? V1 : V2 ), ( V1 < V2 ? V2 : V1 ) > >;         \
   using NS##_u_mask_ranges = pegtl::plus< pegtl::NS::mask_ranges< TYPE( ~TYPE( 0 ) ), V1, V1, V2, V2 > >;                                     \
   using NS##_u_mask_string = pegtl::plus< pegtl::sor< pegtl::NS::mask_string< TYPE( ~TYPE( 0 ) ), V1, V1 >, pegtl::NS::mask_string< TYPE( ~TYPE( 0 ) ), V2, V2 > > >;

   C03_UINT_RULES( uint8, std::uint8_t, 0x41, 0x42 )
   C03_UINT_RULES( uint16_be, std::uint16_t, 0x4142, 0x4241 )
   C03_UINT_RULES( uint16_le, std::uint16_t, 0x4142, 0x4241 )
   C03_UINT_RULES( uint32_be, std::uint32_t, 0x41424142, 0x42414241 )
   C03_UINT_RULES( uint32_le, std::uint32_t, 0x41424142, 0x42414241 )
   C03_UINT_RULES( uint64_be, std::uint64_t, 0x4142414241424142, 0x4241424142414241 )
   C03_UINT_RULES( uint64_le, std::uint64_t, 0x4142414241424142, 0x4241424142414241 )

#define C03_UINT_TARGETS( NS )                                                                          \
   T( "plus<" #NS "::any>", "uint", &mem< NS##_u_any >, "AB", FAM_BIN ),                                \
      T( "plus<" #NS "::one<..>>", "uint", &mem< NS##_u_one >, "AB", FAM_BIN ),                         \
      T( "plus<" #NS "::not_one<0,1>>", "uint", &mem< NS##_u_not_one >, "AB", FAM_BIN ),                \
      T( "plus<" #NS "::range<..>>", "uint", &mem< NS##_u_range >, "AB", FAM_BIN ),                     \
      T( "plus<" #NS "::ranges<..>>", "uint", &mem< NS##_u_ranges >, "AB", FAM_BIN ),                   \
      T( "plus<sor<" #NS "::string<..>>>", "uint", &mem< NS##_u_string >, "AB", FAM_BIN ),              \
      T( "plus<" #NS "::mask_one<..>>", "uint", &mem< NS##_u_mask_one >, "AB", FAM_BIN ),               \
      T( "plus<" #NS "::mask_not_one<0xFF,0>>", "uint", &mem< NS##_u_mask_not_one >, "AB", FAM_BIN ),   \
      T( "plus<" #NS "::mask_range<..>>", "uint", &mem< NS##_u_mask_range >, "AB", FAM_BIN ),           \
      T( "plus<" #NS "::mask_ranges<..>>", "uint", &mem< NS##_u_mask_ranges >, "AB", FAM_BIN ),         \
      T( "plus<sor<" #NS "::mask_string<..>>>", "uint", &mem< NS##_u_mask_string >, "AB", FAM_BIN )

   inline std::vector< std::string > uint_docs()
   {
      std::vector< std::string > d;
      for( std::size_t n : { 1u, 2u, 3u, 7u, 8u, 9u, 16u, 23u, 24u, 31u, 33u } ) {
         std::string s;
         for( std::size_t i = 0; i < n; ++i ) s += ( i % 2 ) ? 'B' : 'A';
         d.push_back( s );
      }
      d.push_back( std::string( "BABABABABABABABABAB" ) );
      d.push_back( std::string( "ABABABAB\x00\x01\x02\x03\x04\x05\x06\x07\xFF", 17 ) );
      return d;
   }
}  // namespace c03
#endif

#if C03_HAS( 7 )
namespace c03
{
   inline void part_unicode()
   {
      using namespace pegtl;
      const std::size_t nr = ndocs( 12, 320 );
      {
         job j;
         j.targets = { C03_UTF_TARGETS( utf8, "utf8", FAM_TEXT ) };
         j.docs = unicode_docs( FAM_TEXT, nr );
         static const unsigned char extra[] = { 0x9F, 0xA0, 0x8F, 0x90, 0xC0, 0xC1, 0xF5, 0xEF, 0xBB, 0xBF };
         j.cfg.extra = extra;
         j.cfg.nextra = sizeof extra;
         run_job( j, 1 );
      }
      static const unsigned char extra16[] = { 0xD8, 0xDB, 0xDC, 0xDF, 0xFE, 0x3D, 0xDE, 0x01 };
      {
         job j;
         j.targets = { C03_UTF_TARGETS( utf16_be, "utf16", FAM_U16BE ) };
         j.docs = unicode_docs( FAM_U16BE, nr );
         j.cfg.extra = extra16;
         j.cfg.nextra = sizeof extra16;
         run_job( j, 2 );
      }
      {
         job j;
         j.targets = { C03_UTF_TARGETS( utf16_le, "utf16", FAM_U16LE ) };
         j.docs = unicode_docs( FAM_U16LE, nr );
         j.cfg.extra = extra16;
         j.cfg.nextra = sizeof extra16;
         run_job( j, 3 );
      }
      {
         job j;
         j.targets = { C03_UTF_TARGETS( utf32_be, "utf32", FAM_U32BE ) };
         j.docs = unicode_docs( FAM_U32BE, nr );
         run_job( j, 4 );
      }
      {
         job j;
         j.targets = { C03_UTF_TARGETS( utf32_le, "utf32", FAM_U32LE ) };
         j.docs = unicode_docs( FAM_U32LE, nr );
         run_job( j, 5 );
      }
      {
         job j;
         j.targets = { C03_UINT_TARGETS( uint8 ), C03_UINT_TARGETS( uint16_be ), C03_UINT_TARGETS( uint16_le ), C03_UINT_TARGETS( uint32_be ), C03_UINT_TARGETS( uint32_le ), C03_UINT_TARGETS( uint64_be ), C03_UINT_TARGETS( uint64_le ) };
         j.docs = uint_docs();
         static const unsigned char extra[] = { 'A', 'B', 0x01, 0x7F };
         j.cfg.extra = extra;
         j.cfg.nextra = sizeof extra;
         run_job( j, 6 );
      }
   }
}  // namespace c03
#endif
// ====================================================================== core ASCII rules under the five eol policies, sub-inputs (parts 8, 11)
#if C03_HAS( 8 ) || C03_HAS( 11 )
#include <tao/pegtl/contrib/check_bytes.hpp>
#include <tao/pegtl/contrib/integer.hpp>
#include <tao/pegtl/contrib/limit_bytes.hpp>
#include <tao/pegtl/contrib/raw_string.hpp>
#include <tao/pegtl/contrib/uint16.hpp>
#include <tao/pegtl/contrib/uint32.hpp>

namespace c03
{
   namespace core
   {
      using namespace pegtl;
      // a small line-oriented grammar that uses the core rules together
      struct let_line : seq< keyword< 'l', 'e', 't' >, plus< blank >, identifier, star< blank >, one< '=' >, until< eolf > > {};
      struct rem_line : seq< istring< 'R', 'E', 'M' >, until< eol > > {};
      struct end_line : seq< string< 'e', 'n', 'd' >, eolf > {};
      struct raw_line : seq< bytes< 3 >, one< ';' >, eol > {};
      struct lines : seq< opt< shebang >, star< sor< let_line, rem_line, end_line, raw_line, eol > > > {};
      struct lines_everything : seq< lines, everything > {};
   }  // namespace core

   inline std::vector< std::string > line_docs()
   {
      return {
         "#!/bin/x -y\r\nlet abc = 1\r\nREM x\nend\n",
         "let _a9\t=\txyz\rrem note\r\rabc;\rend",
         "LET x = 1\nlet y=2",
         "abc;\r\nxyz;\n\r\n\n\rend\r\n",
         "#!sh\rlet q = \xE2\x82\xAC\r\nend\r",
      };
   }
}  // namespace c03
#endif

#if C03_HAS( 8 )
namespace c03
{
   template< typename Eol, typename Rule >
   void core_rule( const std::string& rule_name, const char* eol_name, std::vector< std::string > docs, const std::string& filler, const std::uint64_t stream, const bool lazy = false )
   {
      job j;
      j.targets = { T( rule_name + " @eol::" + eol_name, std::string( "core@eol::" ) + eol_name, &mem< Rule, Eol >, filler ) };
      if( lazy ) j.targets.push_back( T( rule_name + " @eol::" + eol_name + ",lazy", std::string( "core@eol::" ) + eol_name, &mem< Rule, Eol, pegtl::tracking_mode::lazy >, filler ) );
      j.docs = std::move( docs );
      run_job( j, stream );
   }

   template< typename Eol >
   void core_family( const char* en, const std::uint64_t base )
   {
      using namespace pegtl;
      const std::string nl = "\n\r\n";
      core_rule< Eol, string< 'a', 'b', 'c', 'd' > >( "string<'a','b','c','d'>", en, { "abcd", "abcdabcd" }, "bcd", base + 1, true );
      core_rule< Eol, string< '\r', '\n', '\r', '\n' > >( "string<'\\r','\\n','\\r','\\n'>", en, { "\r\n\r\n", "\r\n\r\n\r\n" }, "\n\r\n", base + 2 );
      core_rule< Eol, istring< 's', 'e', 'l', 'e', 'c', 't' > >( "istring<'s','e','l','e','c','t'>", en, { "SeLeCt", "select x" }, "elect", base + 3, true );
      core_rule< Eol, keyword< 'e', 'n', 'd' > >( "keyword<'e','n','d'>", en, { "end", "end ", "end;", "endx" }, "nd ", base + 4 );
      core_rule< Eol, identifier >( "identifier", en, { "_foo_Bar9", "x", "a-b" }, "_9", base + 5 );
      core_rule< Eol, shebang >( "shebang", en, { "#!/bin/sh -x\r\nrest", "#!/usr/bin/env lua\n", "#!x\r", "#!", "#!a\r\n" }, nl, base + 6, true );
      core_rule< Eol, plus< eol > >( "plus<eol>", en, { "\r\n\r\n", "\n\n", "\r\r", "\r\n\n\r" }, nl, base + 7, true );
      core_rule< Eol, seq< until< eolf >, until< eolf >, until< eolf > > >( "seq<until<eolf>,until<eolf>,until<eolf>>", en, { "a\r\nb\nc\r", "line1\nline2\r\nline3", "\r\n\r\n\r" }, nl, base + 8 );
      core_rule< Eol, eolf >( "eolf", en, { "\r\n", "\n", "\r", "x" }, nl, base + 9 );
      core_rule< Eol, bytes< 1 > >( "bytes<1>", en, { "1", "\r\n" }, "xx", base + 10 );
      core_rule< Eol, bytes< 4 > >( "bytes<4>", en, { "1234", "\r\n\r\n\r", "12345" }, "xxxx", base + 11, true );
      core_rule< Eol, seq< bytes< 2 >, bytes< 9 > > >( "seq<bytes<2>,bytes<9>>", en, { "123456789AB", "\r\n\r\n\r\n\r\n\r\n\rx" }, "xxxxxxxxx", base + 12 );
      core_rule< Eol, until< eol > >( "until<eol>", en, { "abc\r\n", "abc\n", "abc\r", "\r\n" }, nl, base + 13 );
      core_rule< Eol, until< string< '-', '-', '>' > > >( "until<string<'-','-','>'>>", en, { "<!-- x - -- -->", "-->", "a\r\n-\n--\r-->" }, "->", base + 14 );
      core_rule< Eol, until< string< '*', '/' >, utf8::any > >( "until<string<'*','/'>,utf8::any>", en, { "/* \xC3\xA9 * \xE2\x82\xAC \xF0\x9F\x98\x80*/", "*/" }, "/", base + 15 );
      core_rule< Eol, everything >( "everything", en, { "any\r\nthing\n", "x", "\r" }, nl, base + 16, true );
      core_rule< Eol, until< eof, sor< eol, bytes< 2 >, any > > >( "until<eof,sor<eol,bytes<2>,any>>", en, { "ab\r\ncd\ne\r", "\n\r\n\r" }, nl, base + 17 );
      core_rule< Eol, core::lines >( "lines-grammar", en, line_docs(), nl, base + 18, true );
      core_rule< Eol, core::lines_everything >( "seq<lines-grammar,everything>", en, line_docs(), nl, base + 19 );
   }

   // ---------------------------------------------------------------- sub-inputs
   // rematch< Head, Inner >: Inner runs on a memory_input over exactly the bytes Head consumed.
   template< typename Head, typename Inner >
   outcome rematch_model( std::string_view s )
   {
      outcome m;
      H.tail = nullptr;
      std::size_t len = 0;
      {
         verif::guarded_buffer g0( s, 0 );
         const outcome h = mem< Head >( g0.begin(), g0.end() );
         if( h.code != ACCEPT ) {
            m.code = h.code;
            return m;
         }
         len = h.consumed;
      }
      verif::guarded_buffer g1( s.substr( 0, len ), 0 );
      const outcome r = mem< Inner >( g1.begin(), g1.end() );
      m.code = r.code;
      m.consumed = ( r.code == ACCEPT ) ? len : 0;
      return m;
   }

   // limit_bytes< N > on Rule: Rule sees at most N bytes from where it starts; when it succeeds having used up a window that is shorter than
   // the remaining input the guard raises a parse_error.
   template< std::size_t N, typename R >
   struct lim : R
   {};
   template< std::size_t N, typename R >
   struct chk : R
   {};
   template< typename Rule >
   struct lim_action : pegtl::nothing< Rule >
   {};
   template< std::size_t N, typename R >
   struct lim_action< lim< N, R > > : pegtl::limit_bytes< N >
   {};
   template< std::size_t N, typename R >
   struct lim_action< chk< N, R > > : pegtl::check_bytes< N >
   {};

   template< typename Rule >
   outcome with_lim( const char* b, const char* e )
   {
      pegtl::memory_input<> in( b, e, "c03" );
      return guarded( in, b, e, [ & ] { return pegtl::parse< Rule, lim_action >( in ); } );
   }

   template< std::size_t N, typename R >
   outcome limit_model( std::string_view s )
   {
      H.tail = nullptr;
      const std::size_t w = std::min( N, s.size() );
      verif::guarded_buffer g1( s.substr( 0, w ), 0 );
      const outcome r = mem< R >( g1.begin(), g1.end() );
      outcome m;
      m.code = r.code;
      m.consumed = ( r.code == ACCEPT ) ? r.consumed : 0;
      if( r.code == ACCEPT && r.consumed == w && w < s.size() ) {
         m.code = PARSE_ERROR;
         m.consumed = w;
      }
      if( r.code >= PARSE_ERROR ) m.consumed = r.consumed;
      return m;
   }

   template< typename Head, typename Inner >
   void sub_rematch( const char* name, std::vector< std::string > docs, const std::string& filler, const std::uint64_t stream )
   {
      job j;
      j.targets = { TM( name, "sub-input", &mem< pegtl::rematch< Head, Inner > >, &rematch_model< Head, Inner >, filler ) };
      j.docs = std::move( docs );
      run_job( j, stream );
   }
   template< std::size_t N, typename R >
   void sub_limit( const char* name, std::vector< std::string > docs, const std::string& filler, const std::uint64_t stream )
   {
      job j;
      j.targets = { TM( name, "sub-input", &with_lim< lim< N, R > >, &limit_model< N, R >, filler ) };
      j.docs = std::move( docs );
      run_job( j, stream );
   }

   inline void part_core()
   {
      using namespace pegtl;
      core_family< eol::lf_crlf >( "lf_crlf", 100 );
      core_family< eol::lf >( "lf", 200 );
      core_family< eol::cr >( "cr", 300 );
      core_family< eol::crlf >( "crlf", 400 );
      core_family< eol::cr_crlf >( "cr_crlf", 500 );

      // what lies behind a sub-window would extend the inner match
      sub_rematch< plus< lower >, sor< string< 'a', 'b', 'c', '1' >, string< 'a', 'b', 'c' > > >( "rematch<plus<lower>,sor<string<'a','b','c','1'>,string<'a','b','c'>>>", { "abc1", "abc12", "abcd1", "ab1" }, "1", 1 );
      sub_rematch< plus< lower >, istring< 'a', 'b', 'c', '1' > >( "rematch<plus<lower>,istring<'a','b','c','1'>>", { "abc1", "ABC1", "abcx1" }, "1", 2 );
      sub_rematch< rep< 3, any >, sor< seq< bytes< 2 >, utf8::any >, bytes< 3 > > >( "rematch<rep<3,any>,sor<seq<bytes<2>,utf8::any>,bytes<3>>>", { "ab\xC3\xA9", "abc", "a\xE2\x82\xAC", "ab\xF0\x9F\x98\x80" }, "\xA9", 3 );
      sub_rematch< rep< 3, any >, sor< seq< bytes< 2 >, uint16_be::any >, bytes< 1 > > >( "rematch<rep<3,any>,sor<seq<bytes<2>,uint16_be::any>,bytes<1>>>", { "abcd", "abc" }, "d", 4 );
      sub_rematch< rep< 5, any >, seq< bytes< 2 >, uint32_le::any > >( "rematch<rep<5,any>,seq<bytes<2>,uint32_le::any>>", { "abcdefg", "abcde" }, "fg", 5 );
      sub_rematch< rep< 4, any >, seq< bytes< 2 >, bytes< 3 > > >( "rematch<rep<4,any>,seq<bytes<2>,bytes<3>>>", { "abcdefg", "abcd" }, "efg", 6 );
      sub_rematch< seq< one< '[' >, until< one< ']' > > >, raw_string< '[', '=', ']' > >( "rematch<seq<one<'['>,until<one<']'>>>,raw_string<'[','=',']'>>", { "[=[a]=]", "[[x]]", "[==[]==]" }, "=]", 7 );
      sub_rematch< until< one< '\r' > >, seq< until< eol >, eof > >( "rematch<until<one<'\\r'>>,seq<until<eol>,eof>>", { "abc\r\n", "\r\n", "a\nb\r\n" }, "\n", 8 );
      sub_rematch< plus< digit >, maximum_rule< std::uint8_t > >( "rematch<plus<digit>,maximum_rule<uint8_t>>", { "255", "256", "12", "0" }, "0", 9 );
      sub_rematch< plus< lower >, not_at< string< 'a', 'b', 'c', '1' >, eof > >( "minus<plus<lower>,string<'a','b','c','1'>>", { "abc1", "abcd" }, "1", 10 );
      sub_rematch< plus< alnum >, not_at< keyword< 'e', 'n', 'd' >, eof > >( "minus<plus<alnum>,keyword<'e','n','d'>>", { "endx", "end", "ending end", "end_" }, "_", 11 );
      {
         job j;  // the shipped spelling of minus<>
         j.targets = { T( "minus<plus<lower>,string<'a','b','c','1'>>(rules.hpp)", "sub-input", &mem< minus< plus< lower >, string< 'a', 'b', 'c', '1' > > >, "1" ),
                       T( "minus<identifier,keyword<'e','n','d'>>(rules.hpp)", "sub-input", &mem< minus< identifier, keyword< 'e', 'n', 'd' > > >, "_" ) };
         j.docs = { "abc1", "abcd", "end", "endx", "end_" };
         run_job( j, 12 );
      }
      sub_limit< 3, string< 'a', 'b', 'c', 'd' > >( "limit_bytes<3>@string<'a','b','c','d'>", { "abcd", "abcde", "abc" }, "d", 21 );
      sub_limit< 3, istring< 'a', 'b', 'c', 'd' > >( "limit_bytes<3>@istring<'a','b','c','d'>", { "abcd", "ABCD" }, "d", 22 );
      sub_limit< 3, plus< digit > >( "limit_bytes<3>@plus<digit>", { "12", "123", "1234", "12x" }, "4", 23 );
      sub_limit< 2, utf8::any >( "limit_bytes<2>@utf8::any", { "\xE2\x82\xAC", "\xC3\xA9x", "\xF0\x9F\x98\x80", "a" }, "\x80", 24 );
      sub_limit< 3, uint32_be::any >( "limit_bytes<3>@uint32_be::any", { "ABCD", "ABC" }, "D", 25 );
      sub_limit< 5, bytes< 6 > >( "limit_bytes<5>@bytes<6>", { "abcdef", "abcdefg" }, "f", 26 );
      sub_limit< 6, raw_string< '[', '=', ']' > >( "limit_bytes<6>@raw_string<'[','=',']'>", { "[=[a]=]", "[[ab]]", "[[abc]]x" }, "]", 27 );
      sub_limit< 1, eol >( "limit_bytes<1>@eol", { "\r\n", "\n", "\r\nx" }, "\n", 28 );
      sub_limit< 2, maximum_rule< std::uint16_t > >( "limit_bytes<2>@maximum_rule<uint16_t>", { "123", "12", "655" }, "3", 29 );
      {
         job j;  // guards away from offset 0 and check_bytes (which does not narrow the window)
         j.targets = { T( "seq<one<'x'>,limit_bytes<3>@string<'a','b','c','d'>>", "sub-input", &with_lim< seq< one< 'x' >, opt< lim< 3, string< 'a', 'b', 'c', 'd' > > >, star< any > > >, "d" ),
                       T( "seq<one<'x'>,limit_bytes<2>@utf8::any>", "sub-input", &with_lim< seq< one< 'x' >, opt< lim< 2, utf8::any > >, star< any > > >, "\x80" ),
                       T( "check_bytes<3>@plus<alpha>", "sub-input", &with_lim< chk< 3, plus< alpha > > >, "a" ),
                       T( "check_bytes<2>@string<'a','b','c'>", "sub-input", &with_lim< chk< 2, string< 'a', 'b', 'c' > > >, "c" ) };
         j.docs = { "xabcd", "x\xE2\x82\xAC", "abc", "abcd", "x\xC3\xA9", "ab" };
         run_job( j, 30 );
      }
   }
}  // namespace c03
#endif

// ====================================================================== buffer_input parts
#if C03_HAS( 9 ) || C03_HAS( 10 ) || C03_HAS( 11 )
namespace c03
{
   template< typename Rule, typename Eol = pegtl::eol::lf_crlf >
   void buffered( job& j, const char* name, const char* group, const family fam = FAM_TEXT )
   {
      j.targets.push_back( TB( std::string( name ) + " @buffer_input", group, &buf< Rule, Eol >, fam ) );
      j.references.push_back( &mem< Rule, Eol > );
   }
   inline void run_buffer_job( job& j, const std::uint64_t stream )
   {
      j.cfg.sample_only = true;
      run_job( j, stream );
   }
}  // namespace c03
#endif

#if C03_HAS( 9 )
namespace c03
{
   inline void part_buffer_grammars_1()
   {
      {
         job j;
         buffered< json_top >( j, "json::text", "json" );
         j.targets.push_back( TB( "json::text+unescape-actions @buffer_input", "json", &json_with_actions_buf ) );
         j.references.push_back( &json_with_actions );
         j.docs = json_docs( ndocs( 6, 96 ) );
         run_buffer_job( j, 901 );
      }
      {
         job j;
         buffered< to_eof< pegtl::uri::URI_reference > >( j, "uri::URI_reference", "uri" );
         buffered< to_eof< pegtl::uri::absolute_URI > >( j, "uri::absolute_URI", "uri" );
         j.docs = uri_docs( false, ndocs( 10, 160 ) );
         run_buffer_job( j, 902 );
      }
      {
         job j;
         buffered< to_eof< pegtl::iri::IRI_reference > >( j, "iri::IRI_reference", "iri" );
         j.docs = uri_docs( true, ndocs( 6, 120 ) );
         run_buffer_job( j, 903 );
      }
      {
         job j;
         buffered< http::HTTP_message >( j, "http::HTTP_message", "http" );
         j.docs = http_message_docs( ndocs( 6, 96 ) );
         run_buffer_job( j, 904 );
      }
      {
         job j;
         // without the sizes near SIZE_MAX: chunk_data calls in.size( size ), buffer_input::require( SIZE_MAX ) overflows a pointer comparison (known, DESIGN.md section 6 row 10)
         buffered< chunked_top >( j, "http::chunked_body", "http" );
         buffered< http::chunk >( j, "http::chunk", "http" );
         j.docs = http_chunked_docs( ndocs( 6, 96 ), false );
         run_buffer_job( j, 905 );
      }
   }
}  // namespace c03
#endif

#if C03_HAS( 10 )
namespace c03
{
   inline void part_buffer_grammars_2()
   {
      {
         job j;
         buffered< lua53::grammar >( j, "lua53::grammar", "lua53" );
         j.docs = lua_docs( ndocs( 4, 64 ) );
         run_buffer_job( j, 1001 );
      }
      {
         job j;
         buffered< lua53::literal_string >( j, "lua53::literal_string", "lua53" );
         buffered< lua53::comment >( j, "lua53::comment", "lua53" );
         j.docs = { "\"a\\n\\x41\\065\\u{1F600}\\z  \\\nb\"", "[==[\n ]] ]=] ]==]", "--[==[ a ]] ]==]", "-- short\r\n", "[=[\r\n\xE2\x82\xAC]=]" };
         run_buffer_job( j, 1002 );
      }
      {
         job j;
         buffered< proto3::proto >( j, "proto3::proto", "proto3" );
         j.docs = proto_docs( ndocs( 4, 64 ) );
         run_buffer_job( j, 1003 );
      }
   }
}  // namespace c03
#endif

#if C03_HAS( 11 )
namespace c03
{
   template< typename Eol >
   void buffer_core( const char* en, const std::uint64_t stream )
   {
      using namespace pegtl;
      const std::string g = std::string( "core@eol::" ) + en;
      {
         job j;
         buffered< core::lines, Eol >( j, ( std::string( "lines-grammar @eol::" ) + en ).c_str(), g.c_str() );
         buffered< seq< until< eolf >, until< eolf >, until< eolf > >, Eol >( j, ( std::string( "seq<until<eolf>,until<eolf>,until<eolf>> @eol::" ) + en ).c_str(), g.c_str() );
         buffered< until< eof, sor< eol, bytes< 2 >, any > >, Eol >( j, ( std::string( "until<eof,sor<eol,bytes<2>,any>> @eol::" ) + en ).c_str(), g.c_str() );
         j.docs = line_docs();
         run_buffer_job( j, stream );
      }
   }

   inline void part_buffer_rules()
   {
      using namespace pegtl;
      {
         job j;
         buffered< unsigned_rule >( j, "unsigned_rule", "integer" );
         buffered< signed_rule >( j, "signed_rule", "integer" );
         buffered< maximum_rule< std::uint8_t > >( j, "maximum_rule<uint8_t>", "integer" );
         buffered< maximum_rule< std::uint64_t > >( j, "maximum_rule<uint64_t>", "integer" );
         buffered< list< maximum_rule< std::uint8_t >, one< '.' > > >( j, "list<maximum_rule<uint8_t>,one<'.'>>", "integer" );
         j.docs = numeral_docs( ndocs( 4, 120 ) );
         j.docs.push_back( "1.22.255.0.99" );
         run_buffer_job( j, 1101 );
      }
      {
         job j;
         buffered< rs_plain >( j, "raw_string<'[','=',']'>", "raw_string" );
         buffered< rs_utf8 >( j, "raw_string<'[','=',']',utf8::any>", "raw_string" );
         j.docs = raw_string_docs( ndocs( 6, 120 ) );
         run_buffer_job( j, 1102 );
      }
      {
         job j;
         buffered< rep_one_min_max< 2, 4, 'a' > >( j, "rep_one_min_max<2,4,'a'>", "rep" );
         buffered< rep_string< 3, 'a', 'b' > >( j, "rep_string<3,'a','b'>", "rep" );
         buffered< plus< istring< 'a', 'B' > > >( j, "plus<istring<'a','B'>>", "rep" );
         j.docs = { "aaaa", "aaaaa", "ababab", "abABaBAb", "aa" };
         run_buffer_job( j, 1103 );
      }
      {
         job j;
         buffered< utf8_r_any >( j, "plus<utf8::any>", "utf8" );
         buffered< utf8_r_mix >( j, "seq<opt<utf8::bom>,star<sor<string,one,any>>>", "utf8" );
         j.docs = unicode_docs( FAM_TEXT, ndocs( 6, 120 ) );
         run_buffer_job( j, 1104 );
      }
      {
         job j;
         buffered< utf16_be_r_any >( j, "plus<utf16_be::any>", "utf16", FAM_U16BE );
         buffered< utf16_be_r_mix >( j, "seq<opt<utf16_be::bom>,star<sor<string,one,any>>>", "utf16", FAM_U16BE );
         j.docs = unicode_docs( FAM_U16BE, ndocs( 6, 120 ) );
         run_buffer_job( j, 1105 );
      }
      {
         job j;
         buffered< utf16_le_r_any >( j, "plus<utf16_le::any>", "utf16", FAM_U16LE );
         j.docs = unicode_docs( FAM_U16LE, ndocs( 6, 120 ) );
         run_buffer_job( j, 1106 );
      }
      {
         job j;
         buffered< utf32_be_r_any >( j, "plus<utf32_be::any>", "utf32", FAM_U32BE );
         j.docs = unicode_docs( FAM_U32BE, ndocs( 6, 120 ) );
         run_buffer_job( j, 1107 );
      }
      {
         job j;
         buffered< uint16_be_u_any >( j, "plus<uint16_be::any>", "uint", FAM_BIN );
         buffered< uint32_le_u_one >( j, "plus<uint32_le::one<..>>", "uint", FAM_BIN );
         buffered< uint64_be_u_mask_one >( j, "plus<uint64_be::mask_one<..>>", "uint", FAM_BIN );
         buffered< uint64_le_u_string >( j, "plus<sor<uint64_le::string<..>>>", "uint", FAM_BIN );
         j.docs = uint_docs();
         run_buffer_job( j, 1108 );
      }
      buffer_core< eol::lf_crlf >( "lf_crlf", 1110 );
      buffer_core< eol::lf >( "lf", 1111 );
      buffer_core< eol::cr >( "cr", 1112 );
      buffer_core< eol::crlf >( "crlf", 1113 );
      buffer_core< eol::cr_crlf >( "cr_crlf", 1114 );
   }
}  // namespace c03
#endif

namespace c03
{
   inline void run_parts()
   {
#if C03_HAS( 1 )
      part_json();
#endif
#if C03_HAS( 2 )
      part_uri();
#endif
#if C03_HAS( 3 )
      part_http();
#endif
#if C03_HAS( 4 )
      part_lua();
#endif
#if C03_HAS( 5 )
      part_examples();
#endif
#if C03_HAS( 6 )
      part_rules();
#endif
#if C03_HAS( 7 )
      part_unicode();
#endif
#if C03_HAS( 8 )
      part_core();
#endif
#if C03_HAS( 9 )
      part_buffer_grammars_1();
#endif
#if C03_HAS( 10 )
      part_buffer_grammars_2();
#endif
#if C03_HAS( 11 )
      part_buffer_rules();
#endif
   }
}  // namespace c03

int main( int argc, char** argv )
{
   verif::init( argc, argv );
   c03::install_hooks();
   c03::debug_errors = std::getenv( "C03_DEBUG" ) != nullptr;
   c03::run_parts();
   c03::flush_cells();
   V.finish();
   return 0;
}
