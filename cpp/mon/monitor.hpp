// Omni-monitor, template side: control / action / state types that turn a real PEGTL parsing run
// into an event stream. Everything that does not depend on the grammar lives in monitor.cpp.
#pragma once
#include <tao/pegtl.hpp>

#include <cstddef>
#include <cstdint>
#include <exception>
#include <stdexcept>
#include <string>
#include <string_view>
#include <type_traits>
#include <vector>

#include "ref/peg_ref.hpp"

namespace mon
{
   namespace pegtl = tao::pegtl;

   // ------------------------------------------------------------------ registry: type -> id
   template< typename Rule > struct rid { static constexpr int v = -1; };

   struct reginfo { int vid; std::string_view name; };

   // ------------------------------------------------------------------ snapshots
   struct snap
   {
      const char* p = nullptr;
      std::size_t byte = 0, line = 0, column = 0;
      bool has_lc = false;   // line/column come from eager counters (cheap); lazy inputs compute them on demand
   };

   template< typename In >
   snap mk( const In& in ) noexcept
   {
      snap s;
      s.p = in.current();
      s.byte = in.byte();
      if constexpr( In::tracking_mode_v == pegtl::tracking_mode::eager ) {
         s.line = in.line();
         s.column = in.column();
         s.has_lc = true;
      }
      return s;
   }

   // full position as a user sees it (in.position()): used at hooks, where C06 says it is observable
   template< typename In >
   snap mkpos( const In& in )
   {
      snap s;
      s.p = in.current();
      const auto pos = in.position();
      s.byte = pos.byte;
      s.line = pos.line;
      s.column = pos.column;
      s.has_lc = true;
      return s;
   }

   template< typename In, typename = void > struct has_plain_end : std::false_type {};
   template< typename In > struct has_plain_end< In, std::void_t< decltype( std::declval< const In& >().end() ) > > : std::true_type {};

   template< typename In >
   const char* window_end( const In& in ) noexcept
   {
      if constexpr( has_plain_end< In >::value ) return in.end();
      else return nullptr;
   }

   // ------------------------------------------------------------------ out-of-line monitor entry points (monitor.cpp)
   struct fuel_exc {};   // thrown at every wrapper entry once the step/nesting budget is exhausted

   struct foreign : std::runtime_error { int serial; explicit foreign( int s ) : std::runtime_error( "foreign exception from an action" ), serial( s ) {} };
   struct alien { int serial; };   // not derived from std::exception

   template< template< typename... > class Action, typename = void > struct afam_of { static constexpr int v = 0; };
   template< template< typename... > class Action > struct afam_of< Action, std::void_t< decltype( Action< void >::family ) > > { static constexpr int v = Action< void >::family; };

   enum rflags : unsigned { F_MUSTIF = 2048, F_AFAM_B = 1024, F_ACT = 1, F_REQUIRED = 2, F_LOOKAHEAD = 4, F_MUSTLIKE = 8, F_ENABLED = 16, F_HAS_UNWIND = 32, F_ENABLE_RULE = 64, F_DISABLE_RULE = 128, F_CFAM_B = 256, F_TRY = 512 };

   void on_enter( std::string_view name, std::string_view rule_t_name, int vid, unsigned flags, const void* input, const snap& s, const char* in_end );
   void on_leave( const snap& s, int result ) noexcept;   // result: 1 true, 0 false, 2 exception
   void on_hook( int kind, std::string_view name, const snap& pos, int cfam ) noexcept;   // 0 start 1 success 2 failure 3 unwind 4 apply 5 apply0 6 raise 7 raise_nested
   void on_raise( std::string_view name, int vid, const snap& pos ) noexcept;
   void on_raise_nested( std::string_view name, int vid, std::size_t byte, std::size_t line, std::size_t column ) noexcept;
   // action side; returns false when the action vetoes; throws foreign / alien when the throw predicate says so
   bool on_action( int vid, int kind, int fam, const char* b, const char* e, bool has_input, std::size_t pbyte, std::size_t pline, std::size_t pcol, int state_serial );
   void on_class_action( int id, const char* b, const char* e, int state_serial );
   bool on_class_action_veto( int id, const char* b, const char* e, int state_serial );
   void on_state( int what, int type, int serial, const char* cursor, int outer_serial ) noexcept;   // 0 ctor 1 success 2 dtor
   int next_state_serial() noexcept;

   // ------------------------------------------------------------------ states
   struct state_base
   {
      int type;
      int serial;
      state_base( int t, int s ) : type( t ), serial( s ) {}
   };

   inline int first_serial() { return -1; }
   template< typename S, typename... Ss >
   int first_serial( const S& s, const Ss&... ss )
   {
      if constexpr( std::is_base_of_v< state_base, std::decay_t< S > > ) return s.serial;
      else return first_serial( ss... );
   }

   struct top_state : state_base
   {
      top_state() : state_base( 0, 0 ) {}
   };

   template< int N >
   struct st : state_base
   {
      template< typename In, typename... Outer >
      explicit st( const In& in, Outer&&... outer )
         : state_base( N, next_state_serial() )
      {
         on_state( 0, N, serial, in.current(), first_serial( outer... ) );
      }
      st()
         : state_base( N, next_state_serial() )
      {
         on_state( 0, N, serial, nullptr, -2 );   // default-constructed (change_states): no input, no outer states
      }
      st( const st& ) = delete;
      template< typename In, typename... Outer >
      void success( const In& in, Outer&&... outer )
      {
         on_state( 1, N, serial, in.current(), first_serial( outer... ) );
      }
      ~st() { on_state( 2, N, serial, nullptr, -1 ); }
   };

   // ------------------------------------------------------------------ actions
   template< int Kind, int Vid, int Fam > struct act_impl { static constexpr int family = Fam; };

   template< int Vid, int Fam >
   struct act_impl< ref::A_APPLY, Vid, Fam > : pegtl::require_apply   // "must have a callable apply()": a debugging aid users put on their actions
   {
      static constexpr int family = Fam;
      template< typename AI, typename... S >
      static void apply( const AI& in, S&&... st )
      {
         const auto pos = in.position();
         (void)on_action( Vid, ref::A_APPLY, Fam, in.begin(), in.end(), true, pos.byte, pos.line, pos.column, first_serial( st... ) );
      }
   };
   template< int Vid, int Fam >
   struct act_impl< ref::A_APPLY0, Vid, Fam > : pegtl::require_apply0   // "must have a callable apply0()": a debugging aid users put on their actions
   {
      static constexpr int family = Fam;
      template< typename... S >
      static void apply0( S&&... st )
      {
         (void)on_action( Vid, ref::A_APPLY0, Fam, nullptr, nullptr, false, 0, 0, 0, first_serial( st... ) );
      }
   };
   template< int Vid, int Fam >
   struct act_impl< ref::A_VETO, Vid, Fam > : pegtl::require_apply   // "must have a callable apply()": a debugging aid users put on their actions
   {
      static constexpr int family = Fam;
      template< typename AI, typename... S >
      static bool apply( const AI& in, S&&... st )
      {
         const auto pos = in.position();
         return on_action( Vid, ref::A_VETO, Fam, in.begin(), in.end(), true, pos.byte, pos.line, pos.column, first_serial( st... ) );
      }
   };
   template< int Vid, int Fam >
   struct act_impl< ref::A_VETO0, Vid, Fam > : pegtl::require_apply0   // "must have a callable apply0()": a debugging aid users put on their actions
   {
      static constexpr int family = Fam;
      template< typename... S >
      static bool apply0( S&&... st )
      {
         return on_action( Vid, ref::A_VETO0, Fam, nullptr, nullptr, false, 0, 0, 0, first_serial( st... ) );
      }
   };
   template< int Vid, int Fam >
   struct act_impl< ref::A_THROW, Vid, Fam > : pegtl::require_apply   // "must have a callable apply()": a debugging aid users put on their actions
   {
      static constexpr int family = Fam;
      template< typename AI, typename... S >
      static void apply( const AI& in, S&&... st )
      {
         const auto pos = in.position();
         (void)on_action( Vid, ref::A_THROW, Fam, in.begin(), in.end(), true, pos.byte, pos.line, pos.column, first_serial( st... ) );
      }
   };
   template< int Vid, int Fam >
   struct act_impl< ref::A_THROW_ALIEN, Vid, Fam > : pegtl::require_apply   // "must have a callable apply()": a debugging aid users put on their actions
   {
      static constexpr int family = Fam;
      template< typename AI, typename... S >
      static void apply( const AI& in, S&&... st )
      {
         const auto pos = in.position();
         (void)on_action( Vid, ref::A_THROW_ALIEN, Fam, in.begin(), in.end(), true, pos.byte, pos.line, pos.column, first_serial( st... ) );
      }
   };

   // class actions for apply<> / apply0<> / if_apply<>: even id = void, odd id = veto by predicate
   template< int Id >
   struct cls
   {
      template< typename AI, typename... S >
      static auto apply( const AI& in, S&&... st ) -> std::conditional_t< ( Id & 1 ) != 0, bool, void >
      {
         if constexpr( ( Id & 1 ) != 0 ) return on_class_action_veto( Id, in.begin(), in.end(), first_serial( st... ) );
         else on_class_action( Id, in.begin(), in.end(), first_serial( st... ) );
      }
      template< typename... S >
      static auto apply0( S&&... st ) -> std::conditional_t< ( Id & 1 ) != 0, bool, void >
      {
         if constexpr( ( Id & 1 ) != 0 ) return on_class_action_veto( Id, nullptr, nullptr, first_serial( st... ) );
         else on_class_action( Id, nullptr, nullptr, first_serial( st... ) );
      }
   };

   // ------------------------------------------------------------------ control
   template< typename T > inline constexpr bool is_lookahead = false;
   template< typename... Rs > inline constexpr bool is_lookahead< pegtl::internal::at< Rs... > > = true;
   template< typename... Rs > inline constexpr bool is_lookahead< pegtl::internal::not_at< Rs... > > = true;
   template< typename T > inline constexpr bool is_mustlike = false;
   template< typename... Rs > inline constexpr bool is_mustlike< pegtl::internal::must< Rs... > > = true;
   template< typename T > inline constexpr bool is_mustlike< pegtl::internal::raise< T > > = true;
   template< typename T > inline constexpr bool is_enable_rule = false;
   template< typename... Rs > inline constexpr bool is_enable_rule< pegtl::internal::enable< Rs... > > = true;
   template< typename T > inline constexpr bool is_disable_rule = false;
   template< typename... Rs > inline constexpr bool is_disable_rule< pegtl::internal::disable< Rs... > > = true;
   template< typename T > inline constexpr bool is_try = false;
   template< typename E, typename... Rs > inline constexpr bool is_try< pegtl::internal::try_catch_return_false< E, Rs... > > = true;
   template< typename E, typename... Rs > inline constexpr bool is_try< pegtl::internal::try_catch_raise_nested< E, Rs... > > = true;

   template< typename Rule, typename = void > struct rule_t_of { using type = Rule; };
   template< typename Rule > struct rule_t_of< Rule, std::void_t< typename Rule::rule_t > > { using type = typename Rule::rule_t; };

   template< typename Rule > inline const std::string_view name_of = pegtl::demangle< Rule >();

   struct leave_guard
   {
      const void* in;
      snap ( *f )( const void* ) noexcept;
      int result = 2;
      ~leave_guard() { on_leave( f( in ), result ); }
   };

   // CFam: control family (0 = A, 1 = B); EnableAll: hooks for internal rules too; WithUnwind: defines unwind();
   // Base: the control the hooks are forwarded to (normal< Rule >, or must_if< Errors >::control< Rule > whose failure() may raise)
   template< typename Rule, int CFam, bool EnableAll, bool WithUnwind, typename Base = pegtl::normal< Rule >, bool MustIf = false >
   struct control_impl : Base
   {
      static constexpr bool enable = EnableAll ? true : Base::enable;

      template< typename In, typename... S > static void start( const In& in, S&&... /*unused*/ ) noexcept { on_hook( 0, name_of< Rule >, mkpos( in ), CFam ); }
      template< typename In, typename... S > static void success( const In& in, S&&... /*unused*/ ) noexcept { on_hook( 1, name_of< Rule >, mkpos( in ), CFam ); }
      template< typename In, typename... S > static void failure( const In& in, S&&... st )
      {
         on_hook( 2, name_of< Rule >, mkpos( in ), CFam );
         if constexpr( MustIf ) Base::failure( in, st... );   // raises when the rule has a must_if message
      }

      template< typename In, typename... S >
      [[noreturn]] static void raise( const In& in, S&&... st )
      {
         on_raise( name_of< Rule >, rid< Rule >::v, mkpos( in ) );
         Base::raise( in, st... );
      }

      template< typename Ambient, typename... S >
      [[noreturn]] static void raise_nested( const Ambient& am, S&&... st )
      {
         const auto p = pegtl::internal::get_position( am );
         on_raise_nested( name_of< Rule >, rid< Rule >::v, p.byte, p.line, p.column );
         Base::raise_nested( am, st... );
      }

      template< template< typename... > class Action, typename Inputerator, typename In, typename... S >
      static auto apply( const Inputerator& begin, const In& in, S&&... st )
         -> decltype( Base::template apply< Action >( begin, in, st... ) )
      {
         on_hook( 4, name_of< Rule >, mkpos( in ), CFam );
         return Base::template apply< Action >( begin, in, st... );
      }

      template< template< typename... > class Action, typename In, typename... S >
      static auto apply0( const In& in, S&&... st )
         -> decltype( Base::template apply0< Action >( in, st... ) )
      {
         on_hook( 5, name_of< Rule >, mkpos( in ), CFam );
         return Base::template apply0< Action >( in, st... );
      }

      template< pegtl::apply_mode A, pegtl::rewind_mode M, template< typename... > class Action, template< typename... > class Control, typename In, typename... S >
      [[nodiscard]] static bool match( In& in, S&&... st )
      {
         using RT = typename rule_t_of< Rule >::type;
         constexpr unsigned flags = ( A == pegtl::apply_mode::action ? F_ACT : 0u ) | ( M == pegtl::rewind_mode::required ? F_REQUIRED : 0u ) | ( is_lookahead< RT > ? F_LOOKAHEAD : 0u ) | ( is_mustlike< RT > ? F_MUSTLIKE : 0u ) | ( control_impl::enable ? F_ENABLED : 0u ) | ( WithUnwind ? F_HAS_UNWIND : 0u ) | ( is_enable_rule< RT > ? F_ENABLE_RULE : 0u ) | ( is_disable_rule< RT > ? F_DISABLE_RULE : 0u ) | ( CFam ? F_CFAM_B : 0u ) | ( is_try< RT > ? F_TRY : 0u ) | ( afam_of< Action >::v ? F_AFAM_B : 0u ) | ( MustIf ? F_MUSTIF : 0u );
         on_enter( name_of< Rule >, name_of< RT >, rid< Rule >::v, flags, &in, mk( in ), window_end( in ) );
         leave_guard g{ &in, +[]( const void* p ) noexcept { return mk( *static_cast< const In* >( p ) ); } };
         const bool r = Base::template match< A, M, Action, Control >( in, st... );
         g.result = r ? 1 : 0;
         return r;
      }
   };

   template< typename Rule, int CFam, bool EnableAll, typename Base = pegtl::normal< Rule >, bool MustIf = false >
   struct control_impl_unwind : control_impl< Rule, CFam, EnableAll, true, Base, MustIf >
   {
      template< typename In, typename... S > static void unwind( const In& in, S&&... /*unused*/ ) noexcept { on_hook( 3, name_of< Rule >, mk( in ), CFam ); }
   };

   // ------------------------------------------------------------------ results handed to monitor.cpp
   struct tnode
   {
      std::string_view type;
      std::size_t bo, eo;          // pointer offsets of m_begin / m_end (eo = npos when content was removed)
      std::size_t bbyte, bline, bcol, ebyte, eline, ecol;   // node.begin() / node.end() as a user sees them
      int depth;
      bool has_content;
      bool content_ok;             // string_view() == input[ bo, eo )
      bool source_foreign = false; // node.source does not refer to the top-level input's source
   };

   struct runres
   {
      std::vector< tnode > tree;
      bool tree_null = false;
      int st = 0;            // 1 success, 0 local failure, 2 parse_error, 3 fuel, 4 foreign std, 5 alien, 6 other std::exception, 7 unknown, 8 overflow_error
      std::size_t end_byte = 0;
      const char* end_ptr = nullptr;
      std::string msg, what;
      std::size_t ebyte = 0, eline = 0, ecol = 0;
      int serial = -1;
      int nested_depth = 0;
      std::string inner_msg;   // innermost nested exception's message (parse_error) if any
      int inner_kind = 0;      // ref::exkind of the innermost exception
      int inner_serial = -1;
   };

   void classify_current_exception( runres& rs ) noexcept;   // call inside catch( ... )
}  // namespace mon
