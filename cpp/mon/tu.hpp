// Included by every generated corpus TU after the grammar types, the registry specialisations and
// the MON_KINDS table. Configuration macros (set on the command line by tools/specs):
//   MON_VARIANT   action attachment variant (index into the generated kinds tables)
//   MON_LAZY      0 eager / 1 lazy tracking
//   MON_EOL       0 lf, 1 cr, 2 crlf, 3 lf_crlf, 4 cr_crlf
//   MON_CTRL      bit0: hooks for internal rules too (enable = true), bit1: control defines unwind()
//   MON_PLAIN     no monitor: Action = nothing, Control = normal, all four apply_mode x rewind_mode combinations
#pragma once
#include "mon/corpus.hpp"

#ifndef MON_VARIANT
#define MON_VARIANT 0
#endif
#ifndef MON_LAZY
#define MON_LAZY 0
#endif
#ifndef MON_EOL
#define MON_EOL 3
#endif
#ifndef MON_CTRL
#define MON_CTRL 2
#endif
#ifndef MON_BUFSET
#define MON_BUFSET 0
#endif

namespace mon
{
   template< int P > struct eol_of;
   template<> struct eol_of< 0 > { using type = pegtl::eol::lf; };
   template<> struct eol_of< 1 > { using type = pegtl::eol::cr; };
   template<> struct eol_of< 2 > { using type = pegtl::eol::crlf; };
   template<> struct eol_of< 3 > { using type = pegtl::eol::lf_crlf; };
   template<> struct eol_of< 4 > { using type = pegtl::eol::cr_crlf; };

   using eol_t = eol_of< MON_EOL >::type;
   using input_t = pegtl::memory_input< ( MON_LAZY ? pegtl::tracking_mode::lazy : pegtl::tracking_mode::eager ), eol_t, std::string >;

   // fields are set by name: a positional initialiser silently shifted when a field was added (C07 ran misconfigured once)
   inline config base_config( const char* name )
   {
      config c{};
      c.name = name;
      c.variant = MON_VARIANT;
      c.lazy = ( MON_LAZY != 0 );
      c.eolpol = MON_EOL;
      c.ctrl = MON_CTRL;
#if defined( MON_MUSTIF )
      c.mustif = true;
#endif
      return c;
   }

   constexpr int kind_of_vid_c( int vid ) { return vid < 0 ? 0 : MON_KINDS[ vid ]; }
   constexpr int kind_of_vid_b( int vid ) { return vid < 0 ? 0 : MON_KINDS_B[ vid ]; }

   template< typename Rule > struct actA;
   template< typename Rule > struct actB;
   template< typename Rule > struct ctlA;
   template< typename Rule > struct ctlB;

   // actions with a match(): state / action / control switches attached to a rule (C13)
   template< int Vid, int Fam >
   struct act_impl< ref::A_CHANGE_STATE, Vid, Fam > : pegtl::change_state< st< 1 + Vid % 3 > > { static constexpr int family = Fam; };
   template< int Vid, int Fam >
   struct act_impl< ref::A_CHANGE_STATES, Vid, Fam > : pegtl::change_states< st< 1 + Vid % 3 > >
   {
      static constexpr int family = Fam;
      template< typename In, typename... Outer >
      static void success( const In& in, st< 1 + Vid % 3 >& s, Outer&&... outer ) { s.success( in, outer... ); }
   };
   template< int Vid, int Fam >
   struct act_impl< ref::A_CHANGE_ACTION, Vid, Fam > : pegtl::change_action< actB > { static constexpr int family = Fam; };
   template< int Vid, int Fam >
   struct act_impl< ref::A_CHANGE_ACTION_AND_STATE, Vid, Fam > : pegtl::change_action_and_state< actB, st< 1 + Vid % 3 > > { static constexpr int family = Fam; };
   template< int Vid, int Fam >
   struct act_impl< ref::A_CHANGE_CONTROL, Vid, Fam > : pegtl::change_control< ctlB > { static constexpr int family = Fam; };
   template< int Vid, int Fam >
   struct act_impl< ref::A_ENABLE_ACTION, Vid, Fam > : pegtl::enable_action { static constexpr int family = Fam; };
   template< int Vid, int Fam >
   struct act_impl< ref::A_DISABLE_ACTION, Vid, Fam > : pegtl::disable_action { static constexpr int family = Fam; };

   template< typename Rule > struct actA : act_impl< kind_of_vid_c( rid< Rule >::v ), rid< Rule >::v, 0 > {};
   template< typename Rule > struct actB : act_impl< kind_of_vid_b( rid< Rule >::v ), rid< Rule >::v, 1 > {};

#if defined( MON_MUSTIF )
   // must_if control underneath the monitor: rules with a message raise from their failure() hook
   constexpr const char* mif_message_c( int vid ) { return vid < 0 ? nullptr : MON_MIF[ vid ]; }
   struct mif_errors { template< typename Rule > static constexpr const char* message = mif_message_c( rid< Rule >::v ); };
   template< typename Rule > using mif_base = typename pegtl::must_if< mif_errors, pegtl::normal, false >::template control< Rule >;
   template< typename Rule > struct ctlA : control_impl_unwind< Rule, 0, false, mif_base< Rule >, true > {};
   template< typename Rule > struct ctlB : control_impl_unwind< Rule, 1, false, mif_base< Rule >, true > {};
#else
   template< typename Rule > struct ctlA : std::conditional_t< ( MON_CTRL & 2 ) != 0, control_impl_unwind< Rule, 0, ( MON_CTRL & 1 ) != 0 >, control_impl< Rule, 0, ( MON_CTRL & 1 ) != 0, false > > {};
   template< typename Rule > struct ctlB : std::conditional_t< ( MON_CTRL & 2 ) != 0, control_impl_unwind< Rule, 1, ( MON_CTRL & 1 ) != 0 >, control_impl< Rule, 1, ( MON_CTRL & 1 ) != 0, false > > {};
#endif

#if defined( MON_ANA )
}  // namespace mon
#include <tao/pegtl/contrib/analyze.hpp>
namespace mon
{
   template< typename G >
   long analyze_entry()
   {
      return long( pegtl::analyze< G >( -1 ) );
   }
#define MON_ANALYZE_ENTRY( G ) &mon::analyze_entry< G >
#else
#define MON_ANALYZE_ENTRY( G ) nullptr
#endif

#if defined( MON_BUF )
}  // namespace mon
#include <cstdio>
#include <fstream>
namespace mon
{
   // plain recording actions for the input-class comparison (no frame monitor: pointers into a buffer_input move on discard)
   template< int Kind, int Vid > struct bact_impl {};
   template< int Vid > struct bact_impl< ref::A_APPLY, Vid >
   {
      template< typename AI, typename... S >
      static void apply( const AI& in, S&&... /*unused*/ ) { const auto p = in.position(); on_buf_action( Vid, ref::A_APPLY, p.byte, in.size(), p.line, p.column ); }
   };
   template< int Vid > struct bact_impl< ref::A_APPLY0, Vid >
   {
      template< typename... S >
      static void apply0( S&&... /*unused*/ ) { on_buf_action( Vid, ref::A_APPLY0, 0, 0, 0, 0 ); }
   };
   template< int Vid > struct bact_impl< ref::A_VETO, Vid >
   {
      template< typename AI, typename... S >
      static bool apply( const AI& in, S&&... /*unused*/ ) { const auto p = in.position(); on_buf_action( Vid, ref::A_VETO, p.byte, in.size(), p.line, p.column ); return !on_buf_veto( Vid, p.byte, in.size() ); }
   };
   constexpr int bkind( int k ) { return ( k == ref::A_APPLY || k == ref::A_APPLY0 || k == ref::A_VETO ) ? k : ( k == ref::A_VETO0 ? ref::A_APPLY0 : ( k >= ref::A_THROW ? ref::A_APPLY : 0 ) ); }
   template< typename Rule > struct actBuf : bact_impl< bkind( kind_of_vid_c( rid< Rule >::v ) ), rid< Rule >::v > {};

   using mem_eager_t = pegtl::memory_input< pegtl::tracking_mode::eager, eol_t, std::string >;
   using mem_lazy_t = pegtl::memory_input< pegtl::tracking_mode::lazy, eol_t, std::string >;

   template< typename G, typename In >
   void run_on( In& in, runres& rs )
   {
      try {
         const bool r = pegtl::parse< G, actBuf >( in );
         rs.st = r ? 1 : 0;
         rs.end_byte = in.byte();
      }
      catch( ... ) {
         classify_current_exception( rs );
      }
   }

   // input classes: 0 memory eager (baseline) 1 memory lazy 2 buffer Chunk A 3 buffer Chunk B 4 string_input 5 read_input 6 mmap_input 7 file_input 8 argv_input 9 istream_input 10 cstream_input
#if MON_BUFSET == 0
   constexpr std::size_t chunk_a = 1, chunk_b = 3;
#else
   constexpr std::size_t chunk_a = 64, chunk_b = 64;
#endif
   template< typename G >
   void run_entry_impl( const runreq& rq, runres& rs )
   {
      const std::size_t n = std::size_t( rq.e - rq.b );
      switch( rq.combo ) {
         case 0: { mem_eager_t in( rq.b, rq.e, "x" ); run_on< G >( in, rs ); return; }
#if MON_BUFSET == 0
         case 1: { mem_lazy_t in( rq.b, rq.e, "x" ); run_on< G >( in, rs ); return; }
         case 2: { pegtl::buffer_input< sched_reader, eol_t, std::string, chunk_a > in( "x", rq.maximum, rq.b, n, rq.sched ); run_on< G >( in, rs ); return; }
         case 3: { pegtl::buffer_input< sched_reader, eol_t, std::string, chunk_b > in( "x", rq.maximum, rq.b, n, rq.sched ); run_on< G >( in, rs ); return; }
#else
         case 2: { pegtl::buffer_input< sched_reader, eol_t, std::string, chunk_a > in( "x", rq.maximum, rq.b, n, rq.sched ); run_on< G >( in, rs ); return; }
         case 4: { pegtl::string_input< pegtl::tracking_mode::eager, eol_t, std::string > in( std::string( rq.b, n ), "x" ); run_on< G >( static_cast< mem_eager_t& >( in ), rs ); return; }
         case 5: { pegtl::read_input< pegtl::tracking_mode::eager, eol_t > in( rq.path, "x" ); run_on< G >( static_cast< mem_eager_t& >( in ), rs ); return; }
         case 6: { pegtl::mmap_input< pegtl::tracking_mode::eager, eol_t > in( rq.path, "x" ); run_on< G >( static_cast< mem_eager_t& >( in ), rs ); return; }
         case 7: { pegtl::file_input< pegtl::tracking_mode::eager, eol_t > in( rq.path, "x" ); run_on< G >( static_cast< mem_eager_t& >( in ), rs ); return; }
         case 8: {
            std::string arg( rq.b, n );
            char* argv[] = { const_cast< char* >( "prog" ), arg.data(), nullptr };
            pegtl::argv_input< pegtl::tracking_mode::eager, eol_t > in( argv, 1, "x" );
            run_on< G >( static_cast< mem_eager_t& >( in ), rs );
            return;
         }
         case 9: { std::ifstream f( rq.path, std::ios::binary ); pegtl::istream_input< eol_t, 64 > in( f, rq.maximum, "x" ); run_on< G >( in, rs ); return; }
         case 10: { std::FILE* f = std::fopen( rq.path, "rb" ); if( !f ) { rs.st = 7; return; } { pegtl::cstream_input< eol_t, 64 > in( f, rq.maximum, "x" ); run_on< G >( in, rs ); } std::fclose( f ); return; }
#endif
         default: rs.st = -1; return;
      }
   }
   inline const config CONFIG = [] { config c = base_config( "buf" ); c.lazy = false; c.ctrl = 0; c.buf = true; c.bufset = MON_BUFSET; return c; }();
#elif defined( MON_TREE )
}  // namespace mon
#include <tao/pegtl/contrib/parse_tree.hpp>
namespace mon
{
   constexpr int sel_of_vid_c( int vid ) { return vid < 0 ? 0 : MON_SELS[ vid ]; }
   template< int K > struct sel_impl : std::false_type {};
   template<> struct sel_impl< 1 > : pegtl::parse_tree::store_content {};
   template<> struct sel_impl< 2 > : pegtl::parse_tree::remove_content {};
   template<> struct sel_impl< 3 > : pegtl::parse_tree::fold_one {};
   template<> struct sel_impl< 4 > : pegtl::parse_tree::discard_empty {};
   template< typename Rule > struct selT : sel_impl< sel_of_vid_c( rid< Rule >::v ) > {};

   inline void flatten( const pegtl::parse_tree::node& n, int depth, const char* base, const char* end, const char* srcdata, std::vector< tnode >& out )
   {
      for( const auto& c : n.children ) {
         tnode t;
         t.type = c->type;
         t.depth = depth;
         t.has_content = c->has_content();
         t.bo = std::size_t( c->m_begin.data - base );
         t.eo = t.has_content ? std::size_t( c->m_end.data - base ) : std::size_t( -1 );
         // a node created on a rematch sub-input keeps a string_view into that input's (dead) source: do not touch it
         t.source_foreign = ( c->source.data() != srcdata );
         t.bbyte = c->m_begin.byte; t.bline = c->m_begin.line; t.bcol = c->m_begin.column;
         t.ebyte = t.eline = t.ecol = 0;
         if( t.has_content ) { t.ebyte = c->m_end.byte; t.eline = c->m_end.line; t.ecol = c->m_end.column; }
         if( !t.source_foreign ) {
            const auto b = c->begin();
            t.bbyte = b.byte; t.bline = b.line; t.bcol = b.column;
            if( t.has_content ) { const auto e = c->end(); t.ebyte = e.byte; t.eline = e.line; t.ecol = e.column; }
         }
         t.content_ok = true;
         if( t.has_content ) {
            const bool inside = c->m_begin.data >= base && c->m_end.data <= end && c->m_begin.data <= c->m_end.data;
            t.content_ok = inside;   // content is the input bytes [ bo, eo ) iff both pointers lie inside the input
         }
         out.push_back( t );
         flatten( *c, depth + 1, base, end, srcdata, out );
      }
   }

   template< typename G >
   void run_entry_impl( const runreq& rq, runres& rs )
   {
      input_t in( rq.b, rq.e, "x" );
      try {
         const auto root = pegtl::parse_tree::parse< G, selT, actA, ctlA >( in, RC.s0 );
         rs.st = root ? 1 : 0;
         rs.tree_null = !root;
         rs.end_byte = in.byte();
         rs.end_ptr = in.current();
         if( root ) flatten( *root, 0, rq.b, rq.e, in.source().data(), rs.tree );
      }
      catch( ... ) {
         rs.tree_null = true;
         classify_current_exception( rs );
      }
   }
   inline const config CONFIG = [] { config c = base_config( "tree" ); c.tree = true; c.selvariant = MON_SELV; return c; }();
#elif defined( MON_PLAIN )
   template< typename G >
   void run_entry_impl( const runreq& rq, runres& rs )
   {
      input_t in( rq.b, rq.e, "x" );
      try {
         bool r = false;
         switch( rq.combo ) {
            case 0: r = pegtl::parse< G, pegtl::nothing, pegtl::normal, pegtl::apply_mode::action, pegtl::rewind_mode::optional >( in, RC.s0 ); break;
            case 1: r = pegtl::parse< G, pegtl::nothing, pegtl::normal, pegtl::apply_mode::nothing, pegtl::rewind_mode::optional >( in, RC.s0 ); break;
            case 2: r = pegtl::parse< G, pegtl::nothing, pegtl::normal, pegtl::apply_mode::action, pegtl::rewind_mode::required >( in, RC.s0 ); break;
            default: r = pegtl::parse< G, pegtl::nothing, pegtl::normal, pegtl::apply_mode::nothing, pegtl::rewind_mode::required >( in, RC.s0 ); break;
         }
         rs.st = r ? 1 : 0;
         rs.end_byte = in.byte();
         rs.end_ptr = in.current();
      }
      catch( ... ) {
         classify_current_exception( rs );
      }
   }
   inline const config CONFIG = [] { config c = base_config( "plain" ); c.variant = 0; c.ctrl = 0; c.plain = true; return c; }();
#elif defined( MON_CLIENT )
}  // namespace mon
#include <tao/pegtl/contrib/coverage.hpp>
#include <tao/pegtl/contrib/trace.hpp>
#include <iostream>
namespace mon
{
   struct null_buf : std::streambuf { int overflow( int c ) override { return c; } };

   template< typename G >
   void run_entry_impl( const runreq& rq, runres& rs )
   {
      input_t in( rq.b, rq.e, "x" );
      pegtl::coverage_result cov;
      static null_buf nb;
      std::streambuf* old = std::cerr.rdbuf( &nb );
      try {
#if MON_CLIENT == 1
         const bool r = pegtl::coverage< G, actA, ctlA >( in, cov, RC.s0 );
#elif MON_CLIENT == 2
         const bool r = pegtl::standard_trace< G, actA, ctlA >( in, RC.s0 );
#else
         const bool r = pegtl::complete_trace< G, actA, ctlA >( in, RC.s0 );
#endif
         rs.st = r ? 1 : 0;
         rs.end_byte = in.byte();
         rs.end_ptr = in.current();
      }
      catch( ... ) {
         classify_current_exception( rs );
      }
      std::cerr.rdbuf( old );
      for( const auto& [ name, e ] : cov ) {
         on_coverage_counters( name, std::string_view(), e.start, e.success, e.failure, e.unwind );
         for( const auto& [ bn, b ] : e.branches ) on_coverage_counters( name, bn, b.start, b.success, b.failure, b.unwind );
      }
   }
   inline const config CONFIG = [] { config c = base_config( "client" ); c.client = MON_CLIENT; return c; }();
#else
   template< typename G >
   void run_entry_impl( const runreq& rq, runres& rs )
   {
      input_t in( rq.b, rq.e, "x" );
      try {
#if defined( MON_TOP_NOTHING )
         const bool r = pegtl::parse< G, actA, ctlA, pegtl::apply_mode::nothing, pegtl::rewind_mode::required >( in, RC.s0 );
#else
         const bool r = pegtl::parse< G, actA, ctlA >( in, RC.s0 );
#endif
         rs.st = r ? 1 : 0;
         rs.end_byte = in.byte();
         rs.end_ptr = in.current();
      }
      catch( ... ) {
         classify_current_exception( rs );
      }
   }
#if defined( MON_ANA )
   inline const config CONFIG = [] { config c = base_config( "ana" ); c.ana = true; return c; }();
#else
#if defined( MON_TOP_NOTHING )
   inline const config CONFIG = [] { config c = base_config( "mon-nothing-required" ); c.top_nothing = true; return c; }();
#else
   inline const config CONFIG = base_config( "mon" );
#endif
#endif
#endif

   // MON_INFLIGHT: the whole parsing run happens while another exception is in flight (it is started from the destructor of
   // a local object during stack unwinding, as a scope guard or an RAII logger would): nothing in the library may mistake
   // "some exception is in flight" for "this scope is being left by an exception"
   struct in_flight_marker {};
   template< typename G >
   struct unwinding_runner
   {
      const runreq& rq;
      runres& rs;
      ~unwinding_runner() { run_entry_impl< G >( rq, rs ); }   // run_entry_impl catches everything
   };

   template< typename G >
   void run_entry( const runreq& rq, runres& rs )
   {
#if defined( MON_INFLIGHT )
      try {
         unwinding_runner< G > u{ rq, rs };
         throw in_flight_marker{};
      }
      catch( const in_flight_marker& ) {
      }
#else
      run_entry_impl< G >( rq, rs );
#endif
   }
}  // namespace mon
