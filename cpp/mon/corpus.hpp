// Interface between a generated corpus TU and the grammar-independent monitor (monitor.cpp).
#pragma once
#include "common/verif.hpp"
#include "mon/monitor.hpp"

namespace mon
{
   // defined in mon/tu.hpp once the generated kind tables are known; grammars may name them earlier
   template< typename Rule > struct actA;
   template< typename Rule > struct actB;
   template< typename Rule > struct ctlA;
   template< typename Rule > struct ctlB;

   struct runreq
   {
      const char* b;
      const char* e;
      int combo = 0;        // plain config: 0..3 = (apply_mode action|nothing) x (rewind optional|required)
      int sched = 0;        // buffer config: reader schedule
      std::size_t maximum = 0;
   };

   struct grammar
   {
      const char* name;       // "g12"
      const char* text;       // human-readable grammar
      const char* profile;    // generator profile
      const char* cell;       // ctx-matrix cell (template/slot/mode/gadget) or ""
      const char* prop;       // property a result/consumed/blame mismatch is charged to (C01 / C09 / C05 ...)
      const ref::node* nodes;
      std::size_t nn;
      int top;
      const char* alphabet;   // NUL-free list given with explicit length
      std::size_t nalpha;
      const signed char* akinds;   // per registry id, for the variant compiled in (may be null)
      const signed char* akinds_b; // the same for action family B (never contains change_action kinds)
      const signed char* sels;     // parse-tree selector per registry id: 0 not selected, 1 store, 2 remove_content, 3 fold_one, 4 discard_empty
      unsigned salt;
      unsigned features;      // F_* below
      void ( *run )( const runreq&, runres& );
   };

   enum gfeat : unsigned { GF_EXC = 1, GF_ACT = 2, GF_STATE = 4, GF_LAZY_UNSAFE = 8, GF_DISCARD = 16, GF_CATCH_ALL = 32, GF_TREE = 64, GF_PRED_DUP = 128 };

   struct config
   {
      const char* name;       // "mon", "plain", "buf", ...
      int variant;            // action attachment variant
      bool lazy;
      int eolpol;             // 0 lf, 1 cr, 2 crlf, 3 lf_crlf, 4 cr_crlf
      int ctrl;               // bit0 enable-all, bit1 with unwind
      bool plain;
      bool tree = false;
      int selvariant = 0;
   };

   void set_registry( const reginfo* regs, std::size_t n, const char* const* custom_messages );
   int corpus_main( int argc, char** argv, const grammar* gs, std::size_t ng, const config& cfg );

   // set by corpus_main before each run; read by the generated run functions
   struct runctx
   {
      top_state s0;
   };
   extern runctx RC;
}  // namespace mon
