// Interface between a generated corpus TU and the grammar-independent monitor (monitor.cpp).
#pragma once
#include "common/verif.hpp"
#include "mon/monitor.hpp"

#include <tao/pegtl/contrib/integer.hpp>
#include <tao/pegtl/contrib/raw_string.hpp>
#include <tao/pegtl/contrib/rep_one_min_max.hpp>
#include <tao/pegtl/contrib/uint8.hpp>
#include <tao/pegtl/contrib/if_then.hpp>
#include <tao/pegtl/contrib/predicates.hpp>
#include <tao/pegtl/contrib/rep_string.hpp>
#include <tao/pegtl/contrib/separated_seq.hpp>

namespace mon
{
   // defined in mon/tu.hpp once the generated kind tables are known; grammars may name them earlier
   template< typename Rule > struct actA;
   template< typename Rule > struct actB;
   template< typename Rule > struct ctlA;
   template< typename Rule > struct ctlB;

   struct runreq
   {
      const char* b;
      const char* e;
      int combo = 0;        // plain config: 0..3 = (apply_mode action|nothing) x (rewind optional|required); buf config: input class
      const char* path = nullptr;   // buf config: file holding the same bytes (file / stream based classes)
      int sched = 0;        // buffer config: reader schedule
      std::size_t maximum = 0;
   };

   struct grammar
   {
      const char* name;       // "g12"
      const char* text;       // human-readable grammar
      const char* profile;    // generator profile
      const char* cell;       // ctx-matrix cell (template/slot/mode/gadget) or ""
      const char* prop;       // property a result/consumed/blame mismatch is charged to (C01 / C09 / C05 ...)
      const ref::node* nodes;
      std::size_t nn;
      int top;
      const char* alphabet;   // NUL-free list given with explicit length
      std::size_t nalpha;
      const char* prefixes;   // context matrix: selector bytes, one per inherited-mode context; every input = selector + body ("" = none)
      const signed char* akinds;   // per registry id, for the variant compiled in (may be null)
      const signed char* akinds_b; // the same for action family B (never contains change_action kinds)
      const char* const* mif;      // must_if messages per registry id (null = none), used when the configuration says so
      const signed char* sels;     // parse-tree selector per registry id: 0 not selected, 1 store, 2 remove_content, 3 fold_one, 4 discard_empty
      unsigned salt;
      unsigned features;      // F_* below
      void ( *run )( const runreq&, runres& );
      long ( *analyze )();        // analyze< G >( -1 ) in the "ana" configuration, else null
   };

   enum gfeat : unsigned { GF_EXC = 1, GF_ACT = 2, GF_STATE = 4, GF_LAZY_UNSAFE = 8, GF_DISCARD = 16, GF_CATCH_ALL = 32, GF_TREE = 64, GF_PRED_DUP = 128 };

   struct config
   {
      const char* name = "";  // "mon", "plain", "buf", ...
      int variant = 0;        // action attachment variant
      bool lazy = false;
      int eolpol = 3;         // 0 lf, 1 cr, 2 crlf, 3 lf_crlf, 4 cr_crlf
      int ctrl = 0;           // bit0 enable-all, bit1 with unwind
      bool plain = false;
      bool tree = false;
      int selvariant = 0;
      bool ana = false;
      int client = 0;           // 1: run through coverage<>, 2: standard_trace, 3: complete_trace (monitor control wrapped by state_control)
      bool buf = false;
      int bufset = 0;           // 0: memory eager/lazy + buffer Chunk 1 and 3; 1: buffer Chunk 64, stream and file based inputs
      bool mustif = false;      // monitor control on top of must_if< Errors >::control: rules with a message raise from their failure hook
      bool top_nothing = false; // the top-level call uses apply_mode::nothing and rewind_mode::required (actions attached but disabled)
   };

   // buf configuration: observation record of one run (raw action log with positions, result, error text)
   struct bact { int vid; int kind; std::size_t byte, size, line, column; };
   void on_buf_action( int vid, int kind, std::size_t byte, std::size_t size, std::size_t line, std::size_t column );
   bool on_buf_veto( int vid, std::size_t byte, std::size_t size );

   // reader with a seeded schedule of short reads over a byte string
   struct sched_reader
   {
      const char* data;
      std::size_t size;
      std::size_t pos = 0;
      int mode;
      unsigned calls = 0;
      std::uint64_t rs;
      sched_reader( const char* d, std::size_t n, int m ) : data( d ), size( n ), mode( m ), rs( 88172645463325252ull + std::uint64_t( m ) * 0x9E3779B97F4A7C15ull ) {}
      std::size_t operator()( char* buf, const std::size_t len )
      {
         std::size_t want = len;
         switch( mode ) {
            case 0: break;                                             // exactly the request
            case 1: want = 1; break;                                   // always one byte
            case 2: want = ( calls % 2 ) ? len : 1; break;             // alternating 1 / n
            case 3: want = 1 + ( calls * 7 % 3 ); break;               // 1, 2, 3, ...
            default: rs ^= rs << 13; rs ^= rs >> 7; rs ^= rs << 17; want = 1 + std::size_t( rs % ( len ? len : 1 ) ); break;   // seeded random 1..n
         }
         ++calls;
         VERIF_UNPOISON( buf, len );   // the monitor poisons what has not been delivered yet; the reader may of course write there
         std::size_t n = want < len ? want : len;
         if( n > size - pos ) n = size - pos;
         for( std::size_t i = 0; i < n; ++i ) buf[ i ] = data[ pos + i ];
         pos += n;
         return n;
      }
   };

   // client-level check of the coverage facility (C08): per rule and per branch start == success + failure + unwind
   void on_coverage_counters( std::string_view rule, std::string_view branch, std::size_t start, std::size_t success, std::size_t failure, std::size_t unwind );

   void set_registry( const reginfo* regs, std::size_t n, const char* const* custom_messages );
   int corpus_main( int argc, char** argv, const grammar* gs, std::size_t ng, const config& cfg );

   // set by corpus_main before each run; read by the generated run functions
   struct runctx
   {
      top_state s0;
   };
   extern runctx RC;
}  // namespace mon
