// Omni-monitor, grammar-independent side: frame stack, hook automaton (C08), cursor discipline (C02),
// window checks (C03), position function (C06), transactional action log (C04), exception identity
// (C05), comparison with the reference interpreter (C01/C09), coverage cells, main loop.
#include "mon/corpus.hpp"

#if defined( TAO_PEGTL_VERIF )
#include <tao/pegtl/internal/verif_hooks.hpp>
#endif

#include <algorithm>
#include <cstring>
#include <unistd.h>
#include <map>
#include <tuple>
#include <unordered_map>

#ifndef VERIF_TMP_ROOT
#define VERIF_TMP_ROOT "/verif/build"
#endif

namespace mon
{
   using verif::V;

   runctx RC;

   namespace
   {
      // ---------------------------------------------------------------- registry
      std::vector< std::string_view > g_names;          // by vid
      std::vector< const char* > g_custom;              // custom error messages by vid (or null)
      std::unordered_map< std::string_view, int > g_by_name;

      std::string_view vname( int vid ) { return ( vid >= 0 && std::size_t( vid ) < g_names.size() ) ? g_names[ vid ] : std::string_view( "?" ); }

      std::string tmpl( std::string_view n )
      {
         // template name of a rule type: text before the first '<', namespaces of the library stripped
         std::string s( n.substr( 0, n.find( '<' ) ) );
         for( const char* pre : { "tao::pegtl::internal::", "tao::pegtl::ascii::", "tao::pegtl::" } ) {
            if( s.rfind( pre, 0 ) == 0 ) { s = ( std::strcmp( pre, "tao::pegtl::internal::" ) == 0 ? "internal::" : "" ) + s.substr( std::strlen( pre ) ); break; }
         }
         if( s.size() > 1 && s[ 0 ] == 'g' && std::isdigit( (unsigned char)s[ 1 ] ) ) return "named";
         return s;
      }

      // ---------------------------------------------------------------- per-run context
      struct pending { const char* prop; std::string key; std::string what; };

      struct frame
      {
         std::string_view name, rtname;
         int vid;
         unsigned flags;
         const void* input;
         snap a;
         const char* in_end;
         int started = 0;
         int closed = -1;
         int applied = 0;       // apply/apply0 hook seen
         int kids = 0;          // nested invocations opened so far
         int kids_at_apply = -1;
         std::size_t amark;     // transactional action log length at entry
         std::size_t smark;     // surviving-scope log length at entry
         long bumps;            // global bump counter at entry
         const char* furthest_saved;
         bool vetoed = false;
         bool poisoned = false;
         const char* poison_from = nullptr;
         std::size_t poison_len = 0;
         bool raised_from_failure_hook = false;
         int kind = 0;              // action kind attached to this rule in the action family of the invocation
         bool delegating = false;   // change_action / change_action_and_state: re-enters Control< Rule >::match with the new family
         // up to two states live in one invocation: the one of an action-based switch (outer) and the one of a state<> rule (inner)
         struct carried { int serial = -1; int outer_expected = 0; int successes = 0; const char* success_cursor = nullptr; int success_outer = -3; bool dtor = false; bool rule_based = false; };
         carried cs[ 2 ];
         int ncs = 0;
         int expect_cs = 0;
         bool action_state = false;   // kind is change_state / change_states / change_action_and_state
         bool rule_state = false;     // rule_t is internal::state
         bool kids_open() const { return false; }   // the innermost frame has no open nested invocation by construction
      };

      struct aev { int vid; int kind; int fam; std::size_t b, e; bool has_input; int state; };
      struct sev { int what; int type; int serial; std::size_t cursor; int outer; std::size_t depth; };
      struct scope { int type; int serial; std::size_t b, e; int outer_serial; bool succeeded; };

      struct run_state
      {
         const grammar* g = nullptr;
         const config* cfg = nullptr;
         const char* base = nullptr;
         const char* end = nullptr;
         std::string_view text;
         char eolch = '\n';
         bool lazy = false;
         const void* top_input = nullptr;
         std::vector< frame > frames;
         std::vector< aev > alog;      // transactional
         std::vector< aev > rawlog;    // every invocation, never truncated
         long raw_actions = 0;
         std::vector< scope > scopes;  // transactional list of state scopes
         bool pos_reported = false;   // a position discrepancy was already reported in this run
         std::vector< int > live_states;   // serials of the state objects alive, innermost last (0 = the top-level state)
         std::vector< sev > slog;
         std::vector< pending > viols;
         long steps = 0;
         long step_limit = 0;
         int depth_limit = 0;
         bool fuel_out = false;
         long bumps = 0;
         const char* furthest = nullptr;
         // last failed invocation (for the position of a raise)
         std::string_view lf_name;
         const char* lf_begin = nullptr;
         const char* lf_furthest = nullptr;
         // last raise
         bool raised = false;
         std::string_view r_name;
         int r_vid = -1;
         snap r_pos;
         const char* r_lo = nullptr;
         const char* r_hi = nullptr;
         bool r_nested = false;
         int thrown_serial = -1;
         int thrown_kind = 0;
         int serials = 0;
         int state_serials = 0;
         // action hook handshake
         const char* hook_cursor = nullptr;
         bool in_failure_hook = false;
         long hooks = 0;
         long window_violations = 0;
      };

      run_state R;

      // coverage
      std::unordered_map< std::string, long > g_cells;
      void cell( const std::string& c, long n = 1 ) { g_cells[ c ] += n; }

      void viol( const char* prop, const std::string& key, const std::string& what )
      {
         for( const auto& p : R.viols )
            if( p.key == key ) return;
         if( R.viols.size() < 16 ) R.viols.push_back( { prop, key, what } );
      }

      ref::pos3 expected_pos( const char* p )
      {
         return ref::position_of( R.text, std::size_t( p - R.base ), R.eolch );
      }

      std::string where_rule()
      {
         // innermost visible (registered or public) rule template on the stack, for keys
         for( std::size_t i = R.frames.size(); i-- > 0; ) {
            const std::string t = tmpl( R.frames[ i ].name );
            if( t.rfind( "internal::", 0 ) != 0 ) {
               if( t == "named" ) return "named:" + tmpl( R.frames[ i ].rtname );
               return t;
            }
         }
         return "top";
      }

      bool inside_subinput() { return !R.frames.empty() && R.frames.back().input != R.top_input; }

      bool g_leaving_subinput = false;   // set while on_leave checks the exit position of a frame that ran on a sub-input

      void check_pos( const snap& s, const char* where, std::string_view rule )
      {
         if( s.p < R.base || s.p > R.end ) {
            viol( "C03", "C03|cursor-outside-input|" + tmpl( rule ), std::string( where ) + " of " + std::string( rule ) + ": cursor at offset " + std::to_string( s.p - R.base ) + " outside [0," + std::to_string( R.end - R.base ) + "]" );
            return;
         }
         const ref::pos3 x = expected_pos( s.p );
         bool bad = ( s.byte != x.byte ) || ( s.has_lc && ( s.line != x.line || s.column != x.column ) );
         if( bad ) {
            // a wrong counter stays wrong for everything that follows (and changes shape at every later line ending): only the
            // first discrepancy of a run is reported, so that the key names the rule that introduced it
            if( R.pos_reported ) bad = false;
            else R.pos_reported = true;
         }
         if( bad ) {
            std::string cls = R.lazy ? "lazy" : "eager";
            const bool sub = inside_subinput() || g_leaving_subinput;
            if( sub ) cls += "|rematch-subinput";
            char b[ 200 ];
            std::snprintf( b, sizeof b, "%s of %.*s: position (byte %zu line %zu col %zu) but the consumed prefix of %zu bytes gives (byte %zu line %zu col %zu)", where, int( std::min< std::size_t >( rule.size(), 60 ) ), rule.data(), s.byte, s.line, s.column, std::size_t( s.p - R.base ), x.byte, x.line, x.column );
            // one key for the whole class "lazy tracking inside a rematch sub-input"; otherwise the rule is part of the call site
            const std::string intro = ( std::strcmp( where, "exit" ) == 0 ) ? tmpl( rule ) : where_rule();
            viol( "C06", "C06|position-mismatch|" + cls + ( ( sub && R.lazy ) ? std::string() : "|" + intro ), b );
         }
      }

      int kind_of_vid( int vid, bool famb = false )
      {
         if( !R.g || vid < 0 || R.cfg->plain ) return 0;
         const signed char* t = famb ? R.g->akinds_b : R.g->akinds;
         return t ? t[ vid ] : 0;
      }

      bool is_state_rule( std::string_view rtname ) { return rtname.rfind( "tao::pegtl::internal::state<", 0 ) == 0; }

   }  // namespace

   // ------------------------------------------------------------------ hooks from the real run
   void on_enter( std::string_view name, std::string_view rtname, int vid, unsigned flags, const void* input, const snap& s, const char* in_end )
   {
      ++R.steps;
      if( R.steps > R.step_limit || int( R.frames.size() ) > R.depth_limit ) R.fuel_out = true;
      if( R.fuel_out ) throw fuel_exc{};
      if( R.frames.empty() ) R.top_input = input;
      else ++R.frames.back().kids;
      frame f;
      f.name = name;
      f.rtname = rtname;
      f.vid = vid;
      f.flags = flags;
      f.input = input;
      f.a = s;
      f.in_end = in_end;
      f.amark = R.alog.size();
      f.smark = R.scopes.size();
      f.bumps = R.bumps;
      f.furthest_saved = R.furthest;
      R.furthest = s.p;
      f.kind = kind_of_vid( vid, ( flags & F_AFAM_B ) != 0 );
      if( !R.frames.empty() && R.frames.back().delegating && R.frames.back().vid == vid ) {
         // second entry of the same rule with the new action family: its own kind comes from family B (flag says so already)
      }
      if( f.kind == ref::A_ENABLE_ACTION ) f.flags |= ( F_ACT | F_ENABLE_RULE );
      if( f.kind == ref::A_DISABLE_ACTION ) { f.flags &= ~unsigned( F_ACT ); f.flags |= F_DISABLE_RULE; }
      if( f.kind == ref::A_CHANGE_CONTROL ) f.flags |= F_CFAM_B;
      f.delegating = ( f.kind == ref::A_CHANGE_ACTION || f.kind == ref::A_CHANGE_ACTION_AND_STATE );
      f.rule_state = is_state_rule( rtname ) && !f.delegating;   // a delegating invocation runs the rule itself in the nested invocation
      f.action_state = ( f.kind == ref::A_CHANGE_STATE || f.kind == ref::A_CHANGE_STATES || f.kind == ref::A_CHANGE_ACTION_AND_STATE );
      f.expect_cs = ( f.rule_state ? 1 : 0 ) + ( f.action_state ? 1 : 0 );
      // a narrower window (rematch sub-input, byte limit): poison what lies beyond it
      if( in_end && in_end < R.end && in_end >= R.base ) {
         const frame* parent = R.frames.empty() ? nullptr : &R.frames.back();
         if( !parent || parent->in_end != in_end ) {
            f.poisoned = true;
            f.poison_from = in_end;
            f.poison_len = std::size_t( R.end - in_end );
            VERIF_POISON( f.poison_from, f.poison_len );
         }
      }
      R.frames.push_back( f );
      check_pos( s, "entry", name );
   }

   void on_leave( const snap& b, int result ) noexcept
   {
      if( R.frames.empty() ) return;
      frame f = R.frames.back();
      R.frames.pop_back();
      if( f.poisoned ) VERIF_UNPOISON( f.poison_from, f.poison_len );
      const char* fur = std::max( R.furthest, b.p );
      R.furthest = f.furthest_saved ? std::max( f.furthest_saved, fur ) : fur;
      if( R.fuel_out ) return;
      const bool enabled = ( f.flags & F_ENABLED ) != 0;
      const std::string t = tmpl( f.rtname );
      // ---- C08: closing hook must match the outcome (not in tree mode: parse_tree's control keeps hooks of unselected rules to itself)
      if( R.cfg->tree ) {
      }
      else if( f.delegating ) {
         if( f.started || f.closed != -1 ) viol( "C08", "C08|hooks-on-delegating-invocation|" + t, "hooks were called on the outer invocation of " + std::string( f.name ) + " although its action re-enters the rule with another action family" );
      }
      else if( enabled ) {
         if( !f.started ) viol( "C08", "C08|no-start|" + t, "invocation of " + std::string( f.name ) + " ended without a start hook" );
         int expect = result == 1 ? 1 : result == 0 ? 2 : ( ( f.flags & F_HAS_UNWIND ) ? 3 : -1 );
         // must_if: the failure hook itself raised -- the attempt was closed by `failure`, the exception leaves afterwards
         if( result == 2 && f.raised_from_failure_hook && ( f.flags & F_MUSTIF ) && f.closed == 2 ) expect = 2;
         if( f.closed != expect ) {
            static const char* hn[] = { "none", "start", "success", "failure", "unwind" };
            const char* on = result == 1 ? "true" : result == 0 ? "false" : "exception";
            viol( "C08", std::string( "C08|close-mismatch|outcome=" ) + on + "|hook=" + hn[ f.closed + 1 ] + ( f.raised_from_failure_hook ? "|raised-from-failure-hook" : "" ), "invocation of " + std::string( f.name ) + " ended with outcome " + on + " but its closing hook was " + hn[ f.closed + 1 ] );
         }
      }
      else if( f.started || f.closed != -1 ) {
         viol( "C08", "C08|hook-on-disabled-control|" + t, "hooks were called for " + std::string( f.name ) + " whose control is disabled" );
      }
      // ---- C13: state scope discipline of the invocation that carries a state
      if( f.expect_cs && !R.cfg->plain ) {
         if( f.ncs != f.expect_cs ) viol( "C13", "C13|state-not-created", std::to_string( f.ncs ) + " state objects were created for " + std::string( f.name ) + ", expected " + std::to_string( f.expect_cs ) );
         for( int i = 0; i < f.ncs && i < 2; ++i ) {
            const frame::carried& c = f.cs[ i ];
            const bool expect_success = ( result == 1 ) && ( c.rule_based || ( f.flags & F_ACT ) );
            const std::string cls = c.rule_based ? "state-rule" : ( f.kind == ref::A_CHANGE_STATE ? "change_state" : f.kind == ref::A_CHANGE_STATES ? "change_states" : "change_action_and_state" );
            if( !c.dtor ) viol( "C13", "C13|state-outlives-rule|" + cls, "the state of " + std::string( f.name ) + " was not destroyed before the rule's invocation ended" );
            if( expect_success && c.successes != 1 ) viol( "C13", "C13|success-not-delivered-once|" + cls, "success() delivered " + std::to_string( c.successes ) + " times for a matching " + std::string( f.name ) );
            if( !expect_success && c.successes != 0 ) viol( "C13", std::string( "C13|success-delivered-without-match|" ) + cls + ( result == 1 ? "|actions-disabled" : result == 0 ? "|local-failure" : "|exception" ), "success() delivered for " + std::string( f.name ) + " although the attempt did not match with actions enabled" );
            if( c.successes == 1 && result == 1 ) {
               if( c.success_cursor != b.p ) viol( "C13", "C13|success-cursor|" + cls, "success() of " + std::string( f.name ) + " saw the cursor at " + std::to_string( c.success_cursor - R.base ) + " but the match ended at " + std::to_string( b.p - R.base ) );
               if( !( !c.rule_based && f.kind == ref::A_CHANGE_STATES ) && c.success_outer != c.outer_expected ) viol( "C13", "C13|success-outer-state|" + cls, "success() of " + std::string( f.name ) + " received outer state #" + std::to_string( c.success_outer ) + ", expected #" + std::to_string( c.outer_expected ) );
            }
         }
      }
      // ---- transactional logs
      if( result != 1 ) {
         R.alog.resize( std::min( R.alog.size(), f.amark ) );
         R.scopes.resize( std::min( R.scopes.size(), f.smark ) );
         R.lf_name = f.name;
         R.lf_begin = f.a.p;
         R.lf_furthest = fur;
      }
      g_leaving_subinput = ( f.input != R.top_input );
      if( result != 2 ) check_pos( b, "exit", f.name );
      g_leaving_subinput = false;
      // ---- C02: cursor discipline
      const bool moved = ( f.a.p != b.p || f.a.byte != b.byte || ( f.a.has_lc && b.has_lc && ( f.a.line != b.line || f.a.column != b.column ) ) );
      const bool moved_inside = ( R.bumps != f.bumps );
      const char* m = ( f.flags & F_REQUIRED ) ? "required" : "optional";
      const char* a = ( f.flags & F_ACT ) ? "action" : "nothing";
      const bool has_action = f.kind >= ref::A_APPLY && f.kind <= ref::A_THROW_ALIEN && ( f.flags & F_ACT );
      if( result == 0 ) {
         cell( std::string( "inv:" ) + t + ":" + m + ":fail" + ( moved_inside ? ":moved-inside" : "" ) + ( has_action ? ":with-action" : "" ) );
         if( ( f.flags & F_REQUIRED ) && moved ) {
            char w[ 240 ];
            std::snprintf( w, sizeof w, "%.*s failed locally under rewind_mode::required but left the cursor at offset %td (started at %td)%s", int( std::min< std::size_t >( f.name.size(), 100 ) ), f.name.data(), b.p - R.base, f.a.p - R.base, has_action ? " [action attached]" : " [no action attached]" );
            viol( "C02", "C02|fail-required-cursor-moved|" + t, w );
         }
         if( ( f.flags & F_TRY ) && ( f.flags & F_REQUIRED ) && moved ) viol( "C05", "C05|try_catch-local-failure-cursor-not-restored|" + t, std::string( f.name ) + " returned false under rewind_mode::required (converted exception or failed rule) with the cursor moved" );
         if( f.vetoed && f.closed == 1 ) viol( "C04", "C04|veto-reported-as-success|" + t, "action of " + std::string( f.name ) + " returned false (local failure) but the control was told success()" );
         if( f.vetoed && moved ) viol( "C04", "C04|veto-cursor-not-restored|" + t, "action of " + std::string( f.name ) + " returned false but the cursor was not restored to the start of the match" );
      }
      else if( result == 1 ) {
         cell( std::string( "inv:" ) + t + ":" + m + ":ok" );
         if( b.p < f.a.p ) viol( "C02", "C02|success-cursor-backwards|" + t, std::string( f.name ) + " succeeded with the cursor before where it started" );
         if( f.vetoed ) viol( "C04", "C04|veto-ignored|" + t, "action of " + std::string( f.name ) + " returned false but the invocation succeeded" );
      }
      else {
         cell( std::string( "inv:" ) + t + ":" + m + ":exception" );
      }
      (void)a;
      if( ( f.flags & F_LOOKAHEAD ) && result != 2 && moved ) viol( "C02", "C02|lookahead-moved-cursor|" + t, std::string( f.name ) + " (look-ahead) moved the cursor" );
   }

   void on_hook( int kind, std::string_view name, const snap& pos, int cfam ) noexcept
   {
      ++R.hooks;
      if( R.fuel_out ) return;
      static const char* hn[] = { "start", "success", "failure", "unwind", "apply", "apply0", "raise", "raise_nested" };
      if( R.frames.empty() ) { viol( "C08", std::string( "C08|hook-outside-invocation|" ) + hn[ kind ], std::string( hn[ kind ] ) + " hook for " + std::string( name ) + " outside any invocation" ); return; }
      frame& f = R.frames.back();
      const std::string t = tmpl( f.rtname );
      if( f.name != name && R.cfg->tree ) return;
      if( f.name != name ) { viol( "C08", std::string( "C08|hook-wrong-frame|" ) + hn[ kind ], std::string( hn[ kind ] ) + " hook for " + std::string( name ) + " while the innermost running invocation is " + std::string( f.name ) ); return; }
      if( ( ( f.flags & F_CFAM_B ) != 0 ) != ( cfam != 0 ) ) viol( "C13", "C13|control-family-mismatch", "hook family differs from the invocation's control family for " + std::string( name ) );
      if( kind != 3 ) check_pos( pos, hn[ kind ], name );
      cell( std::string( "hook:" ) + hn[ kind ] );
      switch( kind ) {
         case 0:
            if( f.started ) viol( "C08", "C08|double-start|" + t, "second start hook for " + std::string( name ) );
            if( f.kids ) viol( "C08", "C08|start-after-children|" + t, "start hook for " + std::string( name ) + " after nested invocations began" );
            if( pos.p != f.a.p ) viol( "C08", "C08|start-cursor|" + t, "start hook for " + std::string( name ) + " not at the invocation's entry cursor" );
            f.started = 1;
            break;
         case 1: case 2: case 3:
            if( kind == 2 && ( f.flags & F_MUSTIF ) && R.g->mif && f.vid >= 0 && R.g->mif[ f.vid ] ) {
               // must_if: this failure hook is about to raise the rule's message
               R.raised = true;
               R.r_name = name;
               R.r_vid = f.vid;
               R.r_pos = pos;
               R.r_lo = f.a.p;
               R.r_hi = std::max( R.furthest, pos.p );
               f.raised_from_failure_hook = true;
               cell( "hook:must_if-raise" );
            }
            if( !f.started ) viol( "C08", "C08|close-without-start|" + t, std::string( hn[ kind ] ) + " hook for " + std::string( name ) + " without start" );
            if( f.closed != -1 ) viol( "C08", "C08|double-close|" + t, "second closing hook (" + std::string( hn[ kind ] ) + ") for " + std::string( name ) );
            f.closed = kind;
            break;
         case 4: case 5:
            if( !f.started || f.closed != -1 ) viol( "C08", "C08|apply-order|" + t, std::string( hn[ kind ] ) + " hook for " + std::string( name ) + " outside start..close" );
            if( f.applied ) viol( "C08", "C08|double-apply|" + t, "second apply hook for " + std::string( name ) );
            f.applied = 1;
            f.kids_at_apply = f.kids;
            R.hook_cursor = pos.p;
            break;
         default: break;
      }
   }

   void on_raise( std::string_view name, int vid, const snap& pos ) noexcept
   {
      if( R.fuel_out ) return;
      cell( "hook:raise" );
      R.raised = true;
      R.r_name = name;
      R.r_vid = vid;
      R.r_pos = pos;
      if( !R.frames.empty() ) check_pos( pos, "raise", name );
      // context: must-like rule running, or the rule's own failure hook (must_if)
      if( R.frames.empty() ) { viol( "C08", "C08|raise-outside-invocation", "raise hook for " + std::string( name ) + " outside any invocation" ); return; }
      frame& f = R.frames.back();
      if( f.flags & F_MUSTLIKE ) {
         // must< R >: R's attempt just failed; raise< T >: no attempt
         if( R.lf_name == name && R.lf_begin ) { R.r_lo = R.lf_begin; R.r_hi = R.lf_furthest; }
         else { R.r_lo = pos.p; R.r_hi = pos.p; }
      }
      else if( f.name == name && f.started && f.closed == 2 ) {
         f.raised_from_failure_hook = true;
         R.r_lo = f.a.p;
         R.r_hi = std::max( R.furthest, pos.p );
      }
      else {
         viol( "C08", "C08|raise-outside-must-context|" + tmpl( f.rtname ), "raise hook for " + std::string( name ) + " while the innermost running invocation is " + std::string( f.name ) );
         R.r_lo = pos.p;
         R.r_hi = pos.p;
      }
      if( pos.p < R.r_lo || pos.p > R.r_hi ) viol( "C05", "C05|raise-position-outside-attempt|" + tmpl( f.rtname ), "raise for " + std::string( name ) + " at offset " + std::to_string( pos.p - R.base ) + " outside the failed attempt [" + std::to_string( R.r_lo - R.base ) + "," + std::to_string( R.r_hi - R.base ) + "]" );
   }

   void on_raise_nested( std::string_view name, int vid, std::size_t byte, std::size_t line, std::size_t column ) noexcept
   {
      if( R.fuel_out ) return;
      cell( "hook:raise_nested" );
      R.raised = true;
      R.r_name = name;
      R.r_vid = vid;
      R.r_pos = snap{ nullptr, byte, line, column, true };
      R.r_nested = true;
      if( R.frames.empty() || !( R.frames.back().flags & F_TRY ) ) {
         viol( "C08", "C08|raise_nested-outside-try_catch", "raise_nested for " + std::string( name ) + " while the innermost running invocation is " + ( R.frames.empty() ? std::string( "none" ) : std::string( R.frames.back().name ) ) );
         return;
      }
      const frame& f = R.frames.back();
      // the outer error of *_raise_nested must sit at the start of the guarded rule
      if( byte != f.a.byte || ( f.a.has_lc && ( line != f.a.line || column != f.a.column ) ) )
         viol( "C05", "C05|raise_nested-position|" + tmpl( f.rtname ), "nested parse_error for " + std::string( name ) + " at byte " + std::to_string( byte ) + " but the guarded rule started at byte " + std::to_string( f.a.byte ) );
   }

   bool on_action( int vid, int kind, int fam, const char* b, const char* e, bool has_input, std::size_t pbyte, std::size_t pline, std::size_t pcol, int state_serial )
   {
      ++R.raw_actions;
      cell( std::string( "action:" ) + ( kind == ref::A_APPLY ? "apply" : kind == ref::A_APPLY0 ? "apply0" : kind == ref::A_VETO ? "veto" : kind == ref::A_VETO0 ? "veto0" : "throw" ) );
      std::size_t ob = 0, oe = 0;
      if( R.frames.empty() ) {
         viol( "C04", "C04|action-outside-invocation", "action for " + std::string( vname( vid ) ) + " outside any invocation" );
      }
      else {
         frame& f = R.frames.back();
         const std::string t = tmpl( f.rtname );
         if( f.vid != vid ) viol( "C04", "C04|action-wrong-rule|" + t, "action of " + std::string( vname( vid ) ) + " invoked while the innermost running invocation is " + std::string( f.name ) );
         if( ( !f.applied || f.closed != -1 ) && !R.cfg->tree ) viol( "C08", "C08|action-without-apply-hook|" + t, "action of " + std::string( vname( vid ) ) + " invoked without the control's apply hook in start..close" );
         if( f.kids != f.kids_at_apply ) viol( "C08", "C08|apply-before-children-closed|" + t, "apply hook ran before the last nested invocation" );
         if( !( f.flags & F_ACT ) ) viol( "C04", "C04|action-while-disabled|" + t, "action of " + std::string( vname( vid ) ) + " invoked although its invocation runs with apply_mode::nothing" );
         // enclosing look-ahead without an explicit enable in between
         for( std::size_t i = R.frames.size() - 1; i-- > 0; ) {
            // the outer half of a delegating invocation (change_action*) is the same rule attempt as the frame inside it
            if( R.frames[ i ].delegating && R.frames[ i ].vid == R.frames[ i + 1 ].vid ) continue;
            if( R.frames[ i ].flags & F_ENABLE_RULE ) break;
            if( R.frames[ i ].flags & ( F_LOOKAHEAD | F_DISABLE_RULE ) ) { viol( "C04", "C04|action-inside-lookahead-or-disable|" + tmpl( R.frames[ i ].rtname ), "action of " + std::string( vname( vid ) ) + " invoked inside " + std::string( R.frames[ i ].name ) ); break; }
         }
         const int live = R.live_states.empty() ? 0 : R.live_states.back();
         if( state_serial != live ) viol( "C13", "C13|action-received-wrong-state", "action of " + std::string( vname( vid ) ) + " received state #" + std::to_string( state_serial ) + " but the innermost live state is #" + std::to_string( live ) );
         if( ( ( f.flags & F_AFAM_B ) != 0 ) != ( fam != 0 ) ) viol( "C13", "C13|action-family-mismatch", "action of " + std::string( vname( vid ) ) + " comes from family " + std::to_string( fam ) + " but its invocation runs with the other action family" );
         const char* cursor = R.hook_cursor;
         if( has_input ) {
            if( b != f.a.p ) viol( "C04", "C04|span-begin|" + t, "action input of " + std::string( vname( vid ) ) + " begins at offset " + std::to_string( b - R.base ) + " but the match started at " + std::to_string( f.a.p - R.base ) );
            if( e != cursor ) viol( "C04", "C04|span-end|" + t, "action input of " + std::string( vname( vid ) ) + " ends at offset " + std::to_string( e - R.base ) + " but the cursor is at " + std::to_string( cursor - R.base ) );
            if( b >= R.base && b <= R.end ) {
               const ref::pos3 x = expected_pos( b );
               if( ( pbyte != x.byte || pline != x.line || pcol != x.column ) && !R.pos_reported ) {
                  R.pos_reported = true;
                  std::string cls = R.lazy ? "lazy" : "eager";
                  if( inside_subinput() ) cls += "|rematch-subinput";
                  viol( "C06", "C06|action-position|" + cls + ( ( inside_subinput() && R.lazy ) ? std::string() : "|" + where_rule() ), "action_input::position() of " + std::string( vname( vid ) ) + " is (" + std::to_string( pbyte ) + "," + std::to_string( pline ) + "," + std::to_string( pcol ) + ") but the prefix gives (" + std::to_string( x.byte ) + "," + std::to_string( x.line ) + "," + std::to_string( x.column ) + ")" );
               }
            }
            ob = std::size_t( b - R.base );
            oe = std::size_t( e - R.base );
         }
         else {
            ob = std::size_t( f.a.p - R.base );
            oe = std::size_t( ( cursor ? cursor : f.a.p ) - R.base );
         }
         if( R.rawlog.size() < 200000 ) R.rawlog.push_back( { vid, kind, fam, ob, oe, has_input, state_serial } );
         if( kind == ref::A_VETO || kind == ref::A_VETO0 ) {
            if( ref::veto_pred( vid, ob, oe, R.g->salt ) ) { f.vetoed = true; cell( "action:vetoed" ); return false; }
         }
         if( kind == ref::A_THROW || kind == ref::A_THROW_ALIEN ) {
            if( ref::throw_pred( vid, ob, oe, R.g->salt ) ) {
               R.thrown_serial = ++R.serials;
               R.thrown_kind = ( kind == ref::A_THROW ) ? ref::X_STD : ref::X_ALIEN;
               cell( "action:threw" );
               if( kind == ref::A_THROW ) throw foreign( R.thrown_serial );
               throw alien{ R.thrown_serial };
            }
         }
      }
      R.alog.push_back( { vid, kind, fam, ob, oe, has_input, state_serial } );
      return true;
   }



   void on_class_action( int id, const char* b, const char* e, int state_serial )
   {
      ++R.raw_actions;
      cell( "action:class" );
      const char* cur = R.frames.empty() ? R.base : nullptr;
      (void)cur;
      std::size_t ob = 0, oe = 0;
      if( b ) { ob = std::size_t( b - R.base ); oe = std::size_t( e - R.base ); }
      else if( !R.frames.empty() ) { ob = oe = std::size_t( R.frames.back().a.p - R.base ); }
      R.alog.push_back( { -1000 - id, 0, 0, ob, oe, b != nullptr, state_serial } );
   }

   bool on_class_action_veto( int id, const char* b, const char* e, int state_serial )
   {
      std::size_t ob = 0, oe = 0;
      if( b ) { ob = std::size_t( b - R.base ); oe = std::size_t( e - R.base ); }
      else if( !R.frames.empty() ) { ob = oe = std::size_t( R.frames.back().a.p - R.base ); }
      if( ref::veto_pred( 1000 + id, ob, oe, R.g->salt ) ) { ++R.raw_actions; cell( "action:class-vetoed" ); return false; }
      on_class_action( id, b, e, state_serial );
      return true;
   }

   int next_state_serial() noexcept { return ++R.state_serials; }

   void on_coverage_counters( std::string_view rule, std::string_view branch, std::size_t start, std::size_t success, std::size_t failure, std::size_t unwind )
   {
      cell( branch.empty() ? "coverage:rule-entries" : "coverage:branch-entries" );
      if( start ) cell( "coverage:entries-with-attempts" );
      if( unwind ) cell( "coverage:entries-with-unwind" );
      if( R.fuel_out ) return;
      if( start != success + failure + unwind ) {
         viol( "C08", std::string( "C08|coverage-counters-unbalanced|" ) + ( branch.empty() ? "rule" : "branch" ), "coverage counters of " + std::string( rule ) + ( branch.empty() ? std::string() : " / branch " + std::string( branch ) ) + ": start=" + std::to_string( start ) + " success=" + std::to_string( success ) + " failure=" + std::to_string( failure ) + " unwind=" + std::to_string( unwind ) );
      }
   }

   namespace
   {
      std::vector< bact > g_blog;
   }
   void on_buf_action( int vid, int kind, std::size_t byte, std::size_t size, std::size_t line, std::size_t column )
   {
      if( g_blog.size() < 100000 ) g_blog.push_back( { vid, kind, byte, size, line, column } );
   }
   bool on_buf_veto( int vid, std::size_t byte, std::size_t size ) { return ref::veto_pred( vid, byte, byte + size, R.g ? R.g->salt : 0 ); }

   void on_state( int what, int type, int serial, const char* cursor, int outer_serial ) noexcept
   {
      cell( what == 0 ? "state:ctor" : what == 1 ? "state:success" : "state:dtor" );
      if( R.fuel_out ) return;
      if( R.frames.empty() ) { viol( "C13", "C13|state-event-outside-invocation", "state event outside any invocation" ); return; }
      frame& f = R.frames.back();
      const std::string t = tmpl( f.rtname );
      if( what == 0 ) {
         if( f.ncs >= f.expect_cs ) { viol( "C13", "C13|unexpected-state-object|" + t, "state st<" + std::to_string( type ) + "> created while the innermost running invocation is " + std::string( f.name ) + " which carries " + std::to_string( f.expect_cs ) + " state(s)" ); R.live_states.push_back( serial ); return; }
         frame::carried& c = f.cs[ f.ncs ];
         c.rule_based = ( f.ncs == f.expect_cs - 1 ) && f.rule_state;   // the action-based state (if any) comes first
         ++f.ncs;
         c.serial = serial;
         c.outer_expected = R.live_states.empty() ? 0 : R.live_states.back();
         if( f.kids != 0 ) viol( "C13", "C13|state-created-after-nested-rules|" + t, "state created after nested invocations of " + std::string( f.name ) + " began" );
         if( cursor && cursor != f.a.p ) viol( "C13", "C13|state-ctor-cursor|" + t, "state constructor saw the cursor at " + std::to_string( cursor - R.base ) + " but the rule started at " + std::to_string( f.a.p - R.base ) );
         if( outer_serial != -2 && outer_serial != c.outer_expected ) viol( "C13", "C13|state-ctor-outer-state|" + t, "state constructor received outer state #" + std::to_string( outer_serial ) + ", expected #" + std::to_string( c.outer_expected ) );
         R.live_states.push_back( serial );
         R.scopes.push_back( { type, serial, std::size_t( f.a.p - R.base ), std::size_t( -1 ), c.outer_expected, false } );
         return;
      }
      frame::carried* c = nullptr;
      for( int i = 0; i < f.ncs && i < 2; ++i )
         if( f.cs[ i ].serial == serial ) c = &f.cs[ i ];
      if( what == 1 ) {
         if( !c ) { viol( "C13", "C13|success-for-foreign-state|" + t, "success() of state #" + std::to_string( serial ) + " while the innermost running invocation is " + std::string( f.name ) ); return; }
         if( f.kids_open() ) viol( "C13", "C13|success-before-nested-rules-closed|" + t, "success() while nested invocations are open" );
         ++c->successes;
         c->success_cursor = cursor;
         c->success_outer = outer_serial;
         for( std::size_t i = R.scopes.size(); i-- > 0; )
            if( R.scopes[ i ].serial == serial ) { R.scopes[ i ].e = cursor ? std::size_t( cursor - R.base ) : 0; R.scopes[ i ].succeeded = true; break; }
      }
      else {
         if( !c ) viol( "C13", "C13|state-destroyed-outside-its-rule|" + t, "state #" + std::to_string( serial ) + " destroyed while the innermost running invocation is " + std::string( f.name ) );
         else c->dtor = true;
         if( R.live_states.empty() || R.live_states.back() != serial ) viol( "C13", "C13|state-destruction-order", "state #" + std::to_string( serial ) + " destroyed while it is not the innermost live state" );
         else R.live_states.pop_back();
      }
   }

   namespace
   {
      void inspect( const std::exception_ptr& p, runres& rs, int depth ) noexcept
      {
         try {
            std::rethrow_exception( p );
         }
         catch( const fuel_exc& ) {
            if( depth == 0 ) rs.st = 3;
            rs.inner_kind = -2;
         }
         catch( const pegtl::parse_error& e ) {
            if( depth == 0 ) {
               rs.st = 2;
               rs.msg = std::string( e.message() );
               rs.what = e.what();
               rs.ebyte = e.position_object().byte;
               rs.eline = e.position_object().line;
               rs.ecol = e.position_object().column;
            }
            rs.inner_kind = ref::X_PARSE_ERROR;
            rs.inner_msg = std::string( e.message() );
            rs.nested_depth = depth;
            const auto* ne = dynamic_cast< const std::nested_exception* >( &e );
            if( ne && ne->nested_ptr() && depth < 64 ) inspect( ne->nested_ptr(), rs, depth + 1 );
         }
         catch( const foreign& f ) {
            if( depth == 0 ) { rs.st = 4; rs.serial = f.serial; }
            rs.inner_kind = ref::X_STD;
            rs.inner_serial = f.serial;
            rs.nested_depth = depth;
         }
         catch( const alien& a ) {
            if( depth == 0 ) { rs.st = 5; rs.serial = a.serial; }
            rs.inner_kind = ref::X_ALIEN;
            rs.inner_serial = a.serial;
            rs.nested_depth = depth;
         }
         catch( const std::overflow_error& e ) {
            if( depth == 0 ) { rs.st = 8; rs.what = e.what(); }
            rs.inner_kind = -1;
         }
         catch( const std::exception& e ) {
            if( depth == 0 ) { rs.st = 6; rs.what = e.what(); }
            rs.inner_kind = -1;
         }
         catch( ... ) {
            if( depth == 0 ) rs.st = 7;
            rs.inner_kind = -1;
         }
      }
   }  // namespace

   void classify_current_exception( runres& rs ) noexcept
   {
      inspect( std::current_exception(), rs, 0 );
   }

   void set_registry( const reginfo* regs, std::size_t n, const char* const* custom )
   {
      for( std::size_t i = 0; i < n; ++i ) {
         if( std::size_t( regs[ i ].vid ) >= g_names.size() ) { g_names.resize( std::size_t( regs[ i ].vid ) + 1 ); g_custom.resize( g_names.size(), nullptr ); }
         g_names[ std::size_t( regs[ i ].vid ) ] = regs[ i ].name;
         g_custom[ std::size_t( regs[ i ].vid ) ] = custom ? custom[ i ] : nullptr;
         g_by_name[ regs[ i ].name ] = regs[ i ].vid;
      }
   }

   namespace
   {
      // ---------------------------------------------------------------- main loop helpers
      void install_hooks()
      {
#if defined( TAO_PEGTL_VERIF )
         namespace vh = tao::pegtl::internal::verif;
         vh::hooks.window_violation = +[]( int op, const void* /*input*/, std::size_t request, std::size_t available ) {
            ++R.window_violations;
            static const char* ops[] = { "peek_char", "bump", "bump_in_this_line", "bump_to_next_line" };
            const std::string rule = R.frames.empty() ? std::string( "top" ) : tmpl( R.frames.back().rtname );
            viol( "C03", std::string( "C03|window|" ) + ops[ op & 3 ] + "|" + rule, std::string( ops[ op & 3 ] ) + "(" + std::to_string( request ) + ") with only " + std::to_string( available ) + " bytes available, inside " + ( R.frames.empty() ? std::string( "top" ) : std::string( R.frames.back().name ) ) );
         };
         vh::hooks.bump_observer = +[]( const void* /*input*/, std::size_t /*count*/ ) { ++R.bumps; };
#endif
      }

      std::string describe_events( const std::vector< ref::event >& evs, int type )
      {
         std::string s;
         int n = 0;
         for( const auto& e : evs ) {
            if( e.type != type ) continue;
            if( n++ > 12 ) { s += " ..."; break; }
            s += " " + tmpl( vname( e.vid ) ) + "[" + std::to_string( e.b ) + "," + std::to_string( e.e ) + ")";
         }
         return s;
      }

      struct input_enum
      {
         std::string alpha;
         std::size_t maxlen;
         std::size_t len = 0;
         std::vector< std::size_t > idx;
         bool done = false;
         bool next( std::string& out )
         {
            if( done ) return false;
            out.clear();
            for( std::size_t i : idx ) out.push_back( alpha[ i ] );
            // advance
            std::size_t k = 0;
            for( ; k < idx.size(); ++k ) {
               if( ++idx[ k ] < alpha.size() ) break;
               idx[ k ] = 0;
            }
            if( k == idx.size() ) {
               if( idx.size() >= maxlen ) done = true;
               else idx.assign( idx.size() + 1, 0 );
            }
            return true;
         }
      };

      std::size_t pick_len( std::size_t nalpha, std::size_t cap )
      {
         std::size_t total = 1, pw = 1, L = 0;
         while( L < 12 ) {
            pw *= nalpha;
            if( total + pw > cap ) break;
            total += pw;
            ++L;
         }
         return L;
      }

      void flush_viols( const std::string& input_full )
      {
         const std::string input = input_full.size() > 120 ? input_full.substr( 0, 100 ) + "...(" + std::to_string( input_full.size() ) + " bytes)" : input_full;
         for( const auto& p : R.viols ) {
            std::string rep = "{\"grammar\":\"" + verif::jesc( R.g->text ) + "\",\"gname\":\"" + R.g->name + "\",\"profile\":\"" + R.g->profile + "\",\"cell\":\"" + verif::jesc( R.g->cell ) + "\",\"config\":\"" + R.cfg->name + "\",\"variant\":" + std::to_string( R.cfg->variant ) + ",\"lazy\":" + ( R.cfg->lazy ? "true" : "false" ) + ",\"eol\":" + std::to_string( R.cfg->eolpol ) + ",\"input\":\"" + verif::jesc( verif::show( input ) ) + "\"}";
            V.violation( p.prop, p.key, p.what + "  [grammar " + R.g->text + "; input \"" + verif::show( input ) + "\"; config " + R.cfg->name + "/v" + std::to_string( R.cfg->variant ) + ( R.cfg->lazy ? "/lazy" : "/eager" ) + "/eol" + std::to_string( R.cfg->eolpol ) + "]", rep );
         }
         R.viols.clear();
      }

      std::string expected_message( int vid, const bool with_must_if = true )
      {
         if( with_must_if && R.cfg && R.cfg->mustif && R.g && R.g->mif && vid >= 0 && R.g->mif[ vid ] ) return R.g->mif[ vid ];
         if( vid >= 0 && std::size_t( vid ) < g_custom.size() && g_custom[ std::size_t( vid ) ] ) return g_custom[ std::size_t( vid ) ];
         return "parse error matching " + std::string( vname( vid ) );
      }

      // ---- reference tree: visible matches of the surviving derivation, filtered by the selector, transformers applied bottom-up
      struct rnode { int vid; std::size_t b, e; bool has_content; std::vector< rnode > kids; };

      // builds the children list of the virtual root from the pre-order E_VISIT events
      void build_ref_tree( const std::vector< ref::event >& evs, std::size_t& i, int depth, const signed char* sels, std::vector< rnode >& out )
      {
         while( i < evs.size() ) {
            const ref::event& e = evs[ i ];
            if( e.type != ref::E_VISIT ) { ++i; continue; }
            if( e.depth < depth ) return;
            ++i;
            const int sel = ( sels && e.vid >= 0 ) ? sels[ e.vid ] : 1;
            std::vector< rnode > kids;
            build_ref_tree( evs, i, e.depth + 1, sels, kids );
            if( sel == 0 ) {
               for( auto& k : kids ) out.push_back( std::move( k ) );
               continue;
            }
            rnode n{ e.vid, e.b, e.e, true, std::move( kids ) };
            if( sel == 2 ) n.has_content = false;
            else if( sel == 3 ) {
               if( n.kids.size() == 1 ) { rnode only = std::move( n.kids[ 0 ] ); out.push_back( std::move( only ) ); continue; }
               n.has_content = false;
            }
            else if( sel == 4 ) {
               if( n.kids.empty() ) continue;
               n.has_content = false;
            }
            out.push_back( std::move( n ) );
         }
      }

      struct flat { int vid; std::size_t b, e; int depth; bool has_content; };
      void flatten_ref( const std::vector< rnode >& ns, int depth, std::vector< flat >& out )
      {
         for( const auto& n : ns ) {
            out.push_back( { n.vid, n.b, n.e, depth, n.has_content } );
            flatten_ref( n.kids, depth + 1, out );
         }
      }

      void compare_tree( const grammar& g, const config& cfg, const std::string& input, const ref::interp& I, const ref::outcome& ro, const runres& rs, bool result_ok, const std::string& topt )
      {
         if( !result_ok ) return;
         if( ( ro.st == ref::OK ) != ( !rs.tree_null ) ) { viol( "C12", "C12|tree-iff-success|" + topt, std::string( "parse_tree::parse returned " ) + ( rs.tree_null ? "no tree" : "a tree" ) + " but the plain parse " + ( ro.st == ref::OK ? "succeeds" : "does not succeed" ) ); return; }
         if( ro.st != ref::OK ) { cell( "tree:none-expected" ); return; }
         std::vector< rnode > roots;
         std::size_t i = 0;
         build_ref_tree( I.evs, i, 0, g.sels, roots );
         std::vector< flat > want;
         flatten_ref( roots, 0, want );
         cell( "tree:trees" );
         cell( "tree:nodes", long( want.size() ) );
         bool same = want.size() == rs.tree.size();
         std::string why;
         for( std::size_t k = 0; same && k < want.size(); ++k ) {
            const tnode& t = rs.tree[ k ];
            const auto it = g_by_name.find( t.type );
            const int vid = it == g_by_name.end() ? -1 : it->second;
            if( vid != want[ k ].vid || t.depth != want[ k ].depth || t.bo != want[ k ].b ) same = false;
            else if( t.has_content != want[ k ].has_content ) { same = false; why = "content kept/removed differs for " + tmpl( t.type ); }
            else if( t.has_content && t.eo != want[ k ].e ) same = false;
         }
         if( !same ) {
            std::string got, exp;
            int n = 0;
            for( const auto& t : rs.tree ) { if( n++ > 14 ) { got += " ..."; break; } got += " " + std::string( std::size_t( t.depth ), '>' ) + tmpl( t.type ) + "[" + std::to_string( t.bo ) + "," + ( t.has_content ? std::to_string( t.eo ) : std::string( "-" ) ) + ")"; }
            n = 0;
            for( const auto& t : want ) { if( n++ > 14 ) { exp += " ..."; break; } exp += " " + std::string( std::size_t( t.depth ), '>' ) + tmpl( vname( t.vid ) ) + "[" + std::to_string( t.b ) + "," + ( t.has_content ? std::to_string( t.e ) : std::string( "-" ) ) + ")"; }
            viol( "C12", "C12|tree-differs-from-derivation|" + topt, "tree:" + got + " ; reference derivation:" + exp + " " + why );
            return;
         }
         // node-level invariants: content inside the input, children contained in and ordered within the parent (outside look-ahead), positions
         std::vector< const tnode* > stack;
         for( const tnode& t : rs.tree ) {
            if( t.source_foreign ) { viol( "C12", "C12|node-source-refers-to-dead-sub-input", "node " + tmpl( t.type ) + " was created on a rematch sub-input: its source view points into that (destroyed) input object, so begin()/end() would read freed stack memory" ); continue; }
            if( t.has_content && !t.content_ok ) viol( "C12", "C12|node-content-outside-input|" + topt, "node " + tmpl( t.type ) + " has content pointers outside the input" );
            if( t.has_content ) {
               const ref::pos3 xb = ref::position_of( input, t.bo, R.eolch );
               const ref::pos3 xe = ref::position_of( input, t.eo, R.eolch );
               if( ( t.bbyte != xb.byte || t.bline != xb.line || t.bcol != xb.column || t.ebyte != xe.byte || t.eline != xe.line || t.ecol != xe.column ) && !R.pos_reported )
                  viol( "C06", std::string( "C06|tree-node-position|" ) + ( cfg.lazy ? "lazy" : "eager" ), "node " + tmpl( t.type ) + " reports begin (" + std::to_string( t.bbyte ) + "," + std::to_string( t.bline ) + "," + std::to_string( t.bcol ) + ") for byte offset " + std::to_string( t.bo ) );
            }
         }
      }

      // ---- C11: one (grammar, input) pair in the "ana" configuration. Returns 1 when the reference found a cycle without
      //      progress and the fuel-limited real run confirmed it, 2 when the reference found one that the real run did not confirm,
      //      3 when the reference terminates but the real run of a certified grammar exceeds a budget derived from the reference's effort.
      int run_cycle_case( const grammar& g, const config& cfg, const std::string& input, const bool certified )
      {
         ref::interp I;
         I.n = g.nodes;
         I.eolpol = cfg.eolpol;
         I.in = input;
         I.fuel = 200000;
         ref::ctx c0;
         const ref::outcome ro = I.ev( g.top, 0, input.size(), c0 );
         const bool ref_loop = I.loop || ro.st == ref::LOOP;
         // no cycle in the reference: the real run still has to terminate within a budget that is generous relative to what
         // the reference needed (only judged for grammars that analyze() certified)
         if( !ref_loop && !certified ) return 0;
         verif::guarded_buffer gb( input, 0 );
         R = run_state{};
         R.g = &g;
         R.cfg = &cfg;
         R.base = gb.begin();
         R.end = gb.end();
         R.text = std::string_view( input );
         R.eolch = ( cfg.eolpol == 1 || cfg.eolpol == 4 ) ? '\r' : '\n';
         R.step_limit = ref_loop ? 300000 : 2000 + I.steps * 60;
         R.depth_limit = ref_loop ? 250 : 100 + I.maxdepth * 8;
         runreq rq{ gb.begin(), gb.end(), 0 };
         runres rs;
         g.run( rq, rs );
         ++V.evaluations;
         R.viols.clear();   // protocol monitors are not judged on a run that was cut off
         if( !ref_loop ) return rs.st == 3 ? 3 : 0;
         return rs.st == 3 ? 1 : 2;
      }

      bool g_skip_lazy_class = false;
      bool has_position_rule( const grammar& g )
      {
         for( std::size_t i = 0; i < g.nn; ++i )
            if( g.nodes[ i ].k == ref::BOF || g.nodes[ i ].k == ref::BOL ) return true;
         return false;
      }

      // ---------------------------------------------------------------- C07: input classes, buffering, chunking
      struct obs { int st; std::size_t end_byte; std::string what; std::vector< bact > acts; };
      std::size_t g_need_all = 0;       // max over all require() calls of offset_in_buffer + amount
      bool g_need_unbounded = false;
      long g_buffer_reads = 0;
      bool g_poison_buffers = false;    // only for buffer_input< sched_reader >: library readers write through fread / istream::read

      obs observe( const grammar& g, const runreq& rq )
      {
         g_blog.clear();
         g_need_all = 0;
         g_need_unbounded = false;
         g_poison_buffers = ( rq.combo == 2 || rq.combo == 3 );
         runres rs;
         g.run( rq, rs );
         g_poison_buffers = false;
         ++V.evaluations;
         obs o;
         o.st = rs.st;
         o.end_byte = rs.st == 1 ? rs.end_byte : 0;
         o.what = rs.st == 2 ? rs.what : std::string();
         o.acts = g_blog;
         return o;
      }

      std::string describe_obs( const obs& o )
      {
         std::string s = "(result " + std::to_string( o.st ) + ", consumed " + std::to_string( o.end_byte ) + ", " + std::to_string( o.acts.size() ) + " action calls";
         if( !o.what.empty() ) s += ", error '" + o.what + "'";
         return s + ")";
      }

      bool same_obs( const obs& a, const obs& b, std::string& why )
      {
         if( a.st != b.st ) { why = "result"; return false; }
         if( a.end_byte != b.end_byte ) { why = "consumed"; return false; }
         if( a.what != b.what ) { why = "error-text"; return false; }
         if( a.acts.size() != b.acts.size() ) { why = "action-trace-length"; return false; }
         for( std::size_t i = 0; i < a.acts.size(); ++i ) {
            const bact &x = a.acts[ i ], &y = b.acts[ i ];
            if( x.vid != y.vid || x.byte != y.byte || x.size != y.size ) { why = "action-trace-span"; return false; }
            if( x.line != y.line || x.column != y.column ) { why = "action-trace-position"; return false; }
         }
         return true;
      }

      void install_buf_hooks()
      {
#if defined( TAO_PEGTL_VERIF )
         namespace vh = tao::pegtl::internal::verif;
         vh::hooks.buffer_require = +[]( const void*, std::size_t offset, std::size_t amount, std::size_t /*capacity*/, std::size_t /*occupied*/ ) {
            if( amount > ( std::size_t( 1 ) << 40 ) ) { g_need_unbounded = true; return; }
            g_need_all = std::max( g_need_all, offset + amount );
         };
         vh::hooks.buffer_window = +[]( const void*, const char* buffer, std::size_t capacity, const char* /*current*/, const char* end ) {
            // what the reader has not delivered yet must not be looked at
            if( !g_poison_buffers ) return;
            VERIF_UNPOISON( buffer, std::size_t( end - buffer ) );
            if( end < buffer + capacity ) VERIF_POISON( end, std::size_t( buffer + capacity - end ) );
         };
         vh::hooks.buffer_read = +[]( const void*, std::size_t, std::size_t ) { ++g_buffer_reads; };
#endif
      }

      std::string g_tmpdir;
      std::string tmp_path()
      {
         if( g_tmpdir.empty() ) {
            g_tmpdir = std::string( VERIF_TMP_ROOT ) + "/run." + std::to_string( ::getpid() );
            (void)::system( ( "mkdir -p " + g_tmpdir ).c_str() );
         }
         return g_tmpdir + "/in.bin";
      }

      void run_buf_case( const grammar& g, const config& cfg, const std::string& input, bool& nontrivial )
      {
         ref::interp I;
         I.n = g.nodes;
         I.eolpol = cfg.eolpol;
         I.in = input;
         // the vetoing attachments of this configuration change which parts of the grammar are reached: the reference that
         // decides "this pair loops without progress, skip it" has to evaluate them too (same predicate as on_buf_veto)
         std::vector< int > ak;
         if( g.akinds ) { ak.assign( g_names.size(), 0 ); for( std::size_t i = 0; i < ak.size(); ++i ) ak[ i ] = g.akinds[ i ]; I.akinds = ak.data(); }
         I.salt = g.salt;
         ref::ctx c0;
         const ref::outcome ro = I.ev( g.top, 0, input.size(), c0 );
         if( I.loop || ro.st == ref::LOOP ) { cell( "skipped:reference-loop" ); return; }
         nontrivial = I.steps > 3;
         verif::guarded_buffer gb( input, 0 );
         R = run_state{};
         R.g = &g;
         R.cfg = &cfg;
         R.base = gb.begin();
         R.end = gb.end();
         V.set_extra( g.name );
         const std::string topt = g.cell[ 0 ] ? std::string( g.cell ) : std::string( g.profile );
         auto check = [ & ]( const obs& base, const obs& o, const std::string& cls ) {
            std::string why;
            cell( "class:" + cls );
            if( !same_obs( base, o, why ) ) viol( "C07", "C07|" + cls + "|differs-from-memory_input|" + why + ( ( cls == "memory_input-lazy" && ( g.features & GF_LAZY_UNSAFE ) ) ? "|grammar-uses-rematch" : "" ), cls + " gives " + describe_obs( o ) + " but memory_input gives " + describe_obs( base ) );
         };
         runreq rq{ gb.begin(), gb.end(), 0 };
         const obs base = observe( g, rq );
         cell( std::string( "buf:baseline:" ) + ( base.st == 1 ? "success" : base.st == 0 ? "failure" : base.st == 2 ? "parse_error" : "other" ) );
         if( base.st >= 3 ) { viol( "C07", "C07|baseline-unexpected-outcome", "memory_input run ended with status " + std::to_string( base.st ) ); flush_viols( input ); return; }
         const bool small_ok = ( g.features & GF_CATCH_ALL ) == 0;
         auto buffer_family = [ & ]( int combo, std::size_t chunk, const std::string& name ) {
            runreq b{ gb.begin(), gb.end(), combo };
            b.maximum = input.size() + 80;
            b.sched = 0;
            const obs ample = observe( g, b );
            const std::size_t need = g_need_all;
            const bool unbounded = g_need_unbounded;
            if( unbounded ) {
               // a require() for more than any buffer can hold (everything): std::overflow_error is the only permitted outcome
               cell( "class:" + name + "-unbounded-lookahead" );
               if( ample.st != 8 ) viol( "C07", "C07|" + name + "|no-overflow_error-for-unbounded-lookahead", name + ": the grammar required an unbounded amount but the run gave " + describe_obs( ample ) + " (memory_input: " + describe_obs( base ) + ")" );
               return;
            }
            check( base, ample, name + "-ample" );
            for( int sched = 1; sched <= 6; ++sched ) {
               runreq sr = b;
               sr.sched = sched;
               const obs so = observe( g, sr );
               check( base, so, name + "-short-reads" );
               cell( "sched:" + std::to_string( sched ) );
            }
            if( !small_ok || unbounded ) return;
            const std::size_t hi = std::min< std::size_t >( need + 2, chunk + 48 );
            for( std::size_t cap = chunk; cap <= hi; ++cap ) {
               runreq sm = b;
               sm.maximum = cap - chunk;
               sm.sched = int( ( cap + input.size() ) % 7 );   // all reader schedules also meet the small buffers
               const obs o = observe( g, sm );
               const bool expect_overflow = need > cap;
               if( expect_overflow ) {
                  cell( "small-buffer:overflow-expected" );
                  if( o.st != 8 ) viol( "C07", "C07|" + name + "|no-overflow_error-though-buffer-too-small", name + " with capacity " + std::to_string( cap ) + " but the grammar requires offset+amount = " + std::to_string( need ) + ": got " + describe_obs( o ) + " instead of std::overflow_error" );
               }
               else {
                  cell( "small-buffer:fits" );
                  if( o.st == 8 ) viol( "C07", "C07|" + name + "|overflow_error-though-buffer-suffices", name + " with capacity " + std::to_string( cap ) + " >= required " + std::to_string( need ) + " threw std::overflow_error" );
                  else check( base, o, name + "-small" );
               }
            }
         };
         if( cfg.bufset == 0 ) {
            if( g_skip_lazy_class ) cell( "skipped:lazy-run-of-bof-or-bol-inside-rematch-(known-finding)" );
            else {
               runreq l{ gb.begin(), gb.end(), 1 };
               check( base, observe( g, l ), "memory_input-lazy" );
            }
            buffer_family( 2, 1, "buffer_input-chunk1" );
            buffer_family( 3, 3, "buffer_input-chunk3" );
         }
         else {
            buffer_family( 2, 64, "buffer_input-chunk64" );
            const std::string path = tmp_path();
            { FILE* f = std::fopen( path.c_str(), "wb" ); if( f ) { if( !input.empty() ) (void)!std::fwrite( input.data(), 1, input.size(), f ); std::fclose( f ); } }
            static const char* names[] = { "", "", "", "", "string_input", "read_input", "mmap_input", "file_input", "argv_input", "istream_input", "cstream_input" };
            for( int combo = 4; combo <= 10; ++combo ) {
               if( combo == 8 && input.find( '\0' ) != std::string::npos ) continue;
               runreq f{ gb.begin(), gb.end(), combo };
               f.path = path.c_str();
               f.maximum = input.size() + 80;
               const obs fo = observe( g, f );
               if( combo >= 9 && g_need_unbounded ) { cell( std::string( "class:" ) + names[ combo ] + "-unbounded-lookahead" ); if( fo.st != 8 ) viol( "C07", std::string( "C07|" ) + names[ combo ] + "|no-overflow_error-for-unbounded-lookahead", std::string( names[ combo ] ) + ": unbounded look-ahead but " + describe_obs( fo ) ); continue; }
               check( base, fo, names[ combo ] );
            }
         }
         flush_viols( input );
      }

      // one monitored run and all comparisons with the reference
      void run_case( const grammar& g, const config& cfg, const std::string& input, int bufmode, bool& nontrivial )
      {
         ref::interp I;
         I.n = g.nodes;
         std::vector< int > ak;
         std::vector< int > akb;
         if( g.akinds && !cfg.plain ) { ak.assign( g_names.size(), 0 ); for( std::size_t i = 0; i < ak.size(); ++i ) ak[ i ] = g.akinds[ i ]; I.akinds = ak.data(); }
         if( g.akinds_b && !cfg.plain ) { akb.assign( g_names.size(), 0 ); for( std::size_t i = 0; i < akb.size(); ++i ) akb[ i ] = g.akinds_b[ i ]; I.akinds_b = akb.data(); }
         I.salt = g.salt;
         I.eolpol = cfg.eolpol;
         I.in = input;
         I.mif = cfg.mustif ? g.mif : nullptr;
         ref::ctx c0;
         c0.act = !cfg.top_nothing;
         const ref::outcome ro = I.ev( g.top, 0, input.size(), c0 );
         if( I.loop || ro.st == ref::LOOP ) { cell( "skipped:reference-loop" ); return; }

         static const char* fillers[] = { "ab", "0123456789", "\n\r\n", "aaaaaaaa", "]=]==]" };
         verif::guarded_buffer gb( input, bufmode, fillers[ ( input.size() + g.salt ) % 5 ] );
         R = run_state{};
         R.g = &g;
         R.cfg = &cfg;
         R.base = gb.begin();
         R.end = gb.end();
         R.text = std::string_view( input );
         R.eolch = ( cfg.eolpol == 1 || cfg.eolpol == 4 ) ? '\r' : '\n';
         R.lazy = cfg.lazy;
         R.step_limit = 200 + I.steps * 40;
         R.depth_limit = 60 + I.maxdepth * 6;
         V.set_extra( g.name );

         if( cfg.plain ) {
            // the apply_mode::nothing combinations do not run the class actions of apply<> / if_apply<>, whose vetoes are part
            // of the match result: they are compared with a reference evaluation that has actions disabled
            ref::interp I0 = I;
            I0.evs.clear();
            I0.loop = false;
            ref::ctx c1 = c0;
            c1.act = false;
            const ref::outcome ro_nothing = I0.ev( g.top, 0, input.size(), c1 );
            const bool nothing_loops = I0.loop || ro_nothing.st == ref::LOOP;
            const ref::outcome ro_action = ro;
            for( int combo = 0; combo < 4; ++combo ) {
               if( ( combo & 1 ) && nothing_loops ) { cell( "skipped:reference-loop" ); continue; }
               const ref::outcome ro = ( combo & 1 ) ? ro_nothing : ro_action;
               runreq rq{ gb.begin(), gb.end(), combo };
               runres rs;
               R.viols.clear();
               g.run( rq, rs );
               ++V.evaluations;
               const bool required = ( combo & 2 ) != 0;
               const char* cn[] = { "action/optional", "nothing/optional", "action/required", "nothing/required" };
               cell( std::string( "plain:" ) + cn[ combo ] + ":" + ( rs.st == 1 ? "ok" : rs.st == 0 ? "fail" : "exception" ) );
               bool bad = false;
               std::string why;
               if( ( rs.st == 1 ) != ( ro.st == ref::OK ) || ( rs.st == 0 ) != ( ro.st == ref::FAIL ) ) { bad = true; why = "result " + std::to_string( rs.st ) + " vs reference " + std::to_string( ro.st ); }
               else if( rs.st == 1 && rs.end_byte != ro.end ) { bad = true; why = "consumed " + std::to_string( rs.end_byte ) + " vs reference " + std::to_string( ro.end ); }
               else if( rs.st == 0 && required && rs.end_byte != 0 ) { bad = true; why = "top-level failure under rewind_mode::required left " + std::to_string( rs.end_byte ) + " bytes consumed"; }
               if( bad ) viol( g.prop, std::string( g.prop ) + "|plain-result-mismatch|" + cn[ combo ] + "|" + tmpl( vname( g.nodes[ g.top ].vid ) == "?" ? "top" : std::string( g.cell[ 0 ] ? g.cell : g.profile ) ), why );
               flush_viols( input );
            }
            nontrivial = ( ro.st != ref::FAIL ) || I.steps > 3;
            return;
         }

         runreq rq{ gb.begin(), gb.end(), 0 };
         runres rs;
         g.run( rq, rs );
         ++V.evaluations;
         nontrivial = I.steps > 3;
         cell( std::string( "run:" ) + ( rs.st == 1 ? "success" : rs.st == 0 ? "local-failure" : rs.st == 2 ? "parse_error" : rs.st == 3 ? "fuel" : "foreign-exception" ) );
         const std::string topt = g.cell[ 0 ] ? std::string( g.cell ) : std::string( g.profile );

         if( rs.st == 3 ) {
            viol( "C11", "C11|real-run-out-of-fuel|" + topt, "the real parser exceeded " + std::to_string( R.step_limit ) + " rule invocations / nesting " + std::to_string( R.depth_limit ) + " where the reference needed " + std::to_string( I.steps ) );
            flush_viols( input );
            return;
         }
         // ---- frames must be balanced
         if( !R.frames.empty() ) viol( "C08", "C08|frames-left-open", "wrapper frames left open after the run" );

         // ---- result / consumed / blame  (C01 / C09 / C05 depending on the grammar)
         const int exp_st = ro.st == ref::OK ? 1 : ro.st == ref::FAIL ? 0 : ( ro.xkind == ref::X_PARSE_ERROR ? 2 : ro.xkind == ref::X_STD ? 4 : 5 );
         bool result_ok = true;
         if( rs.st != exp_st ) {
            result_ok = false;
            const char* prop = ( rs.st >= 2 || exp_st >= 2 ) ? "C05" : g.prop;
            if( std::strcmp( g.prop, "C09" ) == 0 ) prop = "C09";
            viol( prop, std::string( prop ) + "|result-mismatch|" + topt, "result " + std::to_string( rs.st ) + " (" + rs.msg + rs.what + ") but the reference gives " + std::to_string( exp_st ) + ( ro.st == ref::RAISED ? " blaming " + std::string( vname( ro.blame ) ) : "" ) );
         }
         else if( rs.st == 0 && cfg.top_nothing && rs.end_byte != 0 ) {
            result_ok = false;
            viol( "C01", "C01|top-level-failure-under-required-left-input-consumed|" + topt, "parse< ..., apply_mode::nothing, rewind_mode::required > failed with " + std::to_string( rs.end_byte ) + " bytes consumed" );
         }
         else if( rs.st == 1 && rs.end_byte != ro.end ) {
            result_ok = false;
            viol( g.prop, std::string( g.prop ) + "|consumed-mismatch|" + topt, "consumed " + std::to_string( rs.end_byte ) + " bytes but the reference consumes " + std::to_string( ro.end ) );
         }
         else if( rs.st == 2 ) {
            // identity of the global failure
            // the outer error of *_raise_nested comes from normal::raise_nested: default message or Rule::error_message, never a must_if message
            const std::string exp = ro.nested_depth > 0 ? expected_message( ro.blame, false ) : expected_message( ro.blame );
            if( rs.msg != exp ) {
               result_ok = false;
               const char* prop = std::strcmp( g.prop, "C09" ) == 0 ? "C09" : "C05";
               viol( prop, std::string( prop ) + "|blamed-rule|" + topt, "parse_error message '" + rs.msg + "' but the first failing must/raise in evaluation order gives '" + exp + "'" );
            }
            else {
               // position: within the failed attempt, consistent with the prefix, what() format
               if( !R.raised ) viol( "C05", "C05|parse-error-without-raise-hook|" + topt, "a parse_error reached the caller but no Control::raise was observed" );
               if( ro.nested_depth > 0 && rs.ebyte != ro.xbegin ) viol( "C05", "C05|nested-error-not-at-start-of-guarded-rule|" + topt, "outer parse_error at byte " + std::to_string( rs.ebyte ) + " but the guarded rule started at " + std::to_string( ro.xbegin ) );
               if( rs.ebyte < ro.xbegin ) viol( "C05", "C05|position-before-attempt|" + topt, "parse_error at byte " + std::to_string( rs.ebyte ) + " but the blamed attempt began at " + std::to_string( ro.xbegin ) );
               if( R.raised && ( rs.ebyte != R.r_pos.byte || rs.eline != R.r_pos.line || rs.ecol != R.r_pos.column ) && ro.nested_depth == 0 ) viol( "C05", "C05|position-changed-in-flight|" + topt, "the parse_error caught at the call site carries a different position than the one raised" );
               if( rs.ebyte <= input.size() ) {
                  const ref::pos3 x = ref::position_of( input, rs.ebyte, R.eolch );
                  if( ( rs.eline != x.line || rs.ecol != x.column ) && !R.pos_reported ) viol( "C06", std::string( "C06|parse-error-position|" ) + ( cfg.lazy ? "lazy" : "eager" ) + "|" + topt, "parse_error position (byte " + std::to_string( rs.ebyte ) + " line " + std::to_string( rs.eline ) + " col " + std::to_string( rs.ecol ) + ") is not the position function of the prefix (line " + std::to_string( x.line ) + " col " + std::to_string( x.column ) + ")" );
               }
               else viol( "C05", "C05|position-beyond-input|" + topt, "parse_error byte beyond the input" );
               const std::string w = "x:" + std::to_string( rs.eline ) + ":" + std::to_string( rs.ecol ) + ": " + rs.msg;
               if( rs.what != w ) viol( "C05", "C05|what-format|" + topt, "what() is '" + rs.what + "', expected '" + w + "'" );
               if( rs.nested_depth != ro.nested_depth ) viol( "C05", "C05|nesting-depth|" + topt, "exception nesting depth " + std::to_string( rs.nested_depth ) + " vs reference " + std::to_string( ro.nested_depth ) );
            }
         }
         else if( rs.st == 4 || rs.st == 5 ) {
            if( rs.serial != R.thrown_serial ) viol( "C05", "C05|foreign-exception-identity|" + topt, "foreign exception serial " + std::to_string( rs.serial ) + " differs from the one thrown last (" + std::to_string( R.thrown_serial ) + ")" );
         }
         else if( rs.st >= 6 ) {
            viol( "C05", "C05|unexpected-exception-type|" + topt, "unexpected exception: " + rs.what );
         }

         // ---- final position of a successful run (C06)
         if( rs.st == 1 && rs.end_ptr && result_ok ) {
            // checked already at the top-level exit event
         }

         // ---- C04: surviving action log == reference action events
         if( result_ok && rs.st == 1 ) {
            std::vector< const ref::event* > ex;
            for( const auto& e : I.evs )
               if( e.type == ref::E_ACT || e.type == ref::E_CLSACT ) ex.push_back( &e );
            bool same = ex.size() == R.alog.size();
            for( std::size_t i = 0; same && i < ex.size(); ++i ) {
               const int xvid = ex[ i ]->type == ref::E_ACT ? ex[ i ]->vid : -1000 - ex[ i ]->vid;
               same = ( xvid == R.alog[ i ].vid ) && ( ex[ i ]->b == R.alog[ i ].b ) && ( ex[ i ]->e == R.alog[ i ].e || ( !R.alog[ i ].has_input && ex[ i ]->type == ref::E_CLSACT ) );
               if( same && ex[ i ]->type == ref::E_ACT && ex[ i ]->fam != R.alog[ i ].fam ) viol( "C13", "C13|surviving-action-family|" + topt, "action of " + std::string( vname( xvid ) ) + " [" + std::to_string( ex[ i ]->b ) + "," + std::to_string( ex[ i ]->e ) + ") fired from action family " + std::to_string( R.alog[ i ].fam ) + ", the reference expects family " + std::to_string( ex[ i ]->fam ) );
            }
            cell( "actionlog:events", long( ex.size() ) );
            if( !same ) {
               std::string got;
               int n = 0;
               for( const auto& a : R.alog ) { if( n++ > 12 ) { got += " ..."; break; } got += " " + ( a.vid >= 0 ? tmpl( vname( a.vid ) ) : "cls" + std::to_string( -1000 - a.vid ) ) + "[" + std::to_string( a.b ) + "," + std::to_string( a.e ) + ")"; }
               std::string want;
               n = 0;
               for( const auto* e : ex ) { if( n++ > 12 ) { want += " ..."; break; } want += " " + ( e->type == ref::E_ACT ? tmpl( vname( e->vid ) ) : "cls" + std::to_string( e->vid ) ) + "[" + std::to_string( e->b ) + "," + std::to_string( e->e ) + ")"; }
               viol( "C04", "C04|surviving-action-log|" + topt, "surviving action invocations:" + got + " ; reference derivation:" + want );
            }
         }
         // ---- C04: no action invocation that the documented expansion does not make (backtracked invocations included).
         //      The real rules are optimised implementations and may attempt a sub-rule less often than the expansion, never more often.
         if( result_ok && ( rs.st == 1 || rs.st == 0 ) ) {
            std::map< std::tuple< int, std::size_t, std::size_t >, long > budget;
            for( const auto& a : I.raw ) ++budget[ { a.vid, a.b, a.e } ];
            for( const auto& a : R.rawlog ) {
               if( a.vid < 0 ) continue;
               if( --budget[ { a.vid, a.b, a.e } ] < 0 ) {
                  viol( "C04", "C04|action-invoked-outside-the-documented-expansion|" + topt, "action of " + std::string( vname( a.vid ) ) + " invoked for [" + std::to_string( a.b ) + "," + std::to_string( a.e ) + ") more often than the documented expansion of the grammar matches that rule there with actions enabled (e.g. inside what the expansion evaluates as look-ahead)" );
                  break;
               }
            }
            cell( "actionlog:raw-invocations", long( R.rawlog.size() ) );
         }
         // ---- C13: surviving state scopes == reference scopes
         if( result_ok && rs.st == 1 ) {
            std::vector< const ref::event* > ex;
            for( const auto& e : I.evs )
               if( e.type == ref::E_SCOPE ) ex.push_back( &e );
            bool same = ex.size() == R.scopes.size();
            for( std::size_t i = 0; same && i < ex.size(); ++i ) {
               const bool delivered = !ex[ i ]->vetoed;
               same = ( ex[ i ]->vid == R.scopes[ i ].type ) && ( ex[ i ]->b == R.scopes[ i ].b ) && ( delivered == R.scopes[ i ].succeeded ) && ( !delivered || ex[ i ]->e == R.scopes[ i ].e );
            }
            cell( "scopes:surviving", long( ex.size() ) );
            if( !same ) {
               std::string got, want;
               for( const auto& sc : R.scopes ) got += " st" + std::to_string( sc.type ) + "[" + std::to_string( sc.b ) + "," + ( sc.succeeded ? std::to_string( sc.e ) : std::string( "no-success" ) ) + ")";
               for( const auto* e : ex ) want += " st" + std::to_string( e->vid ) + "[" + std::to_string( e->b ) + "," + ( !e->vetoed ? std::to_string( e->e ) : std::string( "no-success" ) ) + ")";
               viol( "C13", "C13|surviving-scopes|" + topt, "state scopes of the surviving derivation:" + got + " ; reference:" + want );
            }
            if( !R.live_states.empty() ) viol( "C13", "C13|states-alive-after-run", "state objects still alive after the run" );
         }
         // ---- C12: parse tree == surviving derivation of the selected rules
         if( cfg.tree ) compare_tree( g, cfg, input, I, ro, rs, result_ok, topt );
         flush_viols( input );
      }
   }  // namespace

   int corpus_main( int argc, char** argv, const grammar* gs, std::size_t ng, const config& cfg )
   {
      verif::init( argc, argv );
      install_hooks();
      if( cfg.buf ) install_buf_hooks();
      const std::size_t cap = cfg.buf ? ( V.thorough() ? 6000 : 1500 ) : ( V.thorough() ? 20000 : 1500 );
      // seconds per case before the watchdog fires; the runner sets VERIF_CASE_ALARM for its single re-run of a case
      unsigned case_alarm = 30;
      if( const char* a = std::getenv( "VERIF_CASE_ALARM" ) ) case_alarm = unsigned( std::max( 1, std::atoi( a ) ) );
      for( std::size_t gi = 0; gi < ng; ++gi ) {
         const grammar& g = gs[ gi ];
         // known finding (C06/C07, DESIGN section 6 row 6): inside the later rules of rematch<> / minus<> a lazily tracked input
         // restarts at 0:1:1, so a position-dependent rule there (bof, bol) matches where it must not -- up to non-termination
         // of plus< bof >. Lazy runs of such grammars are not made; the finding is reported by the position monitors instead.
         const bool lazy_pos_rematch = ( g.features & GF_LAZY_UNSAFE ) && has_position_rule( g );
         g_skip_lazy_class = lazy_pos_rematch;
         if( lazy_pos_rematch && cfg.lazy && !cfg.buf ) {
            cell( "skipped:lazy-run-of-bof-or-bol-inside-rematch-(known-finding)" );
            continue;
         }
         if( ( g.features & GF_PRED_DUP ) && cfg.variant >= 3 && !cfg.plain ) {
            // "equivalent to" an expansion that repeats a sub-rule inside a predicate is only defined for
            // side-effect-free sub-rules: no vetoing / throwing attachments on these grammars
            cell( "skipped:grammars-with-duplicated-predicate-under-veto-variants" );
            continue;
         }
         std::string alpha( g.alphabet, g.nalpha );
         if( cfg.ana ) {
            // C11: does the analysis certify a grammar for which some input exhibits a cycle without progress?
            if( !V.begin_case( "C11", g.profile ) ) continue;
            ::alarm( std::max( 120u, case_alarm ) );
            V.set_extra( g.name );
            const long problems = g.analyze ? g.analyze() : -1;
            input_enum en;
            en.alpha = alpha;
            en.maxlen = pick_len( alpha.size(), V.thorough() ? 1500 : 400 );
            std::string input, witness, unconfirmed, spinning;
            long loops = 0, notconf = 0, tried = 0, spins = 0;
            while( en.next( input ) ) {
               ++tried;
               const int r = run_cycle_case( g, cfg, input, problems == 0 );
               if( r == 1 ) { if( !loops ) witness = input; ++loops; }
               if( r == 2 ) { if( !notconf ) unconfirmed = input; ++notconf; }
               if( r == 3 ) { if( !spins ) spinning = input; ++spins; }
               if( problems == 0 && r == 0 ) cell( "cyc:certified-grammar-terminated-within-budget" );
               if( loops >= 3 || spins >= 3 ) break;
            }
            R.g = &g;
            R.cfg = &cfg;
            const std::string var( std::string( g.cell ).substr( std::string( g.cell ).rfind( ':' ) + 1 ) );
            if( loops && problems == 0 ) {
               viol( "C11", "C11|certified-but-loops|" + std::string( g.cell ).substr( 0, std::string( g.cell ).find( ':' ) ), "analyze() reports 0 problems but on input \"" + verif::show( witness ) + "\" the reference finds a cycle without progress and the real parser exceeds " + std::to_string( R.step_limit ) + " rule invocations / nesting " + std::to_string( R.depth_limit ) );
               flush_viols( witness );
            }
            if( spins && problems == 0 ) {
               viol( "C11", "C11|certified-but-real-run-makes-no-progress|" + std::string( g.cell ).substr( 0, std::string( g.cell ).rfind( ':' ) ), "analyze() reports 0 problems and the reference evaluation of the documented semantics terminates, but on input \"" + verif::show( spinning ) + "\" the real parser exceeds " + std::to_string( R.step_limit ) + " rule invocations / nesting " + std::to_string( R.depth_limit ) + " (a rule that the analysis takes to consume succeeded without consuming?)" );
               flush_viols( spinning );
            }
            cell( std::string( "cyc:" ) + ( problems == 0 ? "certified" : "flagged" ) + ":" + ( loops ? "loops" : notconf ? "reference-loop-not-confirmed" : "no-loop-found" ) + ":" + var );
            if( loops ) ++V.nontrivial;
            cell( "grammars:cyc" );
            if( gi < 3 ) V.sample( "{\"grammar\":\"" + verif::jesc( g.text ) + "\",\"cell\":\"" + verif::jesc( g.cell ) + "\",\"analyze_problems\":" + std::to_string( problems ) + ",\"loop_witness\":\"" + verif::jesc( verif::show( witness ) ) + "\",\"inputs_tried\":" + std::to_string( tried ) + "}" );
            continue;
         }
         const std::string prefixes( g.prefixes ? g.prefixes : "" );
         const std::size_t npre = prefixes.empty() ? 1 : prefixes.size();
         input_enum en;
         en.alpha = alpha;
         en.maxlen = pick_len( alpha.size(), prefixes.empty() ? cap : ( V.thorough() ? 6000 : 1400 ) );
         std::string input, body;
         std::size_t pre = npre;   // index of the next mode selector to combine with `body`
         long n = 0;
         long nt = 0;
         verif::rng rnd( V.seed * 7919 + g.salt );
         const long nrandom = V.thorough() ? 400 : 60;
         for( ;; ) {
            bool have = true;
            if( !prefixes.empty() ) {
               // context-matrix grammars dispatch on a leading selector byte: every body string is tried under every selector
               if( pre >= npre ) { have = en.next( body ); pre = 0; }
               if( have ) { input = std::string( 1, prefixes[ pre ] ) + body; ++pre; }
            }
            else have = en.next( input );
            if( !have ) {
               if( n >= long( 1 ) << 30 ) break;
               // seeded random longer strings
               static long rcount;
               if( rcount >= nrandom ) { rcount = 0; break; }
               ++rcount;
               // buffer / file configurations also get inputs around page and chunk boundaries
               static const std::size_t special[] = { 63, 64, 65, 127, 128, 129, 4095, 4096, 4097, 8192 };
               const std::size_t len = ( cfg.buf && rcount <= 10 ) ? special[ rcount - 1 ] : en.maxlen + 1 + rnd.below( 24 );
               input.clear();
               if( !prefixes.empty() ) input.push_back( prefixes[ rnd.below( prefixes.size() ) ] );
               for( std::size_t i = 0; i < len; ++i ) input.push_back( alpha[ rnd.below( alpha.size() ) ] );
               pre = npre;
            }
            ++n;
            if( !V.begin_case( "C03", g.profile, input.data(), input.size() ) ) continue;
            ::alarm( case_alarm );   // wall-clock backstop: its firing is recorded as a hang of this case (the runner re-runs the case once with a long limit)
            bool nontrivial = false;
            if( cfg.buf ) run_buf_case( g, cfg, input, nontrivial );
            else run_case( g, cfg, input, int( ( n + g.salt ) & 1 ), nontrivial );
            if( nontrivial ) ++nt;
         }
         V.nontrivial += nt;
         cell( std::string( "grammars:" ) + g.profile );
         if( g.cell[ 0 ] ) cell( std::string( "ctx:" ) + g.cell );
         if( gi < 2 ) V.sample( "{\"grammar\":\"" + verif::jesc( g.text ) + "\",\"profile\":\"" + g.profile + "\",\"config\":\"" + cfg.name + "\",\"inputs\":" + std::to_string( n ) + ",\"alphabet\":\"" + verif::jesc( verif::show( alpha ) ) + "\"}" );
      }
      ::alarm( 0 );
      if( !g_tmpdir.empty() ) (void)::system( ( "rm -rf " + g_tmpdir ).c_str() );
      cell( "buffer:reader-calls", g_buffer_reads );
      for( const auto& [ k, v ] : g_cells ) V.count( k, v );
      V.finish();
      return 0;
   }
}  // namespace mon
