// Shared runner support for every monitor binary in /verif (drivers and generated corpus TUs).
// No PEGTL include. Protocol (consumed by tools/check.py):
//   argv:  --tier quick|thorough --seed N --shard I --nshards N --out FILE [--resume-after K] [--only K]
//   FILE:  JSON lines
//     {"t":"viol","prop":"C15","key":"C15|...","what":"...","n":K,"replay":{...}}   (first few per key, others counted)
//     {"t":"crash","n":K,"sig":6,"prop":"C03","key":"...","desc":"...","data":"hex"}      (written from the signal handler)
//     {"t":"cov","evaluations":N,"cells":{"name":count,...},"samples":[...],"violcount":{"key":n}}
//     {"t":"done","cases":K}
// A case is one monitored execution (or one block of a bulk sweep).  Cases are numbered in a
// deterministic order, so that check.py can restart a runner after a sanitizer abort with
// --resume-after K and replay a single case with --only K.
#pragma once
#include <algorithm>
#include <csignal>
#include <cstdint>
#include <cstdio>
#include <cstdlib>
#include <cstring>
#include <map>
#include <string>
#include <string_view>
#include <unordered_set>
#include <unistd.h>
#include <vector>

#if defined( __has_feature )
#if __has_feature( address_sanitizer )
#define VERIF_ASAN 1
#endif
#endif
#if defined( __SANITIZE_ADDRESS__ )
#define VERIF_ASAN 1
#endif
#if defined( VERIF_ASAN )
#include <sanitizer/asan_interface.h>
#define VERIF_POISON( p, n ) __asan_poison_memory_region( ( p ), ( n ) )
#define VERIF_UNPOISON( p, n ) __asan_unpoison_memory_region( ( p ), ( n ) )
#else
#define VERIF_POISON( p, n ) ( (void)( p ), (void)( n ) )
#define VERIF_UNPOISON( p, n ) ( (void)( p ), (void)( n ) )
#endif

namespace verif
{
   inline std::string hex( const void* p, std::size_t n )
   {
      static const char* d = "0123456789abcdef";
      std::string r;
      const auto* b = static_cast< const unsigned char* >( p );
      for( std::size_t i = 0; i < n; ++i ) {
         r += d[ b[ i ] >> 4 ];
         r += d[ b[ i ] & 15 ];
      }
      return r;
   }
   inline std::string hex( std::string_view s ) { return hex( s.data(), s.size() ); }

   inline std::string jesc( std::string_view s )
   {
      std::string r;
      for( unsigned char c : s ) {
         if( c == '"' ) r += "\\\"";
         else if( c == '\\' ) r += "\\\\";
         else if( c == '\n' ) r += "\\n";
         else if( c == '\r' ) r += "\\r";
         else if( c == '\t' ) r += "\\t";
         else if( c < 0x20 || c >= 0x7f ) { char b[ 8 ]; std::snprintf( b, sizeof b, "\\u%04x", c ); r += b; }
         else r += char( c );
      }
      return r;
   }
   // printable rendering of input bytes for "what" texts
   inline std::string show( std::string_view s )
   {
      std::string r;
      for( unsigned char c : s ) {
         if( c == '\n' ) r += "\\n";
         else if( c == '\r' ) r += "\\r";
         else if( c == '\\' ) r += "\\\\";
         else if( c < 0x20 || c >= 0x7f ) { char b[ 8 ]; std::snprintf( b, sizeof b, "\\x%02x", c ); r += b; }
         else r += char( c );
      }
      return r;
   }

   // splitmix64 / xorshift PRNG, seeded from VERIF_SEED and a stream id
   struct rng
   {
      std::uint64_t s;
      explicit rng( std::uint64_t seed ) : s( seed * 0x9E3779B97F4A7C15ull + 0x1234567ull ) { next(); next(); }
      std::uint64_t next()
      {
         std::uint64_t z = ( s += 0x9E3779B97F4A7C15ull );
         z = ( z ^ ( z >> 30 ) ) * 0xBF58476D1CE4E5B9ull;
         z = ( z ^ ( z >> 27 ) ) * 0x94D049BB133111EBull;
         return z ^ ( z >> 31 );
      }
      std::uint64_t below( std::uint64_t n ) { return n ? next() % n : 0; }
      bool chance( unsigned num, unsigned den ) { return below( den ) < num; }
   };

   // An input buffer whose logical end is a hard fault for AddressSanitizer:
   //  mode 0: exact-size heap block (red zone follows immediately);
   //  mode 1: prefix of a larger block whose tail is filled with `filler` bytes (chosen to extend
   //          a match) and poisoned, so that an over-read faults under ASan and changes the result
   //          (or fires the window hook) without it.
   struct guarded_buffer
   {
      char* base = nullptr;
      std::size_t size = 0;
      std::size_t tail = 0;
      guarded_buffer() = default;
      guarded_buffer( std::string_view data, int mode = 0, std::string_view filler = {} ) { reset( data, mode, filler ); }
      guarded_buffer( const guarded_buffer& ) = delete;
      guarded_buffer& operator=( const guarded_buffer& ) = delete;
      void release()
      {
         if( base ) {
            VERIF_UNPOISON( base, ( ( size + tail + 7 ) & ~std::size_t( 7 ) ) + 8 );
            std::free( base );
            base = nullptr;
         }
      }
      void reset( std::string_view data, int mode = 0, std::string_view filler = {} )
      {
         release();
         size = data.size();
         tail = ( mode == 1 ) ? 16 : 0;
         const std::size_t alloc = ( mode == 1 ) ? ( ( ( size + tail + 7 ) & ~std::size_t( 7 ) ) + 8 ) : ( size ? size : 1 );
         base = static_cast< char* >( std::malloc( alloc ) );
         if( size ) std::memcpy( base, data.data(), size );
         if( mode == 1 ) {
            for( std::size_t i = size; i < alloc; ++i ) base[ i ] = filler.empty() ? '\0' : filler[ ( i - size ) % filler.size() ];
            VERIF_POISON( base + size, alloc - size );
         }
         else if( size == 0 ) {
            VERIF_POISON( base, 1 );
         }
      }
      ~guarded_buffer() { release(); }
      const char* begin() const { return base; }
      const char* end() const { return base + size; }
   };

   struct reporter
   {
      std::string tier = "quick";
      std::uint64_t seed = 1;
      unsigned shard = 0, nshards = 1;
      long resume_after = -1, only = -1;
      int fd = 1;
      long ncase = 0;          // index of the case in flight (1-based), counted over this shard's cases
      long evaluations = 0;    // monitored executions (a bulk case may add many)
      long nontrivial = 0;     // distinct cases that are non-trivial by the property's stated rule
      std::map< std::string, long > cells;
      std::map< std::string, long > violcount;
      std::vector< std::string > samples;
      std::size_t max_samples = 6;
      std::size_t max_per_key = 3;
      // crash breadcrumb (read from the signal handler: plain pointers only)
      const char* cur_prop = "C03";
      const char* cur_label = "";
      const void* cur_data = nullptr;
      std::size_t cur_len = 0;
      char cur_extra[ 256 ] = { 0 };

      std::unordered_set< std::uint64_t > seen;

      bool thorough() const { return tier == "thorough"; }

      // true the first time a case text is seen in this process (call before begin_case so that
      // all shards agree); used to keep distinct_nontrivial a count of distinct cases
      bool distinct( std::string_view s, std::uint64_t salt = 0 )
      {
         std::uint64_t h = 1469598103934665603ull ^ salt;
         for( unsigned char c : s ) { h ^= c; h *= 1099511628211ull; }
         return seen.insert( h ).second;
      }

      void emit( const std::string& line )
      {
         std::string l = line;
         l += '\n';
         const char* p = l.data();
         std::size_t n = l.size();
         while( n ) {
            const auto w = ::write( fd, p, n );
            if( w <= 0 ) break;
            p += w;
            n -= std::size_t( w );
         }
      }

      // Returns false when the case must be skipped (other shard / resume / --only).
      // `idx` is a global deterministic case number chosen by the driver (monotone per run).
      bool begin_case( const char* prop, const char* label, const void* data = nullptr, std::size_t len = 0 )
      {
         ++ncase;
         if( nshards > 1 && ( std::uint64_t( ncase ) % nshards ) != shard ) return false;
         if( ncase <= resume_after ) return false;
         if( only >= 0 && ncase != only ) return false;
         cur_prop = prop;
         cur_label = label;
         cur_data = data;
         cur_len = len;
         cur_extra[ 0 ] = 0;
         return true;
      }
      void set_extra( const char* s ) { std::snprintf( cur_extra, sizeof cur_extra, "%s", s ); }
      void count( const std::string& cell, long n = 1 ) { cells[ cell ] += n; }
      void sample( const std::string& json_value )
      {
         if( samples.size() < max_samples ) samples.push_back( json_value );
      }
      // json_replay must be a JSON object text (or empty)
      void violation( const char* prop, const std::string& key, const std::string& what, const std::string& json_replay = "" )
      {
         long& c = violcount[ key ];
         ++c;
         if( c > long( max_per_key ) ) return;
         std::string l = "{\"t\":\"viol\",\"prop\":\"";
         l += prop;
         l += "\",\"key\":\"" + jesc( key ) + "\",\"what\":\"" + jesc( what ) + "\",\"n\":" + std::to_string( ncase );
         if( cur_data && cur_len <= 4096 ) l += ",\"data\":\"" + hex( cur_data, cur_len ) + "\"";
         l += ",\"label\":\"" + jesc( cur_label ) + "\"";
         if( !json_replay.empty() ) l += ",\"replay\":" + json_replay;
         l += "}";
         emit( l );
      }
      void finish()
      {
         std::string l = "{\"t\":\"cov\",\"evaluations\":" + std::to_string( evaluations ) + ",\"nontrivial\":" + std::to_string( nontrivial ) + ",\"cells\":{";
         bool first = true;
         for( const auto& [ k, v ] : cells ) {
            if( !first ) l += ",";
            first = false;
            l += "\"" + jesc( k ) + "\":" + std::to_string( v );
         }
         l += "},\"violcount\":{";
         first = true;
         for( const auto& [ k, v ] : violcount ) {
            if( !first ) l += ",";
            first = false;
            l += "\"" + jesc( k ) + "\":" + std::to_string( v );
         }
         l += "},\"samples\":[";
         first = true;
         for( const auto& s : samples ) {
            if( !first ) l += ",";
            first = false;
            l += s;
         }
         l += "]}";
         emit( l );
         emit( "{\"t\":\"done\",\"cases\":" + std::to_string( ncase ) + "}" );
      }
   };

   inline reporter V;

   namespace detail
   {
      inline void wr( const char* s ) { (void)!::write( V.fd, s, std::strlen( s ) ); }
      inline void wrnum( long v )
      {
         char b[ 32 ];
         int i = 31;
         b[ i ] = 0;
         bool neg = v < 0;
         unsigned long u = neg ? 0ul - (unsigned long)v : (unsigned long)v;
         do { b[ --i ] = char( '0' + u % 10 ); u /= 10; } while( u );
         if( neg ) b[ --i ] = '-';
         wr( b + i );
      }
      inline void wresc( const char* s )
      {
         char b[ 2 ] = { 0, 0 };
         for( ; *s; ++s ) {
            unsigned char c = (unsigned char)*s;
            if( c == '"' || c == '\\' ) { wr( "\\" ); b[ 0 ] = char( c ); wr( b ); }
            else if( c < 0x20 || c >= 0x7f ) wr( "?" );
            else { b[ 0 ] = char( c ); wr( b ); }
         }
      }
      inline void crash_record( int sig )
      {
         static volatile sig_atomic_t once = 0;
         if( once ) return;
         once = 1;
         wr( "{\"t\":\"crash\",\"n\":" );
         wrnum( V.ncase );
         wr( ",\"sig\":" );
         wrnum( sig );
         wr( ",\"prop\":\"" );
         wresc( V.cur_prop );
         wr( "\",\"label\":\"" );
         wresc( V.cur_label );
         wr( "\",\"extra\":\"" );
         wresc( V.cur_extra );
         wr( "\",\"data\":\"" );
         if( V.cur_data && V.cur_len <= 4096 ) {
            static const char* d = "0123456789abcdef";
            const auto* p = static_cast< const unsigned char* >( V.cur_data );
            char b[ 3 ] = { 0, 0, 0 };
            for( std::size_t i = 0; i < V.cur_len; ++i ) { b[ 0 ] = d[ p[ i ] >> 4 ]; b[ 1 ] = d[ p[ i ] & 15 ]; wr( b ); }
         }
         wr( "\"}\n" );
      }
      inline void on_signal( int sig )
      {
         crash_record( sig );
         std::signal( sig, SIG_DFL );
         ::raise( sig );
      }
   }  // namespace detail

   inline void init( int argc, char** argv )
   {
      const char* out = nullptr;
      for( int i = 1; i < argc; ++i ) {
         const std::string a = argv[ i ];
         auto val = [ & ]() -> const char* { return ( i + 1 < argc ) ? argv[ ++i ] : ""; };
         if( a == "--tier" ) V.tier = val();
         else if( a == "--seed" ) V.seed = std::strtoull( val(), nullptr, 10 );
         else if( a == "--shard" ) V.shard = unsigned( std::atoi( val() ) );
         else if( a == "--nshards" ) V.nshards = unsigned( std::atoi( val() ) );
         else if( a == "--resume-after" ) V.resume_after = std::atol( val() );
         else if( a == "--only" ) V.only = std::atol( val() );
         else if( a == "--out" ) out = val();
      }
      if( out ) {
         FILE* f = std::fopen( out, "a" );
         if( !f ) { std::perror( out ); std::exit( 2 ); }
         V.fd = ::fileno( f );
      }
#if defined( VERIF_ASAN )
      // leave SEGV/BUS/FPE to AddressSanitizer (its report ends in abort(), which we catch)
      for( int s : { SIGABRT, SIGALRM, SIGTRAP, SIGILL } ) std::signal( s, detail::on_signal );
#else
      for( int s : { SIGABRT, SIGSEGV, SIGBUS, SIGFPE, SIGILL, SIGALRM, SIGTRAP } ) std::signal( s, detail::on_signal );
#endif
   }
}  // namespace verif

#if defined( VERIF_ASAN )
// ASan calls this before printing its report; the record names the case in flight.
extern "C" __attribute__( ( weak ) ) void __asan_on_error() { verif::detail::crash_record( 0 ); }
#endif
