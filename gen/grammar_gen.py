#!/usr/bin/env python3
"""Seeded grammar-corpus generator. Emits C++ translation units (grammar types + reference AST tables +
registry) for the omni-monitor. The AST of every convenience rule is its desugaring taken from the
[Equivalent] clauses of /repo/doc/Rule-Reference.md (prose for rematch / partial / star_partial /
star_strict); it is what cpp/ref/peg_ref.hpp evaluates, independently of PEGTL.
"""
import random

KINDS = ["ANY", "ONE", "NOTONE", "RANGE", "NOTRANGE", "RANGES", "STRING", "ISTRING", "EOF_", "EOL", "BOL", "BOF", "BYTES", "SUCCESS", "FAILURE",
         "SEQ", "SOR", "STAR", "PLUS", "OPT", "AT", "NOTAT", "RAISE", "TRY", "REMATCH", "PARTIAL", "STARPARTIAL", "ENABLE", "DISABLE",
         "ACTFAM", "CTLFAM", "STATE", "APPLY", "APPLY0", "IFAPPLY", "DISCARD", "REQUIRE", "NAMED", "VIS",
         "U8ANY", "U8ONE", "U8RANGE", "U8NOTONE", "UNSIGNED_RULE", "SIGNED_RULE", "MAXIMUM_RULE", "REP_ONE_MIN_MAX", "U8_ONE_BYTEWISE", "RAWSTRING"]

A_NONE, A_APPLY, A_APPLY0, A_VETO, A_VETO0, A_THROW, A_THROW_ALIEN = range(7)
A_CHANGE_STATE, A_CHANGE_STATES, A_CHANGE_ACTION, A_CHANGE_ACTION_AND_STATE, A_CHANGE_CONTROL, A_ENABLE_ACTION, A_DISABLE_ACTION = range(7, 14)

GF_EXC, GF_ACT, GF_STATE, GF_LAZY_UNSAFE, GF_DISCARD, GF_CATCH_ALL, GF_TREE, GF_PRED_DUP = 1, 2, 4, 8, 16, 32, 64, 128


def cch(c):
    o = ord(c) if isinstance(c, str) else c
    if o == 10:
        return "'\\n'"
    if o == 13:
        return "'\\r'"
    if o == 39:
        return "'\\''"
    if o == 92:
        return "'\\\\'"
    if 32 <= o < 127:
        return "'%s'" % chr(o)
    return "char( %d )" % o


def cstr(s):
    out = ""
    for ch in s:
        o = ord(ch)
        if ch == '"':
            out += '\\"'
        elif ch == "\\":
            out += "\\\\"
        elif 32 <= o < 127:
            out += ch
        else:
            out += "\\%03o" % o
    return out


class TU:
    """One translation unit: several grammars sharing one registry of visible rule types."""

    def __init__(self):
        self.reg = {}        # cpp type -> vid
        self.regs = []       # (vid, cpp type, custom message or None)
        self.grammars = []
        self.chain_sel = set()   # registry ids selected in the chain-directed selector variant
        self.no_action = set()   # registry ids that must not carry an action with input (they contain a discard)
        self.custom = {}         # registry id of a named rule -> text of its static error_message member

    def vid(self, cpp, custom=None):
        if cpp not in self.reg:
            self.reg[cpp] = len(self.regs)
            self.regs.append((len(self.regs), cpp, custom))
        return self.reg[cpp]


class G:
    """One grammar under construction."""

    def __init__(self, tu, gname, rnd, profile, prop):
        self.tu = tu
        self.gname = gname
        self.rnd = rnd
        self.profile = profile
        self.prop = prop
        self.nodes = []      # (kind, arg, kids, vid, a0, a1, a2, ids)
        self.alpha = set()
        self.features = 0
        self.cell = ""
        self.names = []
        self.named_ids = []
        self.bodies = []     # (cpp, core id)
        self.struct_extra = {}
        self.prefixes = ""

    def add(self, kind, arg="", kids=(), vid=-1, a0=0, a1=0, a2=0, ids=()):
        self.nodes.append((kind, arg, tuple(kids), vid, a0, a1, a2, tuple(ids)))
        return len(self.nodes) - 1

    # ---- visible wrapper
    def vis(self, cpp, core):
        if self.nodes[core][0] in ("NAMED",):
            return (cpp, core)
        return (cpp, self.add("VIS", kids=(core,), vid=self.tu.vid(cpp)))

    def seq_of(self, ids):
        ids = list(ids)
        return self.add("SEQ", kids=ids)

    # ---- atoms
    def atom(self, kind=None, chars="ab"):
        r = self.rnd
        k = kind or r.choice(["any", "one", "one", "one2", "not_one", "range", "string", "string", "eof", "success", "failure", "eol", "eolf", "one_nl", "istring", "not_range", "ranges", "bytes", "bof"])
        if k == "any":
            return self.vis("any", self.add("ANY"))
        if k == "one":
            c = r.choice(chars)
            self.alpha.add(c)
            return self.vis("one< %s >" % cch(c), self.add("ONE", c))
        if k == "one_nl":
            self.alpha.add("\n")
            return self.vis("one< '\\n' >", self.add("ONE", "\n"))
        if k == "one2":
            self.alpha.update("ab")
            return self.vis("one< 'a', 'b' >", self.add("ONE", "ab"))
        if k == "not_one":
            c = r.choice(chars)
            self.alpha.add(c)
            return self.vis("not_one< %s >" % cch(c), self.add("NOTONE", c))
        if k == "range":
            self.alpha.update("ab")
            return self.vis("range< 'a', 'b' >", self.add("RANGE", "ab"))
        if k == "not_range":
            self.alpha.update("ac")
            return self.vis("not_range< 'a', 'b' >", self.add("NOTRANGE", "ab"))
        if k == "ranges":
            self.alpha.update("abc")
            if r.random() < 0.5:
                return self.vis("ranges< 'a', 'a', 'c', 'c' >", self.add("RANGES", "aacc"))
            return self.vis("ranges< 'b', 'c', 'a' >", self.add("RANGES", "bca"))
        if k == "string":
            s = r.choice(["ab", "aa", "ba", "a\n", "abc", "b"])
            self.alpha.update(s)
            return self.vis("string< %s >" % ", ".join(cch(c) for c in s), self.add("STRING", s))
        if k == "istring":
            s = r.choice(["ab", "aB", "Ba"])
            self.alpha.update("aAb")
            return self.vis("istring< %s >" % ", ".join(cch(c) for c in s), self.add("ISTRING", s))
        if k == "eof":
            return self.vis("eof", self.add("EOF_"))
        if k == "success":
            return self.vis("success", self.add("SUCCESS"))
        if k == "failure":
            return self.vis("failure", self.add("FAILURE"))
        if k == "eol":
            self.alpha.update("\n\r")
            return self.vis("eol", self.add("EOL"))
        if k == "eolf":
            self.alpha.update("\n")
            return self.vis("eolf", self.add("SOR", kids=(self.add("EOF_"), self.add("EOL"))))
        if k == "bytes":
            n = r.randint(0, 3)
            return self.vis("bytes< %d >" % n, self.add("BYTES", a0=n))
        if k == "bof":
            return self.vis("bof", self.add("BOF"))
        if k == "u8any":
            self.alpha.update("\xe2\x82\xac")
            return self.vis("utf8::any", self.add("U8ANY"))
        if k == "u8one":
            self.alpha.update("\xe2\x82\xac")
            return self.vis("utf8::one< 0x20AC, 0x0A >", self.add("U8ONE", "\xe2\x82\xac\n"))
        if k == "u8range":
            self.alpha.update("\xe2\x82\xac")
            return self.vis("utf8::range< 0x0A, 0x20AC >", self.add("U8RANGE", a0=0x0A, a1=0x20AC))
        if k == "u8notone":
            self.alpha.update("\xe2\x82\xac")
            return self.vis("utf8::not_one< 0x20AC >", self.add("U8NOTONE", "\xe2\x82\xac"))
        if k == "uint8_any":
            return self.vis("uint8::any", self.add("ANY"))
        if k == "uint8_one_nl":
            self.alpha.update("\n\r")
            return self.vis("uint8::one< 10, 13 >", self.add("ONE", "\n\r"))
        if k == "uint8_mask":
            self.alpha.update("\n\r")
            return self.vis("uint8::mask_one< 0xF0, 0x00 >", self.add("RANGE", "\x00\x0f"))
        if k == "one_cr":
            self.alpha.update("\r")
            return self.vis("one< '\\r' >", self.add("ONE", "\r"))
        if k == "not_one_a":
            self.alpha.update("a\n\r")
            return self.vis("not_one< 'a' >", self.add("NOTONE", "a"))
        if k == "range_ctl":
            self.alpha.update("\n\r")
            return self.vis("range< char( 1 ), char( 31 ) >", self.add("RANGE", "\x01\x1f"))
        if k == "not_range_ab":
            self.alpha.update("a\n\r")
            return self.vis("not_range< 'a', 'b' >", self.add("NOTRANGE", "ab"))
        if k == "ranges_nl":
            self.alpha.update("a\n\r")
            return self.vis("ranges< 'a', 'b', '\\n' >", self.add("RANGES", "ab\n"))
        if k == "string_nl":
            self.alpha.update("a\n\r")
            return self.vis("string< 'a', '\\n', '\\r' >", self.add("STRING", "a\n\r"))
        if k == "istring_nl":
            self.alpha.update("a\n")
            return self.vis("istring< '\\n', 'a' >", self.add("ISTRING", "\na"))
        if k == "bytes2":
            return self.vis("bytes< 2 >", self.add("BYTES", a0=2))
        if k == "pred_not":
            self.alpha.update("a\n")
            return self.vis("predicate_not< one< 'a' > >", self.add("NOTONE", "a"))
        if k == "pred_or":
            self.alpha.update("ab\n")
            return self.vis("predicates_or< one< 'a' >, one< '\\n' > >", self.add("ONE", "a\n"))
        if k == "pred_and":
            self.alpha.update("ab\n")
            return self.vis("predicates_and< not_one< 'a' >, predicate_not< one< 'b' > > >", self.add("NOTONE", "ab"))
        if k == "u8pred_not":
            self.alpha.update("a\n\xe2\x82\xac")
            return self.vis("utf8::predicate_not< utf8::one< 0x20AC > >", self.add("U8NOTONE", "\xe2\x82\xac"))
        if k == "rep_string":
            n = r.randint(0, 3)
            pat = r.choice(["a", "ab", "a\n"])
            self.alpha.update(pat)
            return self.vis("rep_string< %d, %s >" % (n, ", ".join(cch(c) for c in pat)), self.add("STRING", pat * n))
        if k == "unsigned_rule":
            self.alpha.update("01a")
            return self.vis("unsigned_rule", self.add("UNSIGNED_RULE"))
        if k == "signed_rule":
            self.alpha.update("-01")
            return self.vis("signed_rule", self.add("SIGNED_RULE"))
        if k == "maximum_rule":
            mx = r.choice([0, 1, 9, 10, 11, 100])
            self.alpha.update("019")
            return self.vis("maximum_rule< unsigned char, %d >" % mx, self.add("MAXIMUM_RULE", a0=0, a1=mx, a2=8))
        if k == "maxrule5":
            self.alpha.update("037")
            return self.vis("maximum_rule< unsigned char, 5 >", self.add("MAXIMUM_RULE", a0=0, a1=5, a2=8))
        if k == "rep_one_min_max":
            lo = r.randint(0, 2)
            hi = lo + r.randint(0, 2)
            if hi == 0:
                hi = 1
            self.alpha.update("0a")
            return self.vis("rep_one_min_max< %d, %d, '0' >" % (lo, hi), self.add("REP_ONE_MIN_MAX", "0", a0=lo, a1=hi))
        if k == "raw_string":
            self.alpha.update("[=]a")
            return self.vis("raw_string< '[', '=', ']' >", self.add("RAWSTRING", "[=]"))
        if k == "require":
            n = r.randint(0, 4)
            return self.vis("require< %d >" % n, self.add("REQUIRE", a0=n))
        if k == "everything":
            # documented: equivalent to until< eof, any >
            body = self.add("SEQ", kids=(self.add("NOTAT", kids=(self.add("EOF_"),)), self.add("ANY")))
            return self.vis("everything", self.add("SEQ", kids=(self.add("STAR", kids=(body,)), self.add("EOF_"))))
        if k == "discard":
            self.features |= GF_DISCARD
            return self.vis("discard", self.add("DISCARD"))
        raise Exception(k)

    # ---- gadgets of the context matrix
    def gadget(self, name):
        """returns (cpp, id). All over alphabet {a,b,c}."""
        self.alpha.update("abc")
        a = lambda: self.atom("one", "a")
        b = lambda: self.atom("one", "b")
        if name == "consume_then_fail":        # matches 'ab'; on 'ax' consumes 'a' then fails
            return self.op("seq", [a(), b()])
        if name == "deep_consume_then_fail":
            return self.op("seq", [a(), self.op("seq", [self.atom("one", "a"), b()])])
        if name == "empty_success":
            return self.atom("success")
        if name == "empty_failure":
            return self.atom("failure")
        if name == "consume":
            return a()
        if name == "nullable":
            return self.op("opt", [a()])
        if name == "raising":                  # consumes 'a' then must see 'z'
            self.features |= GF_EXC
            return self.op("seq", [a(), self.op("must", [self.atom("one", "z")])])
        if name == "star_ab":
            return self.op("star", [self.op("seq", [a(), b()])])
        raise Exception(name)

    # ---- operators: name, list of (cpp, id) -> (cpp, id) wrapped visible
    def op(self, k, xs, nums=()):
        g = self
        cpps = [x[0] for x in xs]
        ids = [x[1] for x in xs]

        def must_(x):
            return g.add("SOR", kids=(x[1], g.add("RAISE", vid=g.tu.vid(x[0]))))

        def pad_(x, p1, p2):
            return g.add("SEQ", kids=(g.add("STAR", kids=(p1,)), x, g.add("STAR", kids=(p2,))))

        def one_or_seq(ids_):
            return ids_[0] if len(ids_) == 1 else g.seq_of(ids_)

        def tmplargs(*pre):
            return ", ".join([str(p) for p in pre] + cpps)

        if k in ("seq", "sor"):
            return g.vis("%s< %s >" % (k, tmplargs()), g.add(k.upper(), kids=ids))
        if k in ("star", "plus", "opt", "at", "not_at"):
            K = {"star": "STAR", "plus": "PLUS", "opt": "OPT", "at": "AT", "not_at": "NOTAT"}[k]
            return g.vis("%s< %s >" % (k, tmplargs()), g.add(K, kids=(one_or_seq(ids),)))
        if k == "until":
            g.features |= GF_PRED_DUP
            r = ids[0]
            if len(ids) == 1:
                body = g.add("SEQ", kids=(g.add("NOTAT", kids=(r,)), g.add("ANY")))
            else:
                body = g.add("SEQ", kids=[g.add("NOTAT", kids=(r,))] + ids[1:])
            return g.vis("until< %s >" % tmplargs(), g.add("SEQ", kids=(g.add("STAR", kids=(body,)), r)))
        if k == "rep":
            n = nums[0]
            s = one_or_seq(ids) if ids else g.add("SUCCESS")
            core = g.add("SUCCESS") if n == 0 else g.add("SEQ", kids=[s] * n)
            return g.vis("rep< %s >" % tmplargs(n), core)
        if k == "rep_min":
            n = nums[0]
            s = one_or_seq(ids)
            return g.vis("rep_min< %s >" % tmplargs(n), g.add("SEQ", kids=[s] * n + [g.add("STAR", kids=(s,))]))
        if k in ("rep_max", "rep_min_max"):
            # the expansion ends in not_at< R... > over the same sub-rule: "equivalent" is only defined for side-effect-free R
            g.features |= GF_PRED_DUP
            a, b = (0, nums[0]) if k == "rep_max" else nums
            s = one_or_seq(ids)
            kids = [s] * a + [g.add("OPT", kids=(s,))] * (b - a) + [g.add("NOTAT", kids=(s,))]
            return g.vis("%s< %s >" % (k, tmplargs(*nums)), g.add("SEQ", kids=kids))
        if k == "rep_opt":
            n = nums[0]
            s = one_or_seq(ids)
            core = g.add("SUCCESS") if n == 0 else g.add("SEQ", kids=[g.add("OPT", kids=(s,))] * n)
            return g.vis("rep_opt< %s >" % tmplargs(n), core)
        if k == "if_then_else":
            g.features |= GF_PRED_DUP
            r, s, t = ids
            return g.vis("if_then_else< %s >" % tmplargs(), g.add("SOR", kids=(g.add("SEQ", kids=(r, s)), g.add("SEQ", kids=(g.add("NOTAT", kids=(r,)), t)))))
        if k == "list":
            r, s = ids[0], ids[1]
            sep = s if len(ids) == 2 else pad_(s, ids[2], ids[2])
            return g.vis("list< %s >" % tmplargs(), g.add("SEQ", kids=(r, g.add("STAR", kids=(g.add("SEQ", kids=(sep, r)),)))))
        if k == "list_tail":
            r, s = ids[0], ids[1]
            if len(ids) == 2:
                lst = g.add("SEQ", kids=(r, g.add("STAR", kids=(g.add("SEQ", kids=(s, r)),))))
                return g.vis("list_tail< %s >" % tmplargs(), g.add("SEQ", kids=(lst, g.add("OPT", kids=(s,)))))
            p = ids[2]
            lst = g.add("SEQ", kids=(r, g.add("STAR", kids=(g.add("SEQ", kids=(pad_(s, p, p), r)),))))
            return g.vis("list_tail< %s >" % tmplargs(), g.add("SEQ", kids=(lst, g.add("OPT", kids=(g.add("SEQ", kids=(g.add("STAR", kids=(p,)), s)),)))))
        if k == "pad":
            r, s = ids[0], ids[1]
            t = ids[2] if len(ids) > 2 else s
            return g.vis("pad< %s >" % tmplargs(), pad_(r, s, t))
        if k == "pad_opt":
            r, p = ids
            return g.vis("pad_opt< %s >" % tmplargs(), g.add("SEQ", kids=(g.add("STAR", kids=(p,)), g.add("OPT", kids=(g.add("SEQ", kids=(r, g.add("STAR", kids=(p,)))),)))))
        if k == "separated_seq":
            # separated_seq< S, R1, ..., Rn > == seq< R1, S, R2, S, ..., Rn >
            sep = ids[0]
            kids = []
            for i, r_ in enumerate(ids[1:]):
                if i:
                    kids.append(sep)
                kids.append(r_)
            return g.vis("separated_seq< %s >" % tmplargs(), g.add("SEQ", kids=kids) if kids else g.add("SUCCESS"))
        if k == "if_then_chain":
            # if_then< C1, T1 >::else_if_then< C2, T2 >[::else_if_then< C3, T3 >]::else_then< E > == nested if_then_else
            g.features |= GF_PRED_DUP
            conds = ids[0:-1:2]
            thens = ids[1:-1:2]
            els = ids[-1]
            core = els
            for c_, t_ in reversed(list(zip(conds, thens))):
                core = g.add("SOR", kids=(g.add("SEQ", kids=(c_, t_)), g.add("SEQ", kids=(g.add("NOTAT", kids=(c_,)), core))))
            cpp = "tao::pegtl::if_then< %s, %s >" % (cpps[0], cpps[1])
            for i in range(1, len(conds)):
                cpp += "::else_if_then< %s, %s >" % (cpps[2 * i], cpps[2 * i + 1])
            cpp += "::else_then< %s >" % cpps[-1]
            # the resulting type is an internal::if_then_else: no invocation of its own; wrap it so that the model sees one rule
            return g.vis("seq< %s >" % cpp, core)
        if k == "minus":
            g.features |= GF_LAZY_UNSAFE
            m, s = ids
            return g.vis("minus< %s >" % tmplargs(), g.add("REMATCH", kids=(m, g.add("NOTAT", kids=(g.add("SEQ", kids=(s, g.add("EOF_"))),)))))
        if k == "rematch":
            g.features |= GF_LAZY_UNSAFE
            return g.vis("rematch< %s >" % tmplargs(), g.add("REMATCH", kids=ids))
        if k == "partial":
            return g.vis("partial< %s >" % tmplargs(), g.add("PARTIAL", kids=ids))
        if k == "star_partial":
            return g.vis("star_partial< %s >" % tmplargs(), g.add("STARPARTIAL", kids=ids))
        if k == "strict":
            g.features |= GF_PRED_DUP
            return g.vis("strict< %s >" % tmplargs(), g.add("SOR", kids=(g.add("NOTAT", kids=(ids[0],)), g.seq_of(ids))))
        if k == "star_strict":
            g.features |= GF_PRED_DUP
            return g.vis("star_strict< %s >" % tmplargs(), g.add("SEQ", kids=(g.add("STAR", kids=(one_or_seq(ids),)), g.add("NOTAT", kids=(ids[0],)))))
        # ---- exceptions
        if k == "must":
            g.features |= GF_EXC
            return g.vis("must< %s >" % tmplargs(), g.seq_of([must_(x) for x in xs]))
        if k == "if_must":
            g.features |= GF_EXC
            return g.vis("if_must< %s >" % tmplargs(), g.add("SEQ", kids=[ids[0]] + [must_(x) for x in xs[1:]]))
        if k == "opt_must":
            g.features |= GF_EXC
            return g.vis("opt_must< %s >" % tmplargs(), g.add("OPT", kids=(g.add("SEQ", kids=[ids[0]] + [must_(x) for x in xs[1:]]),)))
        if k == "star_must":
            g.features |= GF_EXC
            return g.vis("star_must< %s >" % tmplargs(), g.add("STAR", kids=(g.add("SEQ", kids=[ids[0]] + [must_(x) for x in xs[1:]]),)))
        if k == "list_must":
            g.features |= GF_EXC
            r, s = ids[0], ids[1]
            sep = s if len(ids) == 2 else pad_(s, ids[2], ids[2])
            return g.vis("list_must< %s >" % tmplargs(), g.add("SEQ", kids=(r, g.add("STAR", kids=(g.add("SEQ", kids=(sep, must_(xs[0]))),)))))
        if k == "if_must_else":
            g.features |= GF_EXC | GF_PRED_DUP
            r, s, t = ids
            return g.vis("if_must_else< %s >" % tmplargs(), g.add("SOR", kids=(g.add("SEQ", kids=(r, must_(xs[1]))), g.add("SEQ", kids=(g.add("NOTAT", kids=(r,)), must_(xs[2]))))))
        if k == "raise":
            g.features |= GF_EXC
            return g.vis("tao::pegtl::raise< %s >" % cpps[0], g.add("RAISE", vid=g.tu.vid(cpps[0])))
        if k.startswith("try_catch"):
            # nums[0]: catch mask (1 parse_error, 2 foreign std, 4 alien); single sub-rule for *_raise_nested so that the blamed name is registered
            g.features |= GF_EXC
            mask = nums[0]
            if mask & 4:
                g.features |= GF_CATCH_ALL
            nested = k.endswith("raise_nested")
            body = one_or_seq(ids)
            targ = ""
            if "type" in k:
                targ = "mon::foreign, " if mask == 2 else "tao::pegtl::parse_error, "
            blame = g.tu.vid(cpps[0]) if nested else 0
            return g.vis("%s< %s%s >" % (k, targ, ", ".join(cpps)), g.add("TRY", kids=(body,), a0=mask, a1=1 if nested else 0, a2=blame))
        # ---- action / control related
        if k == "enable":
            return g.vis("enable< %s >" % tmplargs(), g.add("ENABLE", kids=(one_or_seq(ids),)))
        if k == "disable":
            return g.vis("disable< %s >" % tmplargs(), g.add("DISABLE", kids=(one_or_seq(ids),)))
        if k == "raw_string_c":
            # raw_string with content rules, long brackets of level 0 only (the cyc alphabet has no marker character):
            # opening bracket, optional eol, Contents... repeated until the closing bracket is ahead, closing bracket
            g.alpha.update("[]ab")
            close = lambda: g.add("STRING", "]]")
            body = g.add("SEQ", kids=[g.add("NOTAT", kids=(close(),))] + ids)
            core = g.add("SEQ", kids=(g.add("STRING", "[["), g.add("OPT", kids=(g.add("EOL"),)), g.add("STAR", kids=(body,)), close()))
            return g.vis("raw_string< '[', '=', ']', %s >" % ", ".join(cpps), core)
        if k == "state":
            g.features |= GF_STATE
            n = nums[0]
            return g.vis("state< mon::st< %d >, %s >" % (n, ", ".join(cpps)), g.add("STATE", kids=(one_or_seq(ids),), a0=n))
        if k == "action_b":
            g.features |= GF_STATE
            return g.vis("action< mon::actB, %s >" % ", ".join(cpps), g.add("ACTFAM", kids=(one_or_seq(ids),), a0=1))
        if k == "control_b":
            g.features |= GF_STATE
            return g.vis("control< mon::ctlB, %s >" % ", ".join(cpps), g.add("CTLFAM", kids=(one_or_seq(ids),), a0=1))
        if k == "apply":
            g.features |= GF_ACT
            return g.vis("apply< %s >" % ", ".join("mon::cls< %d >" % i for i in nums), g.add("APPLY", ids=nums))
        if k == "apply0":
            g.features |= GF_ACT
            return g.vis("apply0< %s >" % ", ".join("mon::cls< %d >" % i for i in nums), g.add("APPLY0", ids=nums))
        if k == "if_apply":
            g.features |= GF_ACT
            return g.vis("if_apply< %s, %s >" % (cpps[0], ", ".join("mon::cls< %d >" % i for i in nums)), g.add("IFAPPLY", kids=(ids[0],), ids=nums))
        raise Exception("unknown op " + k)

    # ---- random expressions
    CORE_OPS = ["seq", "sor", "star", "plus", "opt", "at", "not_at"]
    CONV_OPS = ["separated_seq", "if_then_chain", "until", "until2", "rep", "rep_min", "rep_max", "rep_min_max", "rep_opt", "if_then_else", "list", "list3", "list_tail", "list_tail3",
                "pad", "pad3", "pad_opt", "minus", "rematch", "partial", "star_partial", "strict", "star_strict", "opt2", "star2", "plus2", "at2", "not_at2"]
    EXC_OPS = ["must", "must2", "if_must", "opt_must", "star_must", "list_must", "if_must_else", "raise", "tcrf", "tcrf", "tc_std_rf", "tc_any_rf", "tc_type_rf", "tcrn", "tc_any_rn"]
    ACT_OPS = ["enable", "disable", "apply", "apply0", "if_apply"]

    def expr(self, depth, avail):
        r = self.rnd
        if depth <= 0 or r.random() < 0.22:
            if avail and r.random() < 0.25:
                i = r.choice(avail)
                return (self.names[i], self.named_ids[i])
            if self.profile == "buf" and r.random() < 0.12:
                return self.atom("require")
            if self.profile == "buf" and r.random() < 0.25:
                return self.atom(r.choice(["rep_one_min_max", "unsigned_rule", "maximum_rule", "raw_string", "eol", "string", "istring", "bytes", "u8any", "u8one"]))
            if self.profile == "contrib" and r.random() < 0.7:
                return self.atom(r.choice(["unsigned_rule", "signed_rule", "maximum_rule", "rep_one_min_max", "raw_string", "raw_string", "unsigned_rule", "pred_not", "pred_or", "pred_and", "rep_string"]))
            if self.profile in ("buf", "conv") and r.random() < 0.04:
                return self.atom("everything")
            return self.atom()
        ops = list(self.CORE_OPS)
        p = self.profile
        if p in ("conv", "tree", "buf", "contrib"):
            ops += self.CONV_OPS
        if p in ("exc", "tree"):
            ops += self.EXC_OPS + ["until", "list", "pad", "rep_min_max", "partial"]
        if p in ("act",):
            ops += self.ACT_OPS + ["until", "list", "rep", "if_then_else", "opt2", "star2"]
        if p in ("state",):
            ops += ["state", "state", "state2", "action_b", "control_b", "enable", "disable", "must", "tcrf", "list", "until", "opt2", "if_apply"]
        k = r.choice(ops)
        e = lambda: self.expr(depth - 1, avail)
        n2 = lambda lo, hi: r.randint(lo, hi)
        if k in ("seq", "sor"):
            return self.op(k, [e() for _ in range(n2(2, 3))])
        if k in ("star", "plus", "opt", "at", "not_at"):
            return self.op(k, [e()])
        if k in ("opt2", "star2", "plus2", "at2", "not_at2"):
            return self.op(k[:-1], [e(), e()])
        if k == "until":
            return self.op("until", [e()])
        if k == "until2":
            return self.op("until", [e(), e()])
        if k == "rep":
            return self.op("rep", [e()], (n2(0, 3),))
        if k == "rep_min":
            return self.op("rep_min", [e()], (n2(0, 3),))
        if k == "rep_max":
            return self.op("rep_max", [e()], (n2(0, 3),))
        if k == "rep_min_max":
            a = n2(0, 2)
            return self.op("rep_min_max", [e()], (a, a + n2(0, 2)))
        if k == "rep_opt":
            # rep_opt< 0, R > with a single rule does not compile on the pinned tree (ambiguous partial specialisations)
            if self.rnd.random() < 0.3:
                return self.op("rep_opt", [e(), e()], (n2(0, 2),))
            return self.op("rep_opt", [e()], (n2(1, 3),))
        if k in ("if_then_else", "if_must_else"):
            return self.op(k, [e(), e(), e()])
        if k in ("list", "list_tail", "list_must", "pad", "minus", "pad_opt"):
            return self.op(k, [e(), e()])
        if k == "separated_seq":
            return self.op(k, [e() for _ in range(n2(2, 4))])
        if k == "if_then_chain":
            return self.op(k, [e() for _ in range(2 * n2(2, 3) + 1)])
        if k in ("list3", "list_tail3", "pad3"):
            return self.op(k[:-1], [e(), e(), e()])
        if k == "rematch":
            return self.op(k, [e() for _ in range(n2(2, 3))])
        if k in ("partial", "star_partial", "strict", "star_strict"):
            return self.op(k, [e() for _ in range(n2(1, 3))])
        if k == "must":
            return self.op("must", [e()])
        if k == "must2":
            return self.op("must", [e(), e()])
        if k in ("if_must", "opt_must", "star_must"):
            return self.op(k, [e() for _ in range(n2(2, 3))])
        if k == "raise":
            return self.op("raise", [self.atom("one", "ab")])
        if k == "tcrf":
            return self.op("try_catch_return_false", [e() for _ in range(n2(1, 2))], (1,))
        if k == "tc_std_rf":
            return self.op("try_catch_std_return_false", [e()], (3,))
        if k == "tc_any_rf":
            return self.op("try_catch_any_return_false", [e()], (7,))
        if k == "tc_type_rf":
            m = r.choice([1, 2])
            return self.op("try_catch_type_return_false", [e()], (m,))
        if k == "tcrn":
            return self.op("try_catch_raise_nested", [e()], (1,))
        if k == "tc_any_rn":
            return self.op("try_catch_any_raise_nested", [e()], (7,))
        if k in ("enable", "disable"):
            return self.op(k, [e() for _ in range(n2(1, 2))])
        if k == "state":
            return self.op("state", [e()], (r.randint(1, 3),))
        if k == "state2":
            return self.op("state", [e(), e()], (r.randint(1, 3),))
        if k in ("action_b", "control_b"):
            return self.op(k, [e() for _ in range(n2(1, 2))])
        if k in ("apply", "apply0"):
            return self.op(k, [], tuple(r.randint(0, 5) for _ in range(n2(1, 2))))
        if k == "if_apply":
            return self.op(k, [e()], tuple(r.randint(0, 5) for _ in range(n2(1, 2))))
        raise Exception(k)

    def finish_named(self, i, cpp, cid):
        # outermost operator of a named rule's body has no invocation of its own
        n = self.nodes[cid]
        if n[0] == "VIS":
            cid = n[2][0]
        elif n[0] == "NAMED":
            cid = self.add("SEQ", kids=(cid, self.vis("success", self.add("SUCCESS"))[1]))
            cpp = "seq< %s, success >" % cpp
        self.bodies.append((cpp, cid))

    def random_grammar(self):
        r = self.rnd
        nn = r.randint(2, 4)
        self.names = ["%s::R%d" % (self.gname, i) for i in range(nn)]
        self.named_ids = [self.add("NAMED", vid=self.tu.vid(n)) for n in self.names]
        if self.profile == "exc":
            # Rule::error_message: the documented way to give a rule its own message with the normal control
            rc = random.Random("custom-%s-%d" % (self.gname, nn))
            for n in self.names:
                if rc.random() < 0.35:
                    self.tu.custom[self.tu.vid(n)] = "custom message of %s" % n.split("::")[-1]
        for i in range(nn):
            cpp, cid = self.expr(3, list(range(i)))
            self.finish_named(i, cpp, cid)
            if r.random() < 0.3:
                # guarded recursion: seq< one<'a'>, opt< Rj >, body >
                j = r.randrange(nn)
                bcpp, bcid = self.bodies.pop()
                a = self.atom("one", "a")
                o = self.vis("opt< %s >" % self.names[j], self.add("OPT", kids=(self.named_ids[j],)))
                inner = self.vis(bcpp, bcid)
                self.bodies.append(("seq< one< 'a' >, opt< %s >, %s >" % (self.names[j], bcpp), self.add("SEQ", kids=(a[1], o[1], inner[1]))))
        self.close()

    ATOMS_POS = ["any", "one_nl", "one_cr", "not_one_a", "range_ctl", "not_range_ab", "ranges_nl", "string_nl", "istring_nl", "bytes2", "eol", "eolf",
                 "u8any", "u8one", "u8range", "u8notone", "uint8_any", "uint8_one_nl", "uint8_mask", "raw_string", "rep_one_min_max",
                 "pred_not", "pred_or", "pred_and", "u8pred_not", "rep_string"]

    def atoms_grammar(self, i):
        """position discipline of single rules: star< sor< A1, A2, any > > consumes everything through the atoms under test"""
        r = self.rnd
        a1 = self.ATOMS_POS[i % len(self.ATOMS_POS)]
        a2 = r.choice(self.ATOMS_POS)
        self.alpha.update("\n\r")
        mode = r.randint(0, 2)
        x1, x2 = self.atom(a1), self.atom(a2)
        if mode == 0:
            body = self.op("star", [self.op("sor", [x1, x2, self.atom("any")])])
        elif mode == 1:
            body = self.op("seq", [self.op("until", [x1]), self.op("star", [self.op("sor", [x2, self.atom("any")])])])
        else:
            body = self.op("star", [self.op("sor", [self.op("seq", [x1, x2]), self.atom("any")])])
        self.cell = "atoms:%s" % a1
        self.single(body[0], body[1])

    def buf_grammar(self):
        """named rules without discard, then a top rule that discards only between top-level parts (documented-safe points)"""
        r = self.rnd
        nn = r.randint(1, 3)
        self.names = ["%s::R%d" % (self.gname, i) for i in range(nn)] + ["%s::T" % self.gname]
        self.named_ids = [self.add("NAMED", vid=self.tu.vid(n)) for n in self.names]
        for i in range(nn):
            cpp, cid = self.expr(3, list(range(i)))
            self.finish_named(i, cpp, cid)
        avail = list(range(nn))
        parts = [self.expr(2, avail), self.atom("discard"), self.expr(2, avail), self.atom("discard")]
        if r.random() < 0.7:
            it = self.op("seq", [self.expr(2, avail), self.atom("discard")])
            self.tu.no_action.add(self.tu.vid(it[0]))
            st = self.op("star", [it])
            self.tu.no_action.add(self.tu.vid(st[0]))
            parts.append(st)
        parts.append(self.expr(2, avail))
        top = self.op("seq", parts)
        self.tu.no_action.add(self.tu.vid(top[0]))
        self.tu.no_action.add(self.tu.vid(self.names[nn]))
        self.tu.no_action.add(self.tu.vid("discard"))
        self.finish_named(nn, top[0], top[1])
        self.close()

    def close(self):
        for i, nid in enumerate(self.named_ids):
            k = self.nodes[nid]
            self.nodes[nid] = ("NAMED", "", (self.bodies[i][1],), k[3], 0, 0, 0, ())
        self.top = self.named_ids[-1]
        if len(self.alpha) < 2:
            self.alpha.update("ab")
        # one byte mentioned by no atom
        for c in "cxyz":
            if c not in self.alpha:
                self.alpha.add(c)
                break
        al = sorted(self.alpha)
        keep = "01[=]-" if self.profile == "contrib" else ("\n\r\xe2\x82\xac" if self.profile == "atoms" else "ab\n")
        while len(al) > (6 if self.profile in ("contrib", "atoms") else 5):
            al.remove(self.rnd.choice([c for c in al if c not in keep] or al))
        self.alphabet = "".join(al)

    def single(self, cpp, cid, extra_named=()):
        """grammar consisting of one named rule whose body is the given expression"""
        self.names = self.names + ["%s::R0" % self.gname]
        self.named_ids = self.named_ids + [self.add("NAMED", vid=self.tu.vid(self.names[-1]))]
        self.finish_named(len(self.names) - 1, cpp, cid)
        self.close()

    def named_with_message(self, x):
        """wraps the expression into a named rule N that has a static error_message member; returns (cpp, id) of N"""
        name = "%s::N%d" % (self.gname, len(self.names))
        self.names.append(name)
        nid = self.add("NAMED", vid=self.tu.vid(name))
        self.named_ids.append(nid)
        self.tu.custom[self.tu.vid(name)] = "custom message of %s" % name.split("::")[-1]
        self.finish_named(len(self.names) - 1, x[0], x[1])
        return (name, nid)

    def text(self):
        return "; ".join("%s : %s" % (n.split("::")[-1], b[0]) for n, b in zip(self.names, self.bodies))


# ---------------------------------------------------------------------- context matrix
# (template, arity, nums, property charged, extra)
CTX_TEMPLATES = [
    ("seq", 2, (), "C01"), ("sor", 2, (), "C01"), ("star", 1, (), "C01"), ("plus", 1, (), "C01"), ("opt", 1, (), "C01"), ("at", 1, (), "C01"), ("not_at", 1, (), "C01"),
    ("star", 2, (), "C01"), ("plus", 2, (), "C01"), ("opt", 2, (), "C01"),
    ("until", 1, (), "C09"), ("until", 2, (), "C09"), ("rep", 1, (2,), "C09"), ("rep_min", 1, (1,), "C09"), ("rep_max", 1, (2,), "C09"), ("rep_min_max", 1, (1, 2), "C09"),
    ("rep_opt", 1, (2,), "C09"), ("if_then_else", 3, (), "C09"), ("list", 2, (), "C09"), ("list", 3, (), "C09"), ("list_tail", 2, (), "C09"), ("list_tail", 3, (), "C09"),
    ("pad", 2, (), "C09"), ("pad", 3, (), "C09"), ("pad_opt", 2, (), "C09"), ("minus", 2, (), "C09"), ("rematch", 2, (), "C09"), ("rematch", 3, (), "C09"),
    ("separated_seq", 3, (), "C09"), ("if_then_chain", 5, (), "C09"), ("if_then_chain", 7, (), "C09"),
    ("partial", 2, (), "C09"), ("star_partial", 2, (), "C09"), ("strict", 2, (), "C09"), ("star_strict", 2, (), "C09"),
    ("must", 1, (), "C09"), ("must", 2, (), "C09"), ("if_must", 2, (), "C09"), ("if_must", 3, (), "C09"), ("opt_must", 2, (), "C09"), ("star_must", 2, (), "C09"),
    ("list_must", 2, (), "C09"), ("list_must", 3, (), "C09"), ("if_must_else", 3, (), "C09"),
    ("try_catch_return_false", 1, (1,), "C05"), ("try_catch_std_return_false", 1, (3,), "C05"), ("try_catch_any_return_false", 1, (7,), "C05"),
    ("try_catch_type_return_false", 1, (1,), "C05"), ("try_catch_raise_nested", 1, (1,), "C05"), ("try_catch_any_raise_nested", 1, (7,), "C05"),
    ("enable", 1, (), "C04"), ("disable", 1, (), "C04"), ("if_apply", 1, (0, 2), "C04"),
    # the rule that is blamed carries its own error_message (must< N >, raise< N >, try_catch_*_raise_nested< N >)
    ("must_msg", 1, (), "C05"), ("try_catch_raise_nested_msg", 1, (1,), "C05"), ("try_catch_any_raise_nested_msg", 1, (7,), "C05"),
    ("try_catch_std_raise_nested_msg", 1, (3,), "C05"), ("if_must_msg", 2, (), "C05"),
    # if_apply with a vetoing class action (odd id), alone and mixed with void ones in both orders
    ("if_apply", 1, (1,), "C04"), ("if_apply", 1, (0, 1), "C04"), ("if_apply", 1, (1, 2), "C04"),
]
# filler matrix (profile ctxf): the positions beside the gadget hold something other than a plain one< c >: rules that never
# consume (eof, success, failure), a rule that always consumes (any), or the very same type as the gadget (dup: sor< X, X >,
# seq< X, X, X >) -- legal instantiations nobody writes by hand, where a combinator that special-cases a sub-rule by its
# type or by "cannot consume" reasoning goes wrong
CTXF_TEMPLATES = [
    ("seq", 2, (), "C01"), ("seq", 3, (), "C01"), ("sor", 2, (), "C01"), ("sor", 3, (), "C01"), ("star", 2, (), "C01"), ("plus", 2, (), "C01"), ("opt", 2, (), "C01"),
    ("at", 2, (), "C01"), ("not_at", 2, (), "C01"),
    ("if_then_else", 3, (), "C09"), ("until", 2, (), "C09"), ("list", 2, (), "C09"), ("pad", 2, (), "C09"), ("rep", 2, (2,), "C09"), ("rep_min_max", 2, (1, 2), "C09"),
    ("partial", 2, (), "C09"), ("strict", 2, (), "C09"), ("if_must", 2, (), "C09"), ("must", 2, (), "C09"), ("separated_seq", 3, (), "C09"),
]
CTXF_FILLERS = ["eof", "success", "failure", "any", "dup"]
CTXF_QUICK_GADGETS = ["consume_then_fail", "nullable"]
CTX_GADGETS = ["consume_then_fail", "deep_consume_then_fail", "empty_success", "empty_failure", "consume", "nullable", "raising", "star_ab"]
CTX_MODES = ["sor_first", "opt", "star", "seq_tail", "must", "top"]
CTX_QUICK_GADGETS = ["consume_then_fail", "deep_consume_then_fail", "nullable", "raising"]


def ctx_grammar(tu, gname, rnd, tmpl, arity, nums, prop, slot, gadget, mode=None, filler="one"):
    """one grammar per (template, slot, gadget): a leading selector byte '1'..'6' picks the context that forces the
    inherited rewind mode of C (the template instance under test)"""
    g = G(tu, gname, rnd, "ctx", prop)
    g.cell = "%s/%d:%d:%s" % (tmpl, arity, slot, gadget) + ("" if filler == "one" else ":" + filler)
    xs = []
    for i in range(arity):
        if i == slot or filler == "dup":
            xs.append(g.gadget(gadget))
        elif filler == "one":
            xs.append(g.atom("one", "bca"[(i + (1 if i > slot else 0)) % 3]))
        else:
            xs.append(g.atom(filler))
    if tmpl.endswith("_msg"):
        xs = [g.named_with_message(x) if (i == slot or tmpl != "if_must_msg") else x for i, x in enumerate(xs)]
        c = g.op(tmpl[:-4], xs, nums)
    else:
        c = g.op(tmpl, xs, nums)
    tail = lambda: g.op("seq", [g.atom("one", "c"), g.atom("eof")])
    modes = []
    for m in CTX_MODES:
        if m == "sor_first":
            # C is a non-last alternative: entered with rewinding required; the second alternative only matches a
            # two-byte rest from the original position
            e = g.op("sor", [c, g.op("seq", [g.atom("any"), g.atom("any"), g.atom("eof")])])
        elif m == "opt":
            e = g.op("seq", [g.op("opt", [c]), tail()])
        elif m == "star":
            e = g.op("seq", [g.op("star", [c]), tail()])
        elif m == "seq_tail":
            e = g.op("seq", [c, tail()])
        elif m == "must":
            g.features |= GF_EXC
            e = g.op("seq", [g.op("must", [c]), g.op("star", [g.atom("any")])])
        else:
            e = c
        modes.append(e)
    alts = []
    for i, e in enumerate(modes):
        sel = chr(ord("1") + i)
        alts.append(g.op("seq", [g.vis("one< '%s' >" % sel, g.add("ONE", sel)), e]))
    top = g.op("sor", alts)
    g.prefixes = "".join(chr(ord("1") + i) for i in range(len(modes)))
    g.single(top[0], top[1])
    return g


# ---------------------------------------------------------------------- cycles (C11)
CYC_EXTRA = [("raw_string_c", 1, (), "C11"), ("raw_string_c", 2, (), "C11"), ("state", 1, (1,), "C11"), ("action_b", 1, (), "C11"), ("control_b", 1, (), "C11"), ("if_apply", 1, (0,), "C11"),
             ("try_catch_std_raise_nested", 1, (3,), "C11"), ("try_catch_type_raise_nested", 1, (1,), "C11")]
CYC_FILLERS = ["nullable", "predicate", "failing", "consuming"]
CYC_VARIANTS = ["direct", "indirect", "guarded", "loopbody", "second_alt"]
NO_ANALYZE_TRAITS = ("strict", "star_strict")


def cyc_filler(g, kind, i):
    if kind == "nullable":
        return g.op("opt", [g.atom("one", "a")])
    if kind == "predicate":
        return g.op("at", [g.atom("one", "ab"[i % 2])])
    if kind == "failing":
        return g.atom("failure")
    return g.atom("one", "a")


def cyc_grammar(tu, gname, rnd, tmpl, arity, nums, slot, filler, variant):
    g = G(tu, gname, rnd, "cyc", "C11")
    g.cell = "%s/%d:%d:%s:%s" % (tmpl, arity, slot, filler, variant)
    g.alpha.update("ab")
    g.names = ["%s::B" % gname, "%s::A" % gname]
    g.named_ids = [g.add("NAMED", vid=tu.vid(n)) for n in g.names]
    A = (g.names[1], g.named_ids[1])
    B = (g.names[0], g.named_ids[0])
    if variant == "direct":
        rec = A
    elif variant == "indirect":
        rec = B
    elif variant == "guarded":
        rec = g.op("seq", [g.atom("one", "a"), A])
    elif variant == "second_alt":
        rec = g.op("sor", [cyc_filler(g, filler, 1), A])
    else:
        rec = g.op("opt", [g.atom("one", "b")]) if rnd.random() < 0.5 else g.op("at", [g.atom("any")])
    xs = []
    for i in range(arity):
        xs.append(rec if i == slot else cyc_filler(g, filler, i))
    c = g.op(tmpl, xs, nums)
    # B (used by the indirect variant; harmless otherwise)
    bb = g.op("seq", [g.op("opt", [g.atom("one", "b")]), A])
    g.finish_named(0, bb[0], bb[1])
    # A : sor< C, one<'b'> > would add an exit; keep A = C so that the cycle is the only way
    if rnd.random() < 0.5:
        c = g.op("sor", [c, g.atom("one", "b")])
    g.finish_named(1, c[0], c[1])
    g.close()
    return g


# progress cells (C11): a repetition whose body is a rule that the analysis takes to consume at least one byte whenever it
# succeeds (analyze_any_traits): analyze() certifies the grammar, so the real parser must terminate on every input
PROG_ATOMS = ["maxrule5", "maximum_rule", "unsigned_rule", "signed_rule", "rep_one_min_max", "raw_string", "u8any", "u8one", "bytes", "string", "istring", "eol",
              "pred_not", "pred_or", "rep_string", "one", "range", "uint8_mask", "any"]
PROG_LOOPS = ["star", "plus", "until_eof", "list_optsep", "star_optsep", "rep_min", "star_sor"]


def prog_grammar(tu, gname, rnd, atom, loop):
    g = G(tu, gname, rnd, "cyc", "C11")
    g.cell = "progress:%s:%s" % (atom, loop)
    x = g.atom(atom)
    sep = lambda: g.op("opt", [g.atom("one", ",")])
    g.alpha.update(",")
    if loop == "star":
        c = g.op("star", [x])
    elif loop == "plus":
        c = g.op("plus", [x])
    elif loop == "until_eof":
        c = g.op("until", [g.atom("eof"), x])
    elif loop == "list_optsep":
        c = g.op("list", [x, sep()])
    elif loop == "star_optsep":
        c = g.op("star", [x, sep()])
    elif loop == "rep_min":
        c = g.op("rep_min", [x], (1,))
    else:
        c = g.op("star", [g.op("sor", [x, g.atom("one", ",")])])
    top = g.op("seq", [c, g.op("star", [g.atom("any")])])
    g.single(top[0], top[1])
    return g


# name cells (C11, profile cycn): analyze() identifies rules by their demangled names (one code path per compiler). Two
# different unnamed instantiations that agree up to a punctuation character argument -- the first one harmless, the second
# one looping -- must stay two rules: the grammar has to be reported. Built with clang and with gcc.
NAME_CHARS = [";", ",", ">", "<", " ", ")", "]", "=", "'", "(", "[", ":", "&", "*"]


def name_grammar(tu, gname, rnd, ch, order):
    g = G(tu, gname, rnd, "cyc", "C11")
    g.cell = "names:%s:%d" % ({" ": "space", "'": "quote"}.get(ch, ch), order)
    g.alpha.update("ab" + ch)
    p = lambda: g.vis("one< %s >" % cch(ch), g.add("ONE", ch))
    harmless = g.op("star", [g.op("sor", [p(), g.atom("one", "b")])])
    looping = g.op("star", [g.op("sor", [p(), g.op("opt", [g.atom("one", "a")])])])
    word = g.op("plus", [g.atom("one", "a")])
    parts = [harmless, word, looping] if order == 0 else [g.op("opt", [harmless]), word, g.op("opt", [looping])]
    top = g.op("seq", parts + [g.atom("eof")])
    g.single(top[0], top[1])
    return g


def cyc_cells():
    cells = []
    for (tmpl, arity, nums, prop) in [t for t in CTX_TEMPLATES if not t[0].endswith("_msg")] + CYC_EXTRA:
        if tmpl in NO_ANALYZE_TRAITS:
            continue
        for slot in range(arity):
            for filler in CYC_FILLERS:
                for variant in CYC_VARIANTS:
                    # analyze_traits of if_apply< R, ... > and until< R > name R::rule_t: a direct self-reference there is an incomplete type (does not compile)
                    if variant == "direct" and slot == 0 and (tmpl == "if_apply" or (tmpl == "until" and arity == 1)):
                        continue
                    cells.append((tmpl, arity, nums, slot, filler, variant))
    return cells


def ctxf_cells():
    cells = []
    for (tmpl, arity, nums, prop) in CTXF_TEMPLATES:
        for filler in CTXF_FILLERS:
            for slot in range(1 if filler == "dup" else arity):
                for gadget in CTX_GADGETS:
                    cells.append((tmpl, arity, nums, prop, slot, gadget, filler))
    return cells


def ctx_cells():
    cells = []
    for (tmpl, arity, nums, prop) in CTX_TEMPLATES:
        for slot in range(arity):
            for gadget in CTX_GADGETS:
                cells.append((tmpl, arity, nums, prop, slot, gadget))
    return cells


# ---------------------------------------------------------------------- action kind tables
def kinds_table(tu, rnd, variant, profile):
    """variant 0: no actions; 1,2: void apply/apply0 mix; 3: void + veto; 4: void + veto + throwing;
    5: void + state/action/control switches attached through the action's match() (C13)"""
    ks = []
    for (vid, cpp, custom) in tu.regs:
        if vid in tu.no_action:
            ks.append(A_NONE)
        elif variant == 5:
            ks.append(rnd.choice([A_NONE, A_NONE, A_APPLY, A_APPLY, A_APPLY0, A_CHANGE_STATE, A_CHANGE_STATES, A_CHANGE_ACTION, A_CHANGE_ACTION_AND_STATE,
                                  A_CHANGE_CONTROL, A_ENABLE_ACTION, A_DISABLE_ACTION]))
        elif variant == 0:
            ks.append(A_NONE)
        elif variant in (1, 2):
            ks.append(rnd.choice([A_NONE, A_APPLY, A_APPLY0, A_APPLY]))
        elif variant == 3:
            ks.append(rnd.choice([A_NONE, A_APPLY, A_APPLY0, A_VETO, A_VETO0, A_APPLY]))
        else:
            ks.append(rnd.choice([A_NONE, A_APPLY, A_APPLY0, A_VETO, A_THROW, A_THROW_ALIEN, A_APPLY, A_VETO0]))
    return ks


def sels_table(tu, rnd, selv):
    """parse-tree selector per registry id: 0 not selected, 1 store, 2 remove_content, 3 fold_one, 4 discard_empty"""
    out = []
    for (vid, cpp, custom) in tu.regs:
        if selv == 0:
            out.append(1)
        elif selv == 1:
            out.append(rnd.choice([0, 1, 1]))
        elif selv == 2:
            out.append(rnd.choice([0, 1, 1, 2, 3, 4]))
        else:
            if tu.chain_sel:
                out.append(1 if vid in tu.chain_sel else 0)
            else:
                out.append(rnd.choice([0, 0, 1]))
    return out


def chain_grammar(tu, gname, rnd, k, top_selected, shape=0):
    """unselected chain of k named rules around a selected leaf: straddles parse_tree's is_leaf< 8 > optimisation.
    shape 0: the chain only succeeds or fails as a whole; shape 1: the top of the chain fails AFTER the deep selected leaf
    matched (C0 : seq< C1, one<'c'> >) and another alternative then succeeds, so that nodes of the abandoned branch would be
    left over if an unselected ancestor kept no bookkeeping."""
    g = G(tu, gname, rnd, "tree", "C12")
    g.cell = "chain:%d:%s:%d" % (k, "top" if top_selected else "notop", shape)
    g.names = ["%s::C%d" % (gname, i) for i in range(k + 1)] + ["%s::D" % gname, "%s::T" % gname]
    g.named_ids = [g.add("NAMED", vid=tu.vid(n)) for n in g.names]
    for i in range(k):
        if i == 0 and shape == 1:
            x = g.op("seq", [(g.names[1], g.named_ids[1]), g.atom("one", "c")])
            g.finish_named(0, x[0], x[1])
        else:
            g.bodies.append(("seq< %s >" % g.names[i + 1], g.add("SEQ", kids=(g.named_ids[i + 1],))))
    leaf = g.op("plus", [g.atom("one", "a")])
    g.finish_named(k, leaf[0], leaf[1])
    d = g.op("plus", [g.atom("one", "a")])
    g.finish_named(k + 1, d[0], d[1])
    C0 = (g.names[0], g.named_ids[0])
    D = (g.names[k + 1], g.named_ids[k + 1])
    if shape == 1:
        body = g.op("seq", [g.op("sor", [C0, D]), g.op("star", [g.atom("one", "b")]), g.op("opt", [C0])])
    else:
        body = g.op("seq", [C0, g.op("star", [g.atom("one", "b")]), g.op("opt", [C0])])
    g.finish_named(k + 2, body[0], body[1])
    tu.chain_sel.add(tu.vid(g.names[k]))
    tu.chain_sel.add(tu.vid(g.names[k + 1]))
    tu.chain_sel.add(tu.vid("one< 'b' >"))
    tu.chain_sel.add(tu.vid("one< 'a' >"))
    if top_selected:
        tu.chain_sel.add(tu.vid(g.names[k + 2]))
        tu.chain_sel.add(tu.vid(g.names[0]))
    g.close()
    return g


# ---------------------------------------------------------------------- emission
def emit_tu(tu, seed, variants=(0, 1, 2, 3, 4, 5)):
    rnd = random.Random(seed * 1000003 + 17)
    out = []
    out.append("// generated by gen/grammar_gen.py -- do not edit")
    out.append('#include "mon/corpus.hpp"')
    out.append("using namespace tao::pegtl;")
    for g in tu.grammars:
        out.append("namespace %s {" % g.gname)
        for n in g.names:
            out.append("  struct %s;" % n.split("::")[-1])
        for n, (cpp, _) in zip(g.names, g.bodies):
            msg = tu.custom.get(tu.reg.get(n))
            out.append("  struct %s : %s {%s};" % (n.split("::")[-1], cpp, (' static constexpr const char* error_message = "%s"; ' % cstr(msg)) if msg else ""))
        out.append("}")
    for (vid, cpp, custom) in tu.regs:
        out.append("template<> struct mon::rid< %s > { static constexpr int v = %d; };" % (cpp, vid))
    out.append("static const mon::reginfo REGS[] = {")
    for (vid, cpp, custom) in tu.regs:
        out.append("  { %d, tao::pegtl::demangle< %s >() }," % (vid, cpp))
    out.append("};")
    out.append("static const char* const CUSTOM[] = { %s };" % ", ".join(('"%s"' % cstr(tu.custom[v])) if v in tu.custom else "nullptr" for (v, _, c) in tu.regs))
    for v in variants:
        ks = kinds_table(tu, random.Random(seed * 31 + v), v, None)
        # family B never switches the action family again (change_action< B > inside B would not compile)
        rb = random.Random(seed * 37 + v)
        kb = [(rb.choice([A_APPLY, A_APPLY0, A_NONE]) if k in (A_CHANGE_ACTION, A_CHANGE_ACTION_AND_STATE) else k) for k in ks]
        out.append("#if MON_VARIANT == %d" % v)
        out.append("static constexpr signed char MON_KINDS[] = { %s };" % ", ".join(str(k) for k in ks))
        out.append("static constexpr signed char MON_KINDS_B[] = { %s };" % ", ".join(str(k) for k in kb))
        out.append("#endif")
    rm = random.Random(seed * 41 + 7)
    mif = [('"must_if message %d"' % vid) if rm.random() < 0.2 else "nullptr" for (vid, cpp, custom) in tu.regs]
    out.append("static constexpr const char* MON_MIF[] = { %s };" % ", ".join(mif))
    out.append("#ifndef MON_SELV")
    out.append("#define MON_SELV 0")
    out.append("#endif")
    for v in range(4):
        ss = sels_table(tu, random.Random(seed * 131 + v), v)
        out.append("#if MON_SELV == %d" % v)
        out.append("static constexpr signed char MON_SELS[] = { %s };" % ", ".join(str(k) for k in ss))
        out.append("#endif")
    out.append('#include "mon/tu.hpp"')
    for g in tu.grammars:
        out.append("namespace %s {" % g.gname)
        out.append("  static const ref::node nodes[] = {")
        for (kind, arg, kids, vid, a0, a1, a2, ids) in g.nodes:
            out.append('    { ref::%s, std::string_view( "%s", %d ), { %s }, %d, %d, %d, %d, { %s } },' % (kind, cstr(arg), len(arg), ", ".join(str(k) for k in kids), vid, a0, a1, a2, ", ".join(str(i) for i in ids)))
        out.append("  };")
        out.append("}")
    out.append("static const mon::grammar GS[] = {")
    for g in tu.grammars:
        salt = rnd.randrange(1 << 30)
        out.append('  { "%s", "%s", "%s", "%s", "%s", %s::nodes, sizeof( %s::nodes ) / sizeof( %s::nodes[ 0 ] ), %d, "%s", %d, "%s", MON_KINDS, MON_KINDS_B, MON_MIF, MON_SELS, %du, %du, &mon::run_entry< %s >, MON_ANALYZE_ENTRY( %s ) },'
                   % (g.gname, cstr(g.text()), g.profile, cstr(g.cell), g.prop, g.gname, g.gname, g.gname, g.top, cstr(g.alphabet), len(g.alphabet), cstr(g.prefixes), salt, g.features, g.names[-1], g.names[-1]))
    out.append("};")
    out.append("int main( int argc, char** argv ) {")
    out.append("  mon::set_registry( REGS, sizeof( REGS ) / sizeof( REGS[ 0 ] ), CUSTOM );")
    out.append("  return mon::corpus_main( argc, argv, GS, sizeof( GS ) / sizeof( GS[ 0 ] ), mon::CONFIG );")
    out.append("}")
    return "\n".join(out) + "\n"


def make_tus(profile, seed, count, per_tu=10, prop=None):
    """returns list of (tu_name, source text, n grammars)"""
    rnd = random.Random("%s-%d" % (profile, seed))
    tus = []
    if profile in ("ctx", "ctxf"):
        cells = ctx_cells() if profile == "ctx" else ctxf_cells()
        if count:
            # quick tier: every (template, slot) with the gadgets that matter most for rewind-mode bugs
            cells = [c for c in cells if c[5] in (CTX_QUICK_GADGETS if profile == "ctx" else CTXF_QUICK_GADGETS)]
        rnd.shuffle(cells)
        gi = 0
        for i in range(0, len(cells), per_tu):
            tu = TU()
            for cellspec in cells[i:i + per_tu]:
                tmpl, arity, nums, cprop, slot, gadget = cellspec[:6]
                g = ctx_grammar(tu, "g%d" % gi, rnd, tmpl, arity, nums, cprop, slot, gadget, filler=(cellspec[6] if len(cellspec) > 6 else "one"))
                tu.grammars.append(g)
                gi += 1
            tus.append(("%s-%d-%d" % (profile, seed, i // per_tu), emit_tu(tu, seed * 977 + i), len(tu.grammars)))
        return tus
    if profile == "cyc":
        cells = cyc_cells()
        rnd.shuffle(cells)
        if count and count < len(cells):
            cells = cells[:count]
        cells = [("prog", a, l) for a in PROG_ATOMS for l in PROG_LOOPS] + cells
        gi = 0
        for i in range(0, len(cells), per_tu):
            tu = TU()
            for cellspec in cells[i:i + per_tu]:
                if cellspec[0] == "prog":
                    tu.grammars.append(prog_grammar(tu, "g%d" % gi, rnd, cellspec[1], cellspec[2]))
                else:
                    (tmpl, arity, nums, slot, filler, variant) = cellspec
                    tu.grammars.append(cyc_grammar(tu, "g%d" % gi, rnd, tmpl, arity, nums, slot, filler, variant))
                gi += 1
            tus.append(("cyc-%d-%d" % (seed, i // per_tu), emit_tu(tu, seed * 977 + i), len(tu.grammars)))
        return tus
    if profile == "cycn":
        tu = TU()
        gi = 0
        for ch in NAME_CHARS:
            for order in (0, 1):
                tu.grammars.append(name_grammar(tu, "g%d" % gi, rnd, ch, order))
                gi += 1
        return [("cycn-%d-0" % seed, emit_tu(tu, seed * 977), len(tu.grammars))]
    if profile == "chain":
        gi = 0
        specs = [(k, t, sh) for sh in (0, 1) for k in (5, 6, 7, 8, 9, 10, 11, 12) for t in (False, True)]
        for i in range(0, len(specs), 8):
            tu = TU()
            for (k, t, sh) in specs[i:i + 8]:
                tu.grammars.append(chain_grammar(tu, "g%d" % gi, rnd, k, t, sh))
                gi += 1
            tus.append(("chain-%d-%d" % (seed, i // 8), emit_tu(tu, seed * 977 + i), len(tu.grammars)))
        return tus
    default_prop = {"core": "C01", "conv": "C09", "exc": "C05", "act": "C04", "tree": "C12", "buf": "C07", "state": "C13", "contrib": "C09", "atoms": "C06"}[profile]
    gi = 0
    for i in range(0, count, per_tu):
        tu = TU()
        for _ in range(min(per_tu, count - i)):
            g = G(tu, "g%d" % gi, rnd, profile, prop or default_prop)
            if profile == "buf":
                g.buf_grammar()
            elif profile == "atoms":
                g.atoms_grammar(gi)
            else:
                g.random_grammar()
            tu.grammars.append(g)
            gi += 1
        tus.append(("%s-%d-%d" % (profile, seed, i // per_tu), emit_tu(tu, seed * 977 + i), len(tu.grammars)))
    return tus


if __name__ == "__main__":
    import sys
    prof = sys.argv[1]
    seed = int(sys.argv[2])
    n = int(sys.argv[3])
    for name, text, ng in make_tus(prof, seed, n):
        print("// ==== %s (%d grammars)" % (name, ng))
        print(text)
