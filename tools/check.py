#!/usr/bin/env python3
"""Entry point of every registered check:  python3 tools/check.py <ID> [--tier quick|thorough] [--seed N]
VERIF_TIER / VERIF_SEED in the environment are honoured (command line wins).
--replay <file> re-runs the single case recorded in a replay file."""
import argparse
import json
import os
import subprocess
import sys
import time

sys.path.insert(0, os.path.dirname(os.path.abspath(__file__)))
import vlib  # noqa: E402
import props  # noqa: E402


def main():
    ap = argparse.ArgumentParser()
    ap.add_argument("prop")
    ap.add_argument("--tier", default=os.environ.get("VERIF_TIER", "quick"))
    ap.add_argument("--seed", type=int, default=int(os.environ.get("VERIF_SEED", "1") or 1))
    ap.add_argument("--replay")
    ap.add_argument("--build-only", action="store_true")
    a = ap.parse_args()
    if a.tier not in ("quick", "thorough"):
        a.tier = "quick"
    if a.replay:
        with open(a.replay) as f:
            rep = json.load(f)
        print("replaying %s: %s" % (rep["key"], rep["what"]))
        print(rep["rerun"])
        if not os.path.exists(rep["binary"]):
            print("binary is gone (tree changed?): run the check again to rebuild, then replay")
            return 2
        env = dict(os.environ)
        env.update(vlib.RUN_ENV)
        return subprocess.call(rep["rerun"].split() + ["--out", "/dev/stdout"], env=env)
    t0 = time.time()
    if a.prop == "ALL":
        ids = sorted(props.PROPS)
    else:
        ids = [a.prop]
    rc_all = 0
    for pid in ids:
        if pid not in props.PROPS:
            print("unknown property %s" % pid)
            return 2
        spec = props.PROPS[pid]
        t0 = time.time()
        vlib.prune_builds()
        try:
            units = spec["units"](a.tier, a.seed)
        except Exception as e:  # generator failure = harness failure
            import traceback
            traceback.print_exc()
            print("HARNESS-ERROR %s: %s" % (pid, e))
            return 2
        errs = vlib.build_all(units)
        if errs:
            for e in errs[:3]:
                print(e)
            print("HARNESS-ERROR %s: %d units failed to compile against the current tree" % (pid, len(errs)))
            if len(ids) == 1:
                return 2
            rc_all = rc_all if rc_all == 1 else 2
            continue
        if a.build_only:
            continue
        recs, errors = vlib.run_all(units, a.tier, a.seed)
        post = spec.get("post")
        kw = dict(spec.get("finish", {}))
        if post:
            recs, kw2 = post(recs, a.tier, a.seed)
            kw.update(kw2)
        rc = vlib.finish(pid, a.tier, a.seed, recs, errors, t0, **kw)
        rc_all = max(rc_all, rc) if rc != 1 and rc_all != 1 else 1
    return rc_all


if __name__ == "__main__":
    sys.exit(main())
