#!/usr/bin/env python3
"""Writes /verif/MANIFEST.json from the property registry and the texts below."""
import json
import os
import subprocess
import sys

sys.path.insert(0, os.path.dirname(os.path.abspath(__file__)))
import props  # noqa: E402
import vlib  # noqa: E402

CORPUS_NOTE = "Trusts the reference interpreter (cpp/ref/peg_ref.hpp, no PEGTL include), the desugaring table in gen/grammar_gen.py and the bounded corpus: grammars of at most ~25 nodes, all inputs up to a length bound over a 3-5 symbol alphabet plus seeded longer strings; grammar/input pairs on which the reference detects a cycle without progress are excluded."

TEXT = {
    # id: (technique, level text, level note, design ref)
    "C01": ("reference-model monitor: generated grammar corpus (context matrix + random) run under a match()-wrapping control, compared with an independent PEG interpreter; clang ASan+UBSan",
            "Exploration: every combinator x sub-rule slot x inherited rewind mode x gadget (consume-then-fail, nullable, raising ...) of the context matrix, the filler matrix (neighbours that never consume - eof, success, failure -, always consume, or are the very same type as the gadget: sor< X, X >) and seeded random grammars are compiled against the real headers and run on all short inputs; result and consumed length must equal the reference under three void-action attachments and, without monitor, under all four apply_mode x rewind_mode combinations. Held = no disagreement on the executions produced; the evidence lists the (rule, mode, outcome, moved-inside) tuples actually observed.",
            CORPUS_NOTE, "5/C01"),
    "C02": ("trace-specification monitor at every Control<Rule>::match boundary (cursor snapshot on entry/exit, bump hook tells whether the cursor moved inside)",
            "Exploration: pure trace monitor, needs no model: every invocation (nested and hidden internal rules included) of every corpus run is checked for 'false under rewind_mode::required => cursor (pointer, byte, line, column) unchanged', 'look-ahead never moves', 'success never moves backwards', with and without an action attached to the observed rule. The evidence counts, per rule type, the failing required-mode invocations that had moved the cursor internally - the only ones that can violate.",
            "Rule types for which no consuming-then-failing invocation was produced show up as absent cells, not as held; custom user rules are out of reach.", "5/C02"),
    "C03": ("sanitizer + window-hook monitor: shipped grammars and the generated corpus on exact-size / poisoned-tail / poisoned-buffer placements, clang ASan+UBSan",
            "Exploration: json, uri, iri, http (incl. chunked bodies), abnf, lua53, proto3, double, integer, raw_string, utf8/16/32, uintN and core rules under five eol policies run on every prefix and single-byte mutation of seeded valid documents, each in a poisoned-tail block whose tail would extend a match, in an exact-size heap block, and through buffer_input with the undelivered buffer tail poisoned; plus every ASan-built configuration of the generated grammar corpus. The window hook in peek_char()/bump*(), the cursor-inside-input check at every match() boundary, result equality between placements and the sanitizers are the oracles.",
            "A clean run is 'no red-zone / poisoned-byte access and no window-hook firing on these executions', not memory safety; intra-object overflows and stale unpoisoned bytes are invisible.", "5/C03"),
    "C07": ("differential monitor across input classes with the buffer hooks: observation record vs the eager memory_input baseline; overflow_error iff need > capacity",
            "Exploration: corpus grammars with discard at documented-safe points and require<N>/everything atoms; every input through memory_input eager/lazy, string/read/mmap/file/argv inputs, istream/cstream inputs and buffer_input with Chunk 1, 3, 64 x six short-read schedules x every capacity from Chunk to need+2. (result, consumed, raw action trace with spans and positions, error text) must equal the baseline; std::overflow_error must occur exactly when the largest offset+amount of any require() exceeds the capacity.",
            CORPUS_NOTE + " Readers are assumed to follow the documented contract.", "5/C07"),
    "C04": ("transactional event-log monitor (action log truncated when an enclosing invocation fails) compared with the reference derivation, plus per-invocation span/enablement assertions",
            "Exploration: void, vetoing and throwing apply/apply0 actions (deterministic predicate of rule and span; all derive from require_apply / require_apply0) on arbitrary visible rules, apply<>/apply0<>/if_apply<> with void, vetoing and mixed class actions, enable_action / disable_action / change_* attached through Action< Rule >::match, enable/disable/at/not_at nesting, eager and lazy inputs. The surviving action log must equal the reference's action events in order; every raw invocation must carry begin = its invocation's entry cursor and end = parse cursor, must not happen inside look-ahead/disabled sections, and a veto must end the invocation with false and a restored cursor.",
            CORPUS_NOTE + " Grammars whose documented expansion repeats a sub-rule inside a predicate are not run with vetoing/throwing attachments.", "5/C04"),
    "C05": ("reference-model + trace monitor: exception kind, blamed rule, nesting and try_catch conversion against the reference interpreter; raise hooks give the attempt window for the position check",
            "Exploration: must-family rules, raise, all try_catch_* variants (parse_error / std / any / typed) and throwing actions (std-derived and non-std types) nested in predicates, repetitions and choices. The exception reaching parse()'s caller must have the reference's kind, message (blamed rule), nesting depth; its position must lie inside the failed attempt observed by the wrapper, equal the position function of the prefix, what() must be source:line:column: message; also under a must_if control (raise from the failure hook, message precedence) and with named rules carrying error_message, including as the directly guarded rule of try_catch_*_raise_nested (custom outer message AND still a nested exception); foreign exceptions must arrive with the serial they were thrown with.",
            CORPUS_NOTE + " Message precedence checked: must_if message, then Rule::error_message, then the default text naming the rule (names verified with g++ and clang by the c05_names driver).", "5/C05"),
    "C06": ("invariant monitor: every observable position compared with a ten-line position function of the consumed prefix",
            "Exploration: in.position() at every control hook, eager counters at every invocation entry/exit, action_input::position(), parse_error and parse-tree node positions of every corpus run are compared with P(prefix) = (bytes, 1 + count of Eol::ch, 1 + bytes since the last), for eager and lazy tracking (atoms profile: all five eol policies). A separate driver constructs eager and lazy memory_inputs with six initial (byte, line, column) values through both constructors that take one and compares action-input positions, in.byte(), parse_error and final positions with the position function started there, and eager with lazy observation by observation.",
            "Trusts the position function; UTF-16/32 and multi-byte binary rules excluded as the property says. Known findings: lazy tracking inside rematch sub-inputs.", "5/C06"),
    "C08": ("online stack automaton over the hook stream, cross-checked with the outcome seen by the match() wrapper of the same invocation",
            "Exploration: start exactly once before any nested invocation; exactly one closing hook that agrees with the outcome (success<->true, failure<->false, unwind<->exception when defined); apply/apply0 after the last nested invocation and before the close; raise only from must/raise rules or the rule's own failure hook. Runs end in exceptions from must rules and from actions at arbitrary depth; controls with and without unwind() and with hooks for internal rules.",
            "Controls that replace match() wholesale are out of reach. Client-level runs: the monitor control wrapped by state_control under coverage<> (counter balance start = success + failure + unwind per rule and branch) and the tracers, also around a must_if control whose failure hook throws, and with the whole run started during stack unwinding (std::uncaught_exceptions() > 0).", "5/C08"),
    "C09": ("reference-model monitor: the reference interpreter evaluates the documented expansion ([Equivalent] clauses of doc/Rule-Reference.md), the real rule runs beside it",
            "Exploration: every listed convenience rule is instantiated (context matrix: per sub-rule slot and inherited rewind mode; random: arbitrary nesting) with sub-grammars that consume before failing, are nullable, or raise, repetition bounds 0..3; result, consumed length and the blamed rule of a global failure must equal the desugared expression's.",
            CORPUS_NOTE + " rep_opt< 0, R > with a single rule does not compile on the pinned tree and cannot be run.", "5/C09"),
    "C10": ("reference-model monitor with enumerated candidate units on exact-size ASan buffers: independent table-driven codecs and set tables",
            "Exploration with exhaustive sub-spaces: every byte for every ASCII/abnf/uint8 rule (all 256 masks), all 2^16 two-byte inputs for string/istring rules, all 1-3 byte UTF-8 inputs, every code point for every UTF family, all 2^16 UTF-16 units and uint16 values; thorough: all 2^30 four-byte UTF-8 inputs with lead >= 0xC0, all 2^32 UTF-16 pairs and UTF-32 units in both byte orders. (matched, consumed) must equal (member, length) from the independent codec; every fourth judgement of a multi-byte encoding on two or more bytes is repeated through a buffer_input fed one byte per read.",
            "Trusts cpp/oracles/utf_codec.hpp, unit_sets.hpp, ascii_classes.hpp; uint32/uint64 rules are boundary + random only; ICU rules not covered.", "5/C10"),
    "C11": ("doubly confirmed witness search: reference interpreter's exact cycle detection + fuel-limited monitored real run, against analyze< G >()",
            "Exploration: ~2000 systematically ill-formed grammars (quick: a seeded 900), 133 progress cells (a repetition over a rule the analysis takes to consume: certified, so the fuel-limited real run must terminate within a budget derived from the reference's effort on EVERY enumerated input) and 28 name cells (two unnamed instantiations equal up to a punctuation character argument, built with clang and g++ because analyze() identifies rules by demangled name). The ill-formed grammars that put a cycle through every rule type with analyze_traits and every sub-rule slot (direct, indirect, behind a consuming prefix, behind a second sor alternative, nullable body under a repetition) with nullable / predicate / failing / consuming neighbours; a grammar with analyze() == 0 for which some input up to the bound makes the reference report a cycle without progress and the real parser exceed its invocation / nesting budget is a violation.",
            "'No input' is bounded by the explored input lengths; false positives of the analysis are not violations.", "5/C11"),
    "C12": ("reference-model monitor: parse_tree::parse (with the match()-wrapping control underneath) vs the reference derivation filtered by the same selector table",
            "Exploration: corpus grammars incl. recursion, the context matrix and chains of 5..11 unselected rules around a selected leaf (is_leaf<8> boundary); selectors = all / random subsets / remove_content, fold_one, discard_empty / sparse; no, void, vetoing and throwing actions. Tree (type, begin, end, nesting, order, content kept) must equal the visible successful matches of the reference derivation with transformers applied bottom-up; null tree <=> no success; contents inside the input.",
            CORPUS_NOTE + " Custom node types out of reach. Known finding: nodes created on rematch sub-inputs keep a dangling source view.", "5/C12"),
    "C13": ("trace-specification monitor over the state/action/control log against the match()-wrapper events, plus comparison of surviving scopes and action families with the reference interpreter",
            "Exploration: state< S, R... >, action< B, ... >, control< B, ... >, enable/disable and change_state / change_states / change_action / change_action_and_state / change_control / enable_action / disable_action attached to arbitrary visible rules, nested with backtracking, predicates, must failures and try_catch. A state must be constructed before any nested invocation of the rule that carries it, with the entry cursor and the enclosing state; destroyed before that invocation ends; receive success() exactly once with the match-end cursor iff the rule matched (and actions are enabled for the action-based variants); every action must receive the innermost live state and the action/control family of the innermost enclosing switch.",
            CORPUS_NOTE + " change_action_and_states is not generated.", "5/C13"),
    "C15": ("reference-model monitor: integer rules and actions vs unsigned __int128 arithmetic and an independent numeral recogniser; window hook + poisoned digit tail; UBSan",
            "Exploration with exhaustive sub-spaces: all digit strings up to width+1 (8-bit) / width (16-bit) with sign and trailer variants, boundary neighbourhoods of every cutoff, 10^k and type limit for 32/64-bit, 93 explicit maxima; every rule/action form for all eight fixed-width types, in four calling contexts (required, optional, opt<R>, sor<R,mark>) and two buffer placements. Acceptance, consumed length, stored value, overflow report, cursor after local failure and reads past the end are checked.",
            "Trusts cpp/oracles/bigdec.hpp; 32/64-bit values away from the structured neighbourhoods are sampled.", "5/C15"),
    "C14": ("differential monitor: real json::text + eof vs an independent iterative RFC 8259 recogniser on exact-size / poisoned-tail buffers",
            "Exploration: all strings up to length 6 over a 15-symbol JSON alphabet, up to 4 over 43 symbols, seeded grammar-derived documents with single/double-edit mutations from a hostile byte set (all invalid-UTF-8 classes), number/literal/escape families, deep nesting; accept/reject must agree and no exception of any type may escape; generated / mutated documents and swept strings with non-ASCII bytes are parsed a second time through a buffer_input fed 1-3 bytes per read.",
            "Trusts cpp/oracles/json_rfc8259.hpp (cross-checked against Python's strict json on 381k strings) and utf_codec.hpp.", "5/C14"),
    "C16": ("differential monitor: raw_string with a content action vs an independent long-bracket scanner; cursor discipline checked under rewind_mode::required",
            "Exploration: all strings up to length 9 (primary) / 8 (other instantiations and eol policies) over {Open, Marker, Close, LF, CR, a}, seeded long strings with near-miss closes, three bracket triples, four content-rule variants, five eol policies, eager/lazy, embedded under sor/opt/star; matched, consumed, content span must agree; local failure must leave the cursor where it started; every case also runs with actions attached but disabled (apply_mode::nothing: same verdict, no action call) and through buffer_inputs fed 1 and 3 bytes per read.",
            "Trusts cpp/oracles/lua_longbracket.hpp; nullable content rules are not instantiated (the real rule would loop).", "5/C16"),
    "C17": ("reference-model monitor (independent UTF-8 encoder / surrogate model) over exhaustive code-point sweep and enumerated escape tuples, ASan+UBSan build",
            "Exploration: the real helpers run (directly and through the real JSON/example grammars) beside an independent encoder; utf8_append_utf32, 4-digit unescape_u and unescape_x are swept completely, unescape_j over all 1-3 tuples of 16 boundary units plus seeded random tuples. Held = no disagreement on the executions produced.",
            "Trusts cpp/oracles/utf_codec.hpp and the enumeration; escapes longer than 4 consecutive \\u groups are only sampled.", "5/C17"),
    "C18": ("invariant monitor at the control hooks inside the guards: own nesting count vs current_depth(), in.end() vs start + min(N, remaining), restoration after every outcome",
            "Exploration: four recursive grammars x N 0..6 x all short bracket strings and structured nestings 0..9 with success / local failure / exception outcomes; eight byte-limited rule kinds starting at every offset 0..10, N 0..6, at top level, inside rematch, nested limits, under try_catch; results compared with the unguarded rule on exactly the window bytes; the depth part also with the guard attached and the run started with apply_mode::nothing.",
            "Trusts the small models in cpp/drivers/c18_limits.cpp.", "5/C18"),
    "C19": ("reference-model monitor: at/begin_of_line/end_of_line/line_at vs an independent line splitter, pointers compared as integers before any dereference",
            "Exploration: all strings up to length 8 over {LF, CR, a, b}, every offset, five eol policies, eager/lazy, default and non-default initial counters, positions taken from real runs (bytes<k>, eol-aware rules, actions, parse_errors, parse_errors thrown from inside limit_bytes / rematch sections of the same input object), exact-size and poisoned-tail buffers. Offsets inside a two-byte line ending accept either neighbouring line.",
            "Trusts cpp/oracles/lines.hpp. Three known findings (initial byte ignored by at(); crlf and cr_crlf line counting).", "5/C19"),
    "C20": ("differential monitor: real uri rules + eof vs a set-of-end-positions (fully backtracking) RFC 3986 recogniser, window hook + poisoned digit tail",
            "Exploration: all strings up to length 5 over a 16-symbol URI alphabet (6 over an 11-symbol core), RFC-derived random derivations with single-edit mutants, systematic IPv4/IPv6 families bare and inside four host templates, IPv4-prefixed reg-names; accept/reject must agree for URI, URI_reference, absolute_URI, IPv4address, IPv6address; only parse_error may be thrown; a third run per case with apply_mode::nothing, rewind_mode::required and lazy tracking must give the same verdict; results must not depend on bytes behind the end.",
            "Trusts cpp/oracles/uri_rfc3986.hpp (cross-checked against inet_pton for the IP literals).", "5/C20"),
}

NOT_YET = "check not built yet in this revision of /verif (see DESIGN.md section 5 for the planned monitor)"


def main():
    checks = []
    na = []
    with open(os.path.join(vlib.VERIF, "properties.jsonl")) as f:
        ids = [json.loads(l)["id"] for l in f if l.strip()]
    for pid in ids:
        if pid in props.PROPS and pid in TEXT:
            tech, text, note, ref = TEXT[pid]
            checks.append({
                "property_id": pid,
                "quick_cmd": "python3 tools/check.py %s --tier quick" % pid,
                "thorough_cmd": "python3 tools/check.py %s --tier thorough" % pid,
                "evidence_file": "/verif/evidence/%s.json" % pid,
                "replay_cmd_template": "python3 tools/check.py %s --replay {path}" % pid,
                "engine": "runtime-monitor",
                "level_claimed": {"category": "exploration", "text": text, "design_ref": "DESIGN.md section " + ref},
                "level_note": note,
                "technique": tech,
            })
        else:
            na.append({"property_id": pid, "reason": NOT_YET})
    hooks_commits = subprocess.run(["git", "-C", "/repo", "log", "--format=%H %s"], stdout=subprocess.PIPE, text=True).stdout.splitlines()
    hook_shas = [l.split()[0] for l in hooks_commits if "TAO_PEGTL_VERIF" in l]
    m = {
        "version": 1,
        "setup_cmd": "python3 tools/check.py ALL --build-only",
        "hooks": {
            "guard": "TAO_PEGTL_VERIF",
            "enable": "every monitor binary is compiled with -DTAO_PEGTL_VERIF against /repo/include (see tools/vlib.py BUILD_KINDS); the hooks are null function pointers until a monitor installs callbacks",
            "baseline_off_cmd": "cmake -G Ninja -S /repo -B /repo/_build && cmake --build /repo/_build -j16 && ctest --test-dir /repo/_build -j8 --timeout 900",
            "source_commits": hook_shas,
            "add_only": True,
        },
        "engines": [{"name": "runtime-monitor", "path": "tools/check.py", "serves_properties": [c["property_id"] for c in checks],
                     "kind_free_text": "generated/hostile workloads run against the real headers under clang ASan+UBSan with reference-model and trace-specification monitors; see DESIGN.md"}],
        "checks": checks,
        "not_applicable": na,
        "notes": "All checks honour VERIF_SEED and VERIF_TIER, rebuild from /repo's working tree (build cache keyed by a hash of /repo/include and the example headers), exit 0/1/2 = held / violation / inconclusive-or-harness-failure.",
    }
    with open(os.path.join(vlib.VERIF, "MANIFEST.json"), "w") as f:
        json.dump(m, f, indent=1)
    print("MANIFEST.json: %d checks, %d not claimed" % (len(checks), len(na)))


if __name__ == "__main__":
    main()
