#!/usr/bin/env python3
"""Writes /verif/MANIFEST.json from the property registry and the texts below."""
import json
import os
import subprocess
import sys

sys.path.insert(0, os.path.dirname(os.path.abspath(__file__)))
import props  # noqa: E402
import vlib  # noqa: E402

TEXT = {
    # id: (technique, level text, level note, design ref)
    "C17": ("reference-model monitor (independent UTF-8 encoder / surrogate model) over exhaustive code-point sweep and enumerated escape tuples, ASan+UBSan build",
            "Exploration: the real helpers run (directly and through the real JSON/example grammars) beside an independent encoder; utf8_append_utf32, 4-digit unescape_u and unescape_x are swept completely, unescape_j over all 1-3 tuples of 16 boundary units plus seeded random tuples. Held = no disagreement on the executions produced.",
            "Trusts cpp/oracles/utf_codec.hpp and the enumeration; escapes longer than 4 consecutive \\u groups are only sampled.", "5/C17"),
}

NOT_YET = "check not built yet in this revision of /verif (see DESIGN.md section 5 for the planned monitor)"


def main():
    checks = []
    na = []
    with open(os.path.join(vlib.VERIF, "properties.jsonl")) as f:
        ids = [json.loads(l)["id"] for l in f if l.strip()]
    for pid in ids:
        if pid in props.PROPS and pid in TEXT:
            tech, text, note, ref = TEXT[pid]
            checks.append({
                "property_id": pid,
                "quick_cmd": "python3 tools/check.py %s --tier quick" % pid,
                "thorough_cmd": "python3 tools/check.py %s --tier thorough" % pid,
                "evidence_file": "/verif/evidence/%s.json" % pid,
                "replay_cmd_template": "python3 tools/check.py %s --replay {path}" % pid,
                "engine": "runtime-monitor",
                "level_claimed": {"category": "exploration", "text": text, "design_ref": "DESIGN.md section " + ref},
                "level_note": note,
                "technique": tech,
            })
        else:
            na.append({"property_id": pid, "reason": NOT_YET})
    hooks_commits = subprocess.run(["git", "-C", "/repo", "log", "--format=%H %s"], stdout=subprocess.PIPE, text=True).stdout.splitlines()
    hook_shas = [l.split()[0] for l in hooks_commits if "TAO_PEGTL_VERIF" in l]
    m = {
        "version": 1,
        "setup_cmd": "python3 tools/check.py ALL --build-only",
        "hooks": {
            "guard": "TAO_PEGTL_VERIF",
            "enable": "every monitor binary is compiled with -DTAO_PEGTL_VERIF against /repo/include (see tools/vlib.py BUILD_KINDS); the hooks are null function pointers until a monitor installs callbacks",
            "baseline_off_cmd": "cmake -G Ninja -S /repo -B /repo/_build && cmake --build /repo/_build -j16 && ctest --test-dir /repo/_build -j8 --timeout 900",
            "source_commits": hook_shas,
            "add_only": True,
        },
        "engines": [{"name": "runtime-monitor", "path": "tools/check.py", "serves_properties": [c["property_id"] for c in checks],
                     "kind_free_text": "generated/hostile workloads run against the real headers under clang ASan+UBSan with reference-model and trace-specification monitors; see DESIGN.md"}],
        "checks": checks,
        "not_applicable": na,
        "notes": "All checks honour VERIF_SEED and VERIF_TIER, rebuild from /repo's working tree (build cache keyed by a hash of /repo/include and the example headers), exit 0/1/2 = held / violation / inconclusive-or-harness-failure.",
    }
    with open(os.path.join(vlib.VERIF, "MANIFEST.json"), "w") as f:
        json.dump(m, f, indent=1)
    print("MANIFEST.json: %d checks, %d not claimed" % (len(checks), len(na)))


if __name__ == "__main__":
    main()
