import corpus

PLAN_QUICK = [('ctxf', ['v1']), ("contrib", ["v1", "v0", "plain"]), ('ctx', ['v1', 'v0', 'plain']), ('conv', ['v1', 'v0', 'plain'])]
PLAN_THOROUGH = [('ctxf', ['v1', 'v0']), ('contrib', ['v1', 'v0', 'plain']), ('ctx', ['v1', 'v0', 'plain', 'lazy1']), ('conv', ['v1', 'v0', 'plain', 'lazy1']), ('exc', ['v1'])]


def units(tier, seed):
    return corpus.units(PLAN_QUICK if tier == "quick" else PLAN_THOROUGH, tier, seed)


SPEC = {
    "units": units,
    "finish": {
        "rule": 'cases = (grammar, input, configuration) where the grammar instantiates a convenience rule with sub-grammars that consume before failing, are nullable, or raise, repetition bounds 0..3; the reference interpreter evaluates the DESUGARED expression from the [Equivalent] clauses of doc/Rule-Reference.md and result, consumed length and blamed rule of a global failure are compared. Non-trivial: reference needed more than 3 steps.',
        "floors": {'plain:*': 1000, 'run:parse_error': 100},
        "assumptions": ['desugaring table in gen/grammar_gen.py transcribes doc/Rule-Reference.md'],
    },
}
