import os
import re

import vlib
from vlib import Unit

D = os.path.join(vlib.VERIF, "cpp", "drivers")

SIGNED = ["int8", "int16", "int32", "int64"]
UNSIGNED = ["uint8", "uint16", "uint32", "uint64"]


def units(tier, seed):
    # one source, thirteen binaries (only to compile in parallel): part 1 = rules/actions without a
    # maximum, parts 2..13 = the maximum family, three parts per unsigned type
    return [Unit("c15_integer_p%d" % p, src=os.path.join(D, "c15_integer.cpp"), kind="asan", shards=16, defs=["C15_PART=%d" % p]) for p in range(1, 14)]


def applicable(family):
    return SIGNED if family.startswith("signed") else UNSIGNED


KEY = re.compile(r"^C15\|([A-Za-z_]+)\[([a-z0-9]+)\]\|(.+)$")


def post(recs, tier, seed):
    """The driver keys every violation of a typed configuration by (rule, type, class). A defect that
    shows for every integer type the rule can be used with is one defect: drop the type from its key."""
    seen = {}

    def note(key):
        m = KEY.match(key)
        if m:
            seen.setdefault((m.group(1), m.group(3)), set()).add(m.group(2))

    for r in recs:
        if r.get("t") == "viol":
            note(r.get("key", ""))
        elif r.get("t") == "cov":
            for k in r.get("violcount", {}):
                note(k)
    merged = {fc for fc, types in seen.items() if set(applicable(fc[0])) <= types}

    def rename(key):
        m = KEY.match(key)
        if m and (m.group(1), m.group(3)) in merged:
            return "C15|%s|%s" % (m.group(1), m.group(3))
        return key

    for r in recs:
        if r.get("t") == "viol":
            r["key"] = rename(r["key"])
        elif r.get("t") == "cov":
            vc = {}
            for k, v in r.get("violcount", {}).items():
                vc[rename(k)] = vc.get(rename(k), 0) + v
            r["violcount"] = vc
    return recs, {}


def floors():
    f = {}
    # (cell name, types, outcomes that must have been observed)
    fam = [
        ("unsigned_rule", ["-"], ["ok", "syntax-reject"]),
        ("signed_rule", ["-"], ["ok", "syntax-reject"]),
        ("unsigned_rule_with_action(apply_mode::nothing)", ["-"], ["ok", "syntax-reject"]),
        ("signed_rule_with_action(apply_mode::nothing)", ["-"], ["ok", "syntax-reject"]),
        ("unsigned_action", UNSIGNED, ["ok", "overflow", "syntax-reject"]),
        ("unsigned_action@unsigned_rule_old", UNSIGNED, ["ok", "overflow", "syntax-reject"]),
        ("unsigned_rule_with_action", UNSIGNED, ["ok", "overflow", "syntax-reject"]),
        ("signed_action", SIGNED, ["ok", "overflow", "syntax-reject"]),
        ("signed_action@signed_rule_old", SIGNED, ["ok", "overflow", "syntax-reject"]),
        ("signed_rule_with_action", SIGNED, ["ok", "overflow", "syntax-reject"]),
        ("maximum_rule", UNSIGNED, ["ok", "overflow", "syntax-reject"]),
        ("maximum_rule_with_action", UNSIGNED, ["ok", "overflow", "syntax-reject"]),
        ("maximum_rule_with_action(apply_mode::nothing)", UNSIGNED, ["ok", "overflow", "syntax-reject"]),
        ("maximum_action", UNSIGNED, ["ok", "overflow", "syntax-reject"]),
        ("maximum_action@unsigned_rule_old", UNSIGNED, ["ok", "overflow", "syntax-reject"]),
    ]
    for cell, types, outs in fam:
        for t in types:
            for o in outs:
                # the pre-3.0 host rules reject only non-numerals: few such inputs exist
                f["%s[%s]:%s" % (cell, t, o)] = 200 if (cell.endswith("signed_rule_old") and o == "syntax-reject") else 1000
    for c in ("ctx:top-required", "ctx:top-default", "ctx:opt", "ctx:sor", "buffer:poisoned-digit-tail",
              "trailer:end-of-input", "trailer:digit", "trailer:non-digit"):
        f[c] = 10000
    return f


SPEC = {
    "units": units,
    "post": post,
    "finish": {
        "rule": "a case is (rule configuration incl. target type and Maximum, input bytes); every configuration is run on it at top level with rewind_mode::required and the default mode and embedded as opt<R> and sor<R,mark>, on an exact-size heap buffer and on a buffer with a poisoned tail of digits. "
                "distinct_nontrivial counts the distinct (configuration, input) pairs whose input has at least 2 bytes, each once: in the exhaustive sweeps (all digit strings up to the type's decimal width + 1 for 8-bit, width (quick) / width + 1 (thorough) for 16-bit targets, "
                "up to 5 (quick) / 7 (thorough) digits for the rules without a target type, up to digits(Maximum) + 1 (quick) / + 2 (thorough) for explicit maxima of 8/16-bit types (quick tier, uint16 maxima: maximum_rule and maximum_rule_with_action only; maximum_action and the apply_mode::nothing form then get the boundary part only); each plain, with one non-digit trailer, and with '+'/'-') every pair is generated once; "
                "in the boundary part (0..12, 10^k+-3, +-3 around limit, limit/10, limit*10 and the cutoff rows, around 2^bits and its aliases, seeded random numerals of every length up to width + 2 and numerals sharing a prefix with the limit; each with sign, leading-zero and 13 non-digit / 3 digit trailer variants) "
                "only the variants ending in end-of-input or a non-digit are counted (a digit trailer can coincide with another magnitude) and only for 32/64-bit targets (for 8/16-bit targets and the type-less rules the sweeps already contain most of them). "
                "Inputs that denote the minimum of a 32/64-bit signed type are routed to one case per (rule, type), labelled <rule><type>:min, so that a sanitizer report there is keyed separately.",
        "assumptions": [
            "oracle: cpp/oracles/bigdec.hpp (128-bit Horner evaluation of the whole digit run, compared with the limit afterwards; syntax from the documented grammar, longest match)",
            "actions attached to unsigned_rule_old / signed_rule_old are within their documented precondition (non-empty digit sequence with optional sign), leading zeros do not change the value",
            "maximum_rule_with_action in apply_mode::nothing may either throw or fail locally on a value above Maximum (nothing is stored)",
            "when the window hook fires during a run only reads-past-end is reported for that run; rules found to read past the end by a probe are run on poisoned-tail buffers only (cell exact-size-buffer-skipped-*), plus one exact-size case (maximum_rule:exact-buffer-end) that lets ASan confirm",
            "on a parse_error the content of the state is unspecified (basic exception safety) and is not checked",
        ],
        "floors": floors(),
        "extra_cov": {"exhaustive_parts": ["all digit strings of 1..4 digits for int8/uint8 targets", "all digit strings of 1..5 (thorough: 6) digits for int16/uint16 targets",
                                           "all digit strings of 1..5 (thorough: 7) digits for the rules without target type", "all digit strings up to digits(Maximum)+1 (thorough: +2, capped at the type's sweep length) for every explicit Maximum of uint8/uint16"]},
    },
}
