from props import driver

SPEC = {
    "units": driver("c14_json", "c14_json.cpp"),
    "finish": {
        "rule": "every case runs parse< seq< json::text, eof > > on an exact-size heap block (mode 0; a sample also as prefix of a block whose poisoned tail "
                "holds bytes that would extend the match) beside the independent RFC 8259 recogniser cpp/oracles/json_rfc8259.hpp; acceptance must be equal and nothing may be thrown "
                "(json.hpp contains no must<>, so parse_error is not a way of rejecting). "
                "cases: ALL strings of length 0..6 (thorough 0..7) over the 15 symbols { } [ ] : , \" \\ 0 1 - . e t space; ALL strings of length 0..4 (thorough 0..5) over 43 symbols "
                "(those plus u a b f l s n r + E / 9 TAB LF CR 00 0B 1F 7F 80 A0 BF C2 E0 ED F0 F4 FF), minus the ones already in the first sweep; "
                "seeded documents derived from the RFC grammar (nesting up to 64, every value kind, number form, escape, 1-4 byte UTF-8, ws in every gap) and their single- and double-edit mutations "
                "(insert / replace / delete / truncate / swap with a hostile set: quotes, backslashes, control characters, blank-like characters, overlong / surrogate / above-U+10FFFF / truncated / lone-continuation UTF-8, digits, signs, e, '.', brackets, separators, letters, comment openers); "
                "systematic families: sign x int x frac x exp number forms in 4-6 contexts; true/false/null with every single-byte replacement, deletion, insertion, prefix; every byte after a backslash, "
                "\\u followed by all 4-tuples over 14-16 hex and near-hex characters, truncated \\u, lone / paired / reversed surrogate escapes, each as value and as member name; "
                "every byte, every 2-byte sequence with a first byte >= 0x80 (interior leads thinned in quick), boundary 3- and 4-byte sequences inside a string and inside a member name; "
                "22 whitespace-like byte sequences at every offset of 7 templates; nesting depth 65..512 (thorough ..2000) in 5 shapes x 5 defects on a 1 GiB thread stack. "
                "distinctness: sweeps enumerate without repetition, every other input is dropped when it belongs to a sweep or when its 64-bit hash was seen before (all shards generate all inputs, so the set is global). "
                "non-trivial = distinct input whose verdict needed more than its first byte: accepted by the oracle, or rejected by it at an offset >= 1 "
                "(inputs rejected at offset 0 and the empty input are evaluated and counted in the cell trivial:*, but not as non-trivial).",
        "assumptions": [
            "oracle: cpp/oracles/json_rfc8259.hpp, index-based scanner with an explicit container stack written from the RFC 8259 ABNF + Unicode table 3-7 (cpp/oracles/utf_codec.hpp); no PEGTL include",
            "the generator of valid documents is a third, production-side reading of the ABNF: a generated document rejected by the oracle is reported (C14|harness|...)",
            "RFC 8259 ABNF does not require \\uXXXX surrogate escapes to pair: lone surrogate escapes are valid texts",
            "documents nested deeper than 2000 are not explored (the grammar has no depth limit by design; recursion depth is bounded by the stack)",
        ],
        "floors": {
            "sweep-small:accept": 10000, "sweep-small:reject": 10000000, "sweep-wide:accept": 1000, "sweep-wide:reject": 3000000,
            "doc:accept": 3000, "mut1:accept": 5000, "mut1:reject": 50000, "mut2:accept": 500, "mut2:reject": 30000,
            "doc-depth:33-64": 50, "doc-feature:escape:*": 2000, "doc-feature:char:utf8-4": 1000, "doc-feature:number:exp-*": 500, "doc-feature:ws:*": 10000,
            "utf8:valid-2:accept": 500, "utf8:valid-3:accept": 500, "utf8:valid-4:accept": 500,
            "utf8:overlong-2:reject": 100, "utf8:overlong-3:reject": 100, "utf8:overlong-4:reject": 100, "utf8:surrogate:reject": 100, "utf8:above-max:reject": 500,
            "utf8:truncated:reject": 500, "utf8:lone-continuation:reject": 1000, "utf8:bad-continuation:reject": 1000, "utf8:invalid-lead:reject": 1000,
            "mut1:utf8-overlong:reject": 1000, "mut1:utf8-surrogate:reject": 500, "mut1:control:reject": 1000, "mut1:quote:*": 500, "mut1:backslash:*": 1000,
            "escape:single:accept": 8, "escape:single:reject": 400, "escape:single-in-key:accept": 16, "escape:u4:accept": 1000, "escape:u4:reject": 10000,
            "escape:surrogates:accept": 500, "escape:surrogates-in-key:accept": 500,
            "literal:true:accept": 4, "literal:false:accept": 4, "literal:null:accept": 4, "literal:true:reject": 3000, "literal:false:reject": 3000, "literal:null:reject": 3000,
            "number:int:accept": 10, "number:frac:accept": 50, "number:exp:accept": 100, "number:frac+exp:accept": 500, "number:frac+exp:reject": 10000,
            "ws:space:accept": 50, "ws:vt:reject": 50, "ws:ff:reject": 50, "ws:nbsp:reject": 50, "ws:bom:reject": 50, "ws-everywhere:*": 100,
            "deep:accept": 50, "deep:reject": 200, "deep:depth0512:accept": 5,
            "oracle-accept:top-level-object": 1000, "oracle-accept:top-level-array": 1000, "oracle-accept:top-level-number": 1000, "oracle-accept:top-level-string": 1000, "oracle-accept:top-level-literal": 100,
            "oracle-reject:*": 1000000, "runs:mode1-poisoned-tail": 1000000,
        },
        "extra_cov": {"exhaustive_parts": ["all strings of length <= 6 (thorough <= 7) over the 15-symbol JSON alphabet", "all strings of length <= 4 (thorough <= 5) over the 43-symbol alphabet",
                                           "all single-byte replacements of true / false / null", "every byte value after a backslash", "every byte value and every 2-byte sequence >= 0x80 (thorough) inside a string"]},
    },
}
