import corpus

PLAN_QUICK = [('exc', ['infl4', 'inflcov']), ('exc', ['covmif']), ('exc', ['mif4']), ('ctx', ['mif1']), ('exc', ['cov4', 'trace4']), ('act', ['cov3']), ('ctx', ['v1', 'v4', 'all1', 'nounw1']), ('exc', ['v1', 'v4']), ('act', ['v4'])]
PLAN_THOROUGH = [('exc', ['infl4', 'inflcov', 'covmif', 'mif4', 'mif1', 'cov4', 'trace4', 'strace1', 'v1', 'v4', 'all1', 'nounw1']), ('ctx', ['infl4', 'mif1', 'cov4', 'v1', 'v4', 'all1', 'nounw1', 'v3']), ('act', ['cov3', 'cov4', 'v4', 'v3', 'all1']), ('core', ['all1']), ('conv', ['all1', 'mif1'])]


def units(tier, seed):
    return corpus.units(PLAN_QUICK if tier == "quick" else PLAN_THOROUGH, tier, seed)


SPEC = {
    "units": units,
    "finish": {
        "rule": "every rule invocation of every monitored run is one observation of the online stack automaton: start exactly once before any nested invocation, exactly one closing hook that agrees with the outcome seen by the match wrapper (success<->true, failure<->false, unwind<->exception when the control defines unwind, none otherwise), apply/apply0 after the last nested invocation and before the close, raise only from a must/raise rule or the rule's own failure hook; runs end in exceptions from must rules and from actions at arbitrary depth, with controls with and without unwind() and with hooks for internal rules enabled. Non-trivial case: reference needed more than 3 steps.",
        "floors": {'hook:unwind': 1000, 'coverage:entries-with-unwind': 100, 'coverage:entries-with-attempts': 10000, 'hook:raise': 1000, 'hook:must_if-raise': 500, 'action:threw': 50, 'action:vetoed': 50},
        "assumptions": ['controls that replace match() wholesale are out of reach'],
    },
}
