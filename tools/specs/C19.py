from props import driver

_POL = ["lf", "cr", "crlf", "lf_crlf", "cr_crlf"]
_SRC = ["bytes", "rep_any", "until_eof", "eol_rules", "action", "parse_error_bytes", "parse_error_eol"]

_floors = {}
# roughly a quarter of what the quick tier observes (the sampled part varies a little with the seed)
for _p in _POL:
    for _s in _SRC:
        # every position source under every policy, eager and lazy
        _floors["src:%s:%s:eager" % (_s, _p)] = 80000
        _floors["src:%s:%s:lazy" % (_s, _p)] = 80000
    for _h in ["at", "begin_of_line", "end_of_line", "line_at"]:
        _floors["judged:%s:%s" % (_h, _p)] = 2000000
    for _sh in ["plain", "empty-line", "last-line-without-terminator", "position-at-very-end", "at-terminator-start"]:
        _floors["shape:%s:%s" % (_sh, _p)] = 100000
for _p in ["crlf", "lf_crlf", "cr_crlf"]:
    _floors["shape:inside-crlf:%s" % _p] = 100000
for _c in ["default-3arg", "0-1-1", "100-1-1", "0-5-7", "3-2-4", "1000000-99-1"]:
    _floors["counters:%s:eager" % _c] = 1000000
    _floors["counters:%s:lazy" % _c] = 1000000
for _h in ["at", "begin_of_line", "end_of_line", "line_at"]:
    _floors["judged:%s:counters-default" % _h] = 6000000
    _floors["judged:%s:counters-6arg" % _h] = 5000000
_floors["buffer:mode0-exact-size"] = 15000000
_floors["buffer:mode1-poisoned-ab-tail"] = 4000000

SPEC = {
    "units": driver("c19_lines", "c19_lines.cpp"),
    "finish": {
        "rule": "cases: every string x of length 0..8 over {LF, CR, 'a', 'b'} (87381 strings), every byte offset k = 0..size, each of the five end-of-line policies, "
                "each constructor setting (3-argument constructor; 6-argument constructor with (byte,line,column) = (0,1,1), (100,1,1), (0,5,7), (3,2,4), (1000000,99,1)). "
                "Default counters, exact-size buffers and the non-throwing position sources run for every string in both tiers; the quick tier runs all 6-argument settings / the poisoned-tail buffer for |x| <= 5 "
                "and the parse_error sources for |x| <= 4, and for longer strings two of the five 6-argument settings, mode 1 for 1/4 and parse_error for 1/8 of the (x, policy) pairs chosen by a hash of (x, policy, seed), and rep<K,any> for every other K when |x| > 6; thorough runs everything. "
                "For every such tuple positions are produced by real runs (bytes<K>, rep<K,any>, until<eof>, star<sor<eol,any>> with action_input::position() in actions, parse_error::position_object() of a failing must<>) "
                "on eager and lazy inputs, and at/begin_of_line/end_of_line/line_at are compared with cpp/oracles/lines.hpp (pointers as integers before any read). "
                "One evaluation = one position judged (four helper calls). distinct_nontrivial counts distinct (x, k, policy, counters) tuples (enumerated without repetition) in which x contains at least one LF or CR byte, or k is the very end (k = size).",
        "assumptions": [
            "oracle: cpp/oracles/lines.hpp (terminator table per policy from doc/Inputs-and-Parsing.md 'Line Ending'; line content excludes the terminator as in 'Error Reporting')",
            "a position strictly inside a CRLF is judged against the answers consistent with either neighbouring line (plus the lone-LF / lone-CR reading under lf_crlf / cr_crlf)",
            "the harness knows the consumed byte count k from the rule it ran (bytes<K>, K tokens of the oracle's tokenisation, the run-time target of until<reached,...>), not from PEGTL's counters",
            "when at(p) is wrong the other three helpers (all defined through at()) are not judged for that position, and end_of_line/line_at are not called when at(p) is outside the data (they would scan from it)",
        ],
        "floors": _floors,
        "extra_cov": {"exhaustive_parts": ["all strings of length <= 8 over {LF,CR,a,b} x all offsets x 5 policies x eager/lazy with default counters, exact-size buffer, sources bytes/rep_any/until_eof/eol_rules/action"]},
    },
}
