import corpus

PLAN_QUICK = [('ctxf', ['v1']), ("contrib", ["v1", "v0"]), ('ctx', ['v1', 'v0', 'lazy1']), ('core', ['v1', 'v0']), ('conv', ['v1', 'v0']), ('exc', ['v1', 'v0']), ('act', ['v3'])]
PLAN_THOROUGH = [('ctxf', ['v1', 'lazy1']), ('contrib', ['v1', 'lazy1']), ('ctx', ['v1', 'v0', 'lazy1', 'v3']), ('core', ['v1', 'lazy1']), ('conv', ['v1', 'v0']), ('exc', ['v1', 'v4']), ('act', ['v3', 'v4'])]


def units(tier, seed):
    return corpus.units(PLAN_QUICK if tier == "quick" else PLAN_THOROUGH, tier, seed)


SPEC = {
    "units": units,
    "finish": {
        "rule": 'every rule invocation (Control<Rule>::match boundary, nested ones and hidden internal rules included) of every monitored run of the generated corpus is one observation: cursor snapshot (pointer, byte, line, column) on entry and exit. Violation: exit with false under rewind_mode::required and a moved cursor; a look-ahead rule exiting with a moved cursor; a success exiting before its entry. Runs are made with and without an action attached to the observed rule (an attached apply makes match() hold the guard and would mask a missing rewind). A case (grammar,input,configuration) is non-trivial when the reference needed more than 3 steps; the cells inv:<rule>:<mode>:fail:moved-inside count the only invocations that can violate (failed after the cursor had moved inside).',
        "floors": {'inv:internal::seq:required:fail:moved-inside': 50, 'inv:internal::plus:required:fail:moved-inside': 5, 'inv:internal::until:required:fail:moved-inside': 5, 'inv:internal::rep_min_max:required:fail:moved-inside': 1, 'inv:internal::if_then_else:required:fail:moved-inside': 1, 'inv:internal::rematch:required:fail:moved-inside': 1},
        "assumptions": ['trace monitor needs no model; rule types for which no consuming-then-failing invocation under rewind_mode::required was produced are visible in the evidence cells as absent, not as held'],
    },
}
