import corpus

PLAN_QUICK = [("atoms", ["v1", "lazy1", "eol0", "eol1", "eol2", "eol4", "lazyeol4", "lazyeol2"]), ('ctx', ['v1', 'lazy1']), ('core', ['v1', 'lazy1']), ('conv', ['v1', 'lazy1'])]
PLAN_THOROUGH = [('atoms', ['v1', 'lazy1', 'eol0', 'eol1', 'eol2', 'eol4', 'lazyeol4', 'lazyeol2']), ('ctx', ['v1', 'lazy1', 'eol1', 'eol4']), ('core', ['v1', 'lazy1', 'eol0', 'eol2']), ('conv', ['v1', 'lazy1', 'eol1', 'eol4']), ('exc', ['v1', 'lazy1'])]


def units(tier, seed):
    import os
    import vlib
    from vlib import Unit
    # inputs constructed with an initial position other than 0:1:1, eager against lazy, all end-of-line policies
    src = os.path.join(vlib.VERIF, "cpp", "drivers", "c06_initial.cpp")
    return [Unit("c06_initial", src=src, kind="asan", shards=4)] + corpus.units(PLAN_QUICK if tier == "quick" else PLAN_THOROUGH, tier, seed)


SPEC = {
    "units": units,
    "finish": {
        "rule": 'every observable position of every monitored run is one observation: in.position() at every control hook (start/success/failure/apply/raise), eager byte/line/column at every invocation entry and exit, action_input::position(), parse_error positions; each is compared with the ten-line position function of the consumed prefix (count of Eol::ch bytes), for eager and lazy inputs. A separate driver (cpp/drivers/c06_initial.cpp) constructs eager and lazy memory_inputs with six initial (byte, line, column) values through both constructors that accept one, tokenises all strings over {a, b, LF, CR, !} up to length 5 (6 in the thorough tier) plus seeded longer ones under all five end-of-line policies and compares action_input::position(), in.input().position(), in.byte(), the parse_error position and the final position with the position function started at the initial position, and eager with lazy observation by observation. Non-trivial case: reference needed more than 3 steps.',
        "floors": {'hook:start': 100000, 'action:apply': 1000, 'initial:action-positions': 100000, 'initial:initial-column': 10000, 'initial:initial-byte-or-line': 10000, 'initial:parse_error-positions': 10000},
        "assumptions": ['UTF-16/32 and multi-byte binary rules are excluded as the property says'],
    },
}
