import corpus

PLAN_QUICK = [("atoms", ["v1", "lazy1", "eol0", "eol1", "eol2", "eol4", "lazyeol4", "lazyeol2"]), ('ctx', ['v1', 'lazy1']), ('core', ['v1', 'lazy1']), ('conv', ['v1', 'lazy1'])]
PLAN_THOROUGH = [("atoms", ["v1", "lazy1", "eol0", "eol1", "eol2", "eol4", "lazyeol4", "lazyeol2"]), ('ctx', ['v1', 'lazy1', 'eol0', 'eol1', 'eol2', 'eol4']), ('core', ['v1', 'lazy1', 'eol0', 'eol1', 'eol2', 'eol4']), ('conv', ['v1', 'lazy1', 'eol1', 'eol4']), ('exc', ['v1', 'lazy1'])]


def units(tier, seed):
    return corpus.units(PLAN_QUICK if tier == "quick" else PLAN_THOROUGH, tier, seed)


SPEC = {
    "units": units,
    "finish": {
        "rule": 'every observable position of every monitored run is one observation: in.position() at every control hook (start/success/failure/apply/raise), eager byte/line/column at every invocation entry and exit, action_input::position(), parse_error positions; each is compared with the ten-line position function of the consumed prefix (count of Eol::ch bytes), for eager and lazy inputs. Non-trivial case: reference needed more than 3 steps.',
        "floors": {'hook:start': 100000, 'action:apply': 1000},
        "assumptions": ['UTF-16/32 and multi-byte binary rules are excluded as the property says'],
    },
}
