"""C03 = the shipped-grammar driver (exact-size / poisoned-tail / buffer placements) + every ASan-built configuration of
the generated corpus, where the window hook, the cursor-inside-input check of the match() wrapper and the sanitizers watch."""
import importlib.util
import os

import corpus

_p = os.path.join(os.path.dirname(os.path.abspath(__file__)), "c03_shipped.py")
_s = importlib.util.spec_from_file_location("c03_shipped_units", _p)
_m = importlib.util.module_from_spec(_s)
_s.loader.exec_module(_m)

PLAN_QUICK = [("ctx", ["v1"]), ("core", ["v1"]), ("conv", ["v1"]), ("exc", ["v4"]), ("act", ["v4"]), ("tree", ["tree0"]), ("buf", ["bufA1", "bufB1"]), ("state", ["v5"])]
PLAN_THOROUGH = PLAN_QUICK + [("core", ["gasan1"]), ("conv", ["gasan1"]), ("ctx", ["v4", "tree0"])]


def units(tier, seed):
    return _m.units(tier, seed) + corpus.units(PLAN_QUICK if tier == "quick" else PLAN_THOROUGH, tier, seed)


_floors = dict(_m.floors())
_floors.update({"run:success": 10000, "run:local-failure": 10000, "hook:start": 100000, "class:buffer_input-chunk1-small": 1000})

SPEC = {
    "units": units,
    "finish": {
        "rule": _m.RULE + " PLUS the generated grammar corpus (context matrix, core, convenience, exception, action, tree, state and buffer profiles) in the clang ASan+UBSan builds: every input sits in an exact-size heap block or is the prefix of a larger block "
                "whose poisoned tail is filled with bytes that would extend a match; the window hook in peek_char()/bump*() reports any request outside [current,end), the match() wrapper checks that the cursor stays inside the input at every invocation boundary, "
                "rematch sub-input windows are poisoned beyond their end while they are active, and the not-yet-delivered part of a buffer_input's buffer is poisoned after every require/discard.",
        "assumptions": list(_m.ASSUMPTIONS) + ["red-zone / poisoning tools miss intra-object overflows and reads of stale but unpoisoned bytes"],
        "floors": _floors,
    },
}
