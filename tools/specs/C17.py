from props import driver

SPEC = {
    "units": driver("c17_unescape", "c17_unescape.cpp"),
    "finish": {
        "rule": "cases: every code point 0..0x112000 (thorough 0..0x200000) plus 2^k+-2 and random values above U+10FFFF for utf8_append_utf32; "
                "all 1-,2-,3-tuples of \\uXXXX escapes over 16 boundary units x separator placement plus seeded random tuples for unescape_j through the real JSON string grammar; "
                "all hex strings up to 4 digits (22 digit characters) per target type plus seeded wider ones for unhex_string; all \\xHH, all \\uHHHH, boundary+random \\UHHHHHHHH, all C escapes through the example grammar. "
                "Cases are distinct by construction (enumeration without repetition; random tuples are de-duplicated by hash); every case reaches a helper with a value the oracle classifies, so every distinct case counts as non-trivial.",
        "assumptions": ["oracle: cpp/oracles/utf_codec.hpp (table-driven, independent of PEGTL)", "the JSON and example grammars deliver the escapes to the actions (checked: result strings are compared)"],
        "floors": {"append:*": 0x110000, "unescape_j:*": 1000, "unescape_u:4digits": 0x10000, "unescape_x": 512},
        "extra_cov": {"exhaustive_parts": ["utf8_append_utf32 over 0..0x110000", "unescape_u over all 4-digit escapes", "unescape_x over all byte values"]},
    },
}
