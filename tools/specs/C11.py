import corpus

PLAN_QUICK = [("cycn", ["ana", "gana"]), ("cyc", ["ana"])]
PLAN_THOROUGH = [("cycn", ["ana", "gana"]), ("cyc", ["ana"]), ("core", ["ana"])]


def units(tier, seed):
    return corpus.units(PLAN_QUICK if tier == "quick" else PLAN_THOROUGH, tier, seed)


SPEC = {
    "units": units,
    "finish": {
        "rule": "cases = generated grammars that put a cycle through every rule type that has analyze_traits: for every template and sub-rule slot, the slot holds a direct self-reference, an indirect one, a reference behind a consuming prefix (negative control), one behind a second sor alternative, or a nullable body under a repetition, with the other slots filled by nullable / predicate / failing / consuming rules. "
                "For each grammar analyze< G >( -1 ) is called and all inputs up to a length bound are searched for a witness: the reference interpreter reports a cycle without progress AND the fuel-limited monitored real run exceeds its invocation / nesting budget. Violation: a doubly confirmed witness for a grammar with 0 problems. "
                "A grammar is counted as non-trivial when a confirmed loop witness exists (the analysis had something to find); evaluations = real runs made on reference loop witnesses.",
        "floors": {"cyc:flagged:loops:direct": 20, "cyc:flagged:loops:indirect": 20, "cyc:flagged:loops:loopbody": 5, "cyc:flagged:loops:second_alt": 5, "cyc:certified:no-loop-found:guarded": 20},
        "assumptions": ["'no input' is bounded by the explored input lengths", "a false positive of the analysis is not a violation", "strict / star_strict have no analyze_traits (do not compile under analyze<>) and are left out"],
    },
}
