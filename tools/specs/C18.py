import os

from props import D
from vlib import Unit

# One source, seven binaries (C18_PART): the tables of guarded grammars (limit N x rule kind per context) are
# expensive to compile, so every context is its own translation unit, built in parallel at -O0.
PARTS = [
    (1, "depth", 8),
    (2, "bytes_top", 16),
    (3, "bytes_caught", 16),
    (4, "check_bytes", 16),
    (5, "bytes_rematch", 16),
    (6, "bytes_nested2", 16),
    (7, "bytes_nested5", 16),
]


def units(tier, seed):
    src = os.path.join(D, "c18_limits.cpp")
    return [Unit("c18_limits_%s" % name, src=src, kind="asan0", defs=["C18_PART=%d" % part], shards=shards) for part, name, shards in PARTS]


SPEC = {
    "units": units,
    "finish": {
        "rule": "depth cases: (grammar, N, input) with grammar in {nest, star-of-nest, sor/must recursion, nest with the depth error swallowed by try_catch_return_false at a non-zero depth}, "
                "N in 0..6, input = every string over '()' up to length 10 (thorough 14) resp. over '[]x' up to length 7 (thorough 9) plus structured inputs of nesting 0..9 "
                "(balanced, closer missing, garbage / throwing action / must<> failure at depth k, two and three groups); each case is run, restart()ed and run again. "
                "bytes cases: (context, rule kind, N, offset(s), input) with context in {top level, under try_catch_return_false, check_bytes, inside a rematch<> sub-input, "
                "limit_bytes<N> inside limit_bytes<2|5>}, 8 rule kinds (3 greedy, 2 look-ahead, 1 failing, 2 throwing), N in 0..6, the guarded rule starting at every offset 0..10 of "
                "inputs of length <= 10 (all bodies over 'ab!' up to length 5, thorough 8, plus seeded longer ones), each in an exact-size buffer and as prefix of a poisoned buffer "
                "whose tail would extend the match. Cases are distinct by construction (enumeration; seeded ones de-duplicated by hash). "
                "A case counts as non-trivial when the limit is binding or at its boundary: depth: the unguarded baseline's maximal nesting of the guarded rule is >= N-1; "
                "limit_bytes: the smallest window from which on the unguarded rule behaves as on all remaining input is >= N-1 bytes; "
                "check_bytes: the unguarded rule succeeds consuming >= N-1 bytes.",
        "assumptions": [
            "model of a guarded invocation = the same rule without guard on a fresh exact-size memory_input over exactly the bytes [start, start+min(N,remaining)), plus the guards' documented errors "
            "(limit_bytes: 'maximum allowed rule consumption reached' when the rule succeeds having used up a window that is shorter than the remaining input; "
            "check_bytes: '... exceeded' when it succeeds with more than N consumed; limit_depth: '... nesting depth exceeded' when nesting N+1 is entered)",
            "limit_depth<N> admits nesting N and rejects N+1 (code: current_depth() > Maximum); N = 0 rejects the first entry",
            "when the window observed at the start hook is wrong the monitor reports it, skips the result comparison of that run (consequences of the same cause; counted in bytes-tainted-runs) "
            "and, if the window lies outside the buffer, ends the run by an exception of its own (which also exercises restoration on the exception path)",
        ],
        "floors": {
            "depth|N0|*": 1000, "depth|N1|*": 1000, "depth|N2|*": 1000, "depth|N3|*": 1000, "depth|N4|*": 1000, "depth|N5|*": 1000, "depth|N6|*": 1000,
            "depth|N0|one-over|*": 10, "depth|N3|at-limit|*": 100, "depth|N3|one-over|*": 100, "depth|N6|at-limit|*": 20, "depth|N6|one-over|*": 20, "depth|N6|beyond|*": 20,
            "depth-grammar|nest|*": 5000, "depth-grammar|star-of-nest|*": 5000, "depth-grammar|sor-must-recursion|*": 5000, "depth-grammar|nest-with-swallowed-depth-error|*": 5000,
            "depth-grammar|nest|exception|*": 20, "depth-grammar|sor-must-recursion|parse_error|*": 1000, "depth-grammar|star-of-nest|local-failure|*": 1000,
            "bytes|limit_bytes|N0|*": 10000, "bytes|limit_bytes|N1|*": 10000, "bytes|limit_bytes|N2|*": 10000, "bytes|limit_bytes|N3|*": 10000,
            "bytes|limit_bytes|N4|*": 10000, "bytes|limit_bytes|N5|*": 10000, "bytes|limit_bytes|N6|*": 10000,
            "bytes|check_bytes|N0|*": 3000, "bytes|check_bytes|N3|*": 3000, "bytes|check_bytes|N6|*": 3000,
            "bytes|limit_bytes|N3|success|offset-zero": 500, "bytes|limit_bytes|N3|success|offset-nonzero": 500,
            "bytes|limit_bytes|N3|local-failure|offset-zero": 200, "bytes|limit_bytes|N3|local-failure|offset-nonzero": 500,
            "bytes|limit_bytes|N3|limit-error|offset-zero": 200, "bytes|limit_bytes|N3|limit-error|offset-nonzero": 500,
            "bytes|limit_bytes|N3|inner-parse_error|offset-zero": 50, "bytes|limit_bytes|N3|inner-parse_error|offset-nonzero": 200,
            "bytes|limit_bytes|N3|inner-exception|offset-zero": 50, "bytes|limit_bytes|N3|inner-exception|offset-nonzero": 200,
            "bytes|check_bytes|N3|limit-error|offset-zero": 50, "bytes|check_bytes|N3|limit-error|offset-nonzero": 200,
            "bytes|check_bytes|N3|success|offset-nonzero": 200,
            "bytes-ctx|top|*": 50000, "bytes-ctx|top-caught|*": 50000, "bytes-ctx|rematch|*": 20000, "bytes-ctx|nested-in-limit2|*": 20000, "bytes-ctx|nested-in-limit5|*": 20000,
            "bytes-kind|greedy|*": 50000, "bytes-kind|look-ahead|*": 50000, "bytes-kind|failing|*": 20000, "bytes-kind|throwing|*": 50000,
            "depth-nontrivial": 1000, "bytes-nontrivial|limit_bytes": 1000, "bytes-nontrivial|check_bytes": 1000,
        },
        "extra_cov": {"exhaustive_parts": ["guarded rule at every offset 0..10 of every input 'a'^o . body, body over 'ab!' up to length 5 (thorough 8), o + |body| <= 10, for every N in 0..6 and every rule kind",
                                           "every string over '()' up to length 10 and over '[]x' up to length 7 for every depth limit 0..6"]},
    },
}
