import corpus

PLAN_QUICK = [('state', ['v5']), ('act', ['v5']), ('ctx', ['v3', 'v4', 'lazy3']), ('act', ['v3', 'v4', 'lazy3']), ('core', ['v1'])]
PLAN_THOROUGH = [('state', ['v5']), ('act', ['v5']), ('ctx', ['v3', 'v4', 'lazy3', 'v1']), ('act', ['v3', 'v4', 'lazy3', 'v1']), ('core', ['v1', 'v2']), ('conv', ['v3'])]


def units(tier, seed):
    return corpus.units(PLAN_QUICK if tier == "quick" else PLAN_THOROUGH, tier, seed)


SPEC = {
    "units": units,
    "finish": {
        "rule": "cases = (grammar, input, attachment variant): void apply/apply0, bool-vetoing (deterministic predicate of rule and span) and throwing actions attached to arbitrary visible rules, plus apply<>/apply0<>/if_apply<> rules, enable/disable/at/not_at nesting, eager and lazy inputs. Oracles: the transactional action log (truncated whenever an enclosing invocation fails or throws) must equal, in order, the action events of the reference derivation; every raw invocation is checked for begin = entry cursor of its rule's invocation, end = parse cursor, not inside look-ahead/disabled sections, and a veto must end the invocation with false and the cursor restored. Non-trivial: reference needed more than 3 steps.",
        "floors": {'action:apply': 1000, 'action:apply0': 1000, 'action:vetoed': 200, 'action:threw': 50, 'actionlog:events': 1000, 'action:class': 100},
        "assumptions": ["grammars whose documented expansion repeats a sub-rule inside a predicate (if_then_else, until, strict, ...) are not run with vetoing/throwing attachments: 'equivalent' is only defined for side-effect-free sub-rules"],
    },
}
