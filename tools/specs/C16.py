from props import driver

# instantiations driven by cpp/drivers/c16_rawstring.cpp (cell prefix = instantiation name)
_B = "raw_string<[=]"
_INSTS_ALL_LEVELS = [_B + ">", _B + ",any>", _B + ",not_one<a>>", _B + ",any,not_one<a>>", _B + ",not_one<\\n>>",
                     "raw_string<{-}>", "raw_string<{-},any>", "raw_string<{-},not_one<a>>", "raw_string<<#>>", "raw_string<<#>,any,not_one<a>>", "raw_string<<#>,not_one<\\n>>"]
_INSTS_CAN_REJECT = [_B + ",not_one<a>>", _B + ",any,not_one<a>>", _B + ",not_one<\\n>>", "raw_string<{-},not_one<a>>", "raw_string<<#>,any,not_one<a>>", "raw_string<<#>,not_one<\\n>>"]

_floors = {}
for _i in _INSTS_ALL_LEVELS:
    for _l in ("0", "1", "2", "3", "4+"):
        _floors["%s|match-level-%s" % (_i, _l)] = 20
    _floors["%s|no-open" % _i] = 100
    _floors["%s|unterminated" % _i] = 100
for _i in _INSTS_CAN_REJECT:
    _floors["%s|content-rule-failed" % _i] = 100
# the line ending behind the opening bracket, per policy: every form the policy defines must have been skipped,
# and every end-of-line-like character the policy does not define must have been seen to stay in the content
for _p, _cells in {"lf": ["skipped-lf", "kept-cr"], "cr": ["skipped-cr", "kept-lf"], "crlf": ["skipped-crlf", "kept-lf", "kept-cr"],
                   "lf_crlf": ["skipped-lf", "skipped-crlf", "kept-cr"], "cr_crlf": ["skipped-cr", "skipped-crlf", "kept-lf"]}.items():
    for _c in _cells:
        _floors["after-open|eol::%s|%s" % (_p, _c)] = 1000
    _floors["after-open|eol::%s|no-eol-char" % _p] = 1000
_floors["buffer|poisoned-tail-with-close-completing-filler"] = 10000
_floors["random|*"] = 10000
_floors["sweep|raw_string<[=]>|eol::lf_crlf|lazy|strings"] = 100000

SPEC = {
    "units": driver("c16_rawstring", "c16_rawstring.cpp"),
    "finish": {
        "rule": "cases: every string up to length 9 (thorough 10) over the six symbols {Open, Marker, Close, LF, CR, 'a'} for raw_string<'[','=',']'> under eol::lf_crlf "
                "(direct under rewind_mode::required with and without a content action, and embedded as sor<RAW,rest>, seq<opt<RAW>,rest>, seq<star<RAW>,rest>); every string up to length 8 (thorough 9) "
                "for the other four end-of-line policies, for the content rules any / not_one<'a'> / any,not_one<'a'> / not_one<'\\n'>, for lazy tracking and for the custom triples {-} and <#>; "
                "up to length 7 (8) for further combinations and for the poisoned-tail buffers whose filler would complete a closing bracket; plus seeded random strings of length 11..64 built from "
                "brackets of levels 0..4, near-miss closing brackets and line endings, each run through all five policies and the content-rule variants of its triple. "
                "distinct_nontrivial counts distinct input strings (per character triple) that start with a complete opening long bracket, i.e. the independent scanner got past the opening and the close search / "
                "content rules / line-ending skip were exercised; a string is counted once, in the primary configuration of its triple (swept strings are distinct by construction, random strings are longer than "
                "the sweep bound and de-duplicated by hash).",
        "assumptions": ["oracle: cpp/oracles/lua_longbracket.hpp (std::string_view::find on the complete closing bracket, no PEGTL code)",
                        "content rules are modelled as documented by contrib_raw_string.cpp: rounds of seq<Contents...>, the closing bracket is looked for between rounds",
                        "a nullable content rule is not instantiated: raw_string_until would loop forever on it (analyze<> flags such a grammar)",
                        "the skipped line ending is the one defined by the input's Eol policy (raw_string_open calls the eol rule)"],
        "floors": _floors,
        "extra_cov": {"exhaustive_parts": ["all strings up to the stated length over the 6-symbol alphabet, per listed configuration (cells sweep|...)"]},
    },
}
