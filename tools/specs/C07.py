import corpus

PLAN_QUICK = [("buf", ["bufA1", "bufA3", "bufB1"])]
# ("core", ["bufA3"]) was part of this plan and was removed: see DESIGN.md section 0 (the loop-exclusion reference does not model the
# vetoing attachments of that configuration exactly for grammars that were not generated for buffer runs; real non-terminating runs were not excluded)
PLAN_THOROUGH = [("buf", ["bufA1", "bufA3", "bufB1"]), ("conv", ["bufA1", "bufB1"])]


def units(tier, seed):
    return corpus.units(PLAN_QUICK if tier == "quick" else PLAN_THOROUGH, tier, seed)


SPEC = {
    "units": units,
    "finish": {
        "rule": "cases = (grammar, input, input class, buffer geometry, reader schedule): corpus grammars with discard only between top-level parts and require< N > atoms; every input (all short strings plus lengths 63..129 and 4095, 4096, 4097, 8192) is parsed through memory_input eager (baseline), lazy, string_input, read_input, mmap_input, file_input, argv_input, istream_input, cstream_input and "
                "buffer_input with Chunk 1, 3, 64, six reader schedules of short reads (always 1, alternating 1/n, 1-2-3, seeded random) and every capacity from Chunk up to the need + 2; the observation record (result, consumed, raw action trace with spans and positions, error text) must equal the baseline's, except that std::overflow_error must occur exactly when the largest offset+amount of any require() "
                "(reported by the buffer_require hook on an ample run) exceeds the capacity. The not-yet-delivered part of the buffer is poisoned after every require/discard. Non-trivial: reference needed more than 3 steps.",
        "floors": {"class:buffer_input-chunk1-short-reads": 10000, "class:buffer_input-chunk3-small": 1000, "small-buffer:overflow-expected": 1000, "small-buffer:fits": 1000,
                   "class:mmap_input": 1000, "class:istream_input": 1000, "class:cstream_input": 1000, "class:argv_input": 1000, "class:memory_input-lazy": 1000, "buffer:reader-calls": 10000},
        "assumptions": ["readers follow the documented contract (zero only at the end)", "discards only at documented-safe points", "grammars that catch std::exception / ... are excluded from the small-buffer runs"],
    },
}
