import corpus

PLAN_QUICK = [('exc', ['treemif']), ('tree', ['treemif']), ("tree", ["tree0", "tree1", "tree2", "tree3"]), ("chain", ["tree3", "tree0", "tree2"]), ("ctx", ["tree0"])]
PLAN_THOROUGH = [('exc', ['treemif']), ('tree', ['treemif']), ("tree", ["tree0", "tree1", "tree2", "tree3", "treelazy"]), ("chain", ["tree3", "tree0", "tree2", "tree1"]), ("ctx", ["tree0", "tree2"]), ("exc", ["tree3"]), ("conv", ["tree1"])]


def units(tier, seed):
    return corpus.units(PLAN_QUICK if tier == "quick" else PLAN_THOROUGH, tier, seed)


SPEC = {
    "units": units,
    "finish": {
        "rule": "cases = (grammar, input, selector table, action attachment): parse_tree::parse runs on the generated corpus (core + convenience + must/try_catch rules, recursion, the context matrix, and chains of 5..11 unselected named rules around a selected leaf that straddle the is_leaf<8> optimisation) "
                "with selectors = all rules / random subsets / subsets with remove_content, fold_one, discard_empty / sparse chain-directed selection, without actions and with void, vetoing and throwing actions; the returned tree (type, begin, end, nesting, order, content kept or removed) is compared with the "
                "visible successful matches of the reference derivation filtered by the same selector with the transformers applied bottom-up; null tree <=> the plain parse does not succeed; node contents must lie inside the input. Non-trivial: reference needed more than 3 steps.",
        "floors": {"tree:trees": 20000, "tree:nodes": 50000, "tree:none-expected": 1000, "action:vetoed": 50, "run:parse_error": 100},
        "assumptions": ["custom node types with their own emplace_back/unwind are out of reach", "node positions on lazy inputs are a known finding (C06/C12)"],
    },
}
