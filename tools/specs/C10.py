import os

from props import D
from vlib import Unit

# One source, six binaries (-DC10_PART=k): the ~1400 instantiations of parse<> are sliced so that the slices
# compile in parallel. 0 ascii+abnf+utf8, 1 utf16+utf32, 2/3 uint8 (all 256 masks), 4 uint16, 5 uint32+uint64.
SLICES = [(0, 16), (1, 16), (2, 4), (3, 4), (4, 8), (5, 8)]


def units(tier, seed):
    return [Unit("c10_units_p%d" % k, src=os.path.join(D, "c10_units.cpp"), kind="asan", defs=["C10_PART=%d" % k], shards=n, timeout=3000)
            for (k, n) in SLICES]


QUICK_FLOORS = {
    # every family, accepted and rejected candidates
    "ascii:*": 2000000, "abnf:*": 150000,
    "utf8:any:accept": 1000000, "utf8:any:reject": 5000000, "utf8:range:accept": 1000000, "utf8:range:reject": 1000000,
    "utf8:one:accept": 10, "utf8:not_one:reject": 10, "utf8:ranges:accept": 1000000, "utf8:string:accept": 10, "utf8:string:reject": 1000, "utf8:bom:accept": 1,
    "utf16_be:any:accept": 1000000, "utf16_be:any:reject": 10000, "utf16_le:any:accept": 1000000, "utf16_le:any:reject": 10000,
    "utf16_be:string:accept": 10, "utf16_le:string:accept": 10,
    "utf32_be:any:accept": 1000000, "utf32_be:any:reject": 100000, "utf32_le:any:accept": 1000000, "utf32_le:any:reject": 100000,
    "utf32_be:string:accept": 10, "utf32_le:string:accept": 10,
    "uint8:mask_one:accept": 10000, "uint8:mask_one:reject": 10000, "uint8:mask_not_range:accept": 10000, "uint8:mask_not_range:reject": 10000,
    "uint8:mask_string:accept": 100, "uint8:string:accept": 100,
    "uint16_be:mask_range:accept": 10000, "uint16_be:mask_range:reject": 10000, "uint16_le:mask_range:accept": 10000, "uint16_le:mask_range:reject": 10000,
    "uint16_be:one:accept": 10, "uint16_le:one:accept": 10, "uint16_be:mask_string:accept": 1, "uint16_le:mask_string:accept": 1,
    "uint32_be:mask_one:accept": 100, "uint32_le:mask_one:accept": 100, "uint32_be:range:accept": 100, "uint32_le:range:accept": 100, "uint32_be:range:reject": 100, "uint32_le:range:reject": 100,
    "uint64_be:mask_one:accept": 100, "uint64_le:mask_one:accept": 100, "uint64_be:range:accept": 100, "uint64_le:range:accept": 100, "uint64_be:range:reject": 100, "uint64_le:range:reject": 100,
    # the sweeps that are complete in both tiers
    "sweep:utf8:all-1-byte": 256, "sweep:utf8:all-2-byte": 65536, "sweep:utf8:all-3-byte": 1 << 24, "sweep:utf8:4-byte-boundary": 256000,
    "sweep:utf8:code-point": 0x110000, "sweep:utf16_be:code-point": 0x110000, "sweep:utf16_le:code-point": 0x110000,
    "sweep:utf32_be:code-point": 0x110000, "sweep:utf32_le:code-point": 0x110000,
    "sweep:utf16:all-2-byte": 65536, "sweep:utf16:boundary-pairs": 30000, "sweep:utf32:boundary+random-values": 100000,
    "sweep:truncated-units-rejected-or-reported": 100000,
}
THOROUGH_FLOORS = {
    "sweep:utf8:all-4-byte-lead>=C0": 64 << 24, "sweep:utf16:all-pairs": 1 << 32, "sweep:utf32:all-units": 1 << 32,
}

QUICK_PARTS = [
    "every byte value (as a 1-byte input, and followed by trailing bytes) for every ASCII / abnf class rule, every one/not_one/range/not_range/ranges instantiation and every uint8 rule, uint8 mask_one and mask_not_range for all 256 masks",
    "all 2^16 two-byte inputs (and 2^16 three-byte inputs) for every string/istring/two/CRLF/uint8::string/uint8::mask_string instantiation",
    "UTF-8: all 1-byte, all 2-byte and all 2^24 3-byte inputs on exact-size blocks (this contains every truncation of every well-formed sequence)",
    "UTF-8 / UTF-16 BE+LE / UTF-32 BE+LE: the encoding of every code point 0..0x10FFFF for every rule of the family (surrogates and, for UTF-8/UTF-32, 0x110000..0x11FFFF as ill-formed units)",
    "UTF-8: the overlong 2-, 3- and 4-byte forms of every code point below 0x10000",
    "UTF-16 BE+LE: all 2^16 single units on exact 2-byte blocks, and followed by one more byte (4 values)",
    "uint16 BE+LE: all 2^16 values for every rule (13 masks)",
]
THOROUGH_PARTS = [
    "UTF-8: all 2^30 four-byte inputs with a lead byte >= 0xC0 (core rules any / not_range / ranges)",
    "UTF-16 BE+LE: all 2^32 pairs of 16-bit units (core rules)",
    "UTF-32 BE+LE: all 2^32 units (core rules)",
]


def post(recs, tier, seed):
    floors = dict(QUICK_FLOORS)
    parts = list(QUICK_PARTS)
    if tier == "thorough":
        floors.update(THOROUGH_FLOORS)
        parts += THOROUGH_PARTS
    return recs, {"floors": floors, "extra_cov": {"exhaustive_parts": parts}}


SPEC = {
    "units": units,
    "post": post,
    "finish": {
        "rule": "a case is a pair (rule instantiation, input bytes); the real rule runs through tao::pegtl::parse<Rule, nothing, normal, action, rewind_mode::required> on a memory_input<> over an exact-size heap block "
                "(additionally: a poisoned block whose tail holds the missing bytes, and an odd start address, for boundary units) and (matched, bytes consumed) is compared with the independent model "
                "(unit decoded by cpp/oracles/utf_codec.hpp + unit_sets.hpp, set membership from the documented template arguments / cpp/oracles/ascii_classes.hpp). "
                "Inputs are enumerated (complete sub-spaces are listed under exhaustive_parts) or drawn from de-duplicated seeded pools of boundary-structured and random values; "
                "every pair with a non-empty input counts as non-trivial (decoder and membership test are both exercised); cells are <family>:<rule kind>:<accept|reject> by the model's verdict.",
        "assumptions": [
            "oracles: cpp/oracles/utf_codec.hpp (Unicode Table 3-7), unit_sets.hpp (positional arithmetic for byte order, span sets), ascii_classes.hpp (member lists from doc/Rule-Reference.md, RFC 5234 B.1); none includes PEGTL",
            "top-level rewind_mode::required, so that a failing rule must leave the cursor where it was (parse<> defaults to optional in this tree, where a failing seq<> may stop anywhere); success and its length do not depend on the mode",
            "template arguments of ascii::range/not_range/ranges never straddle 0x7f/0x80: the documented closed range is then the same set for signed and unsigned char",
            "abnf::HEXDIG accepts a-f as well (RFC 5234 2.3: literal strings are case-insensitive)",
            "the 64-bit binary rules and the 32-bit ones are sampled (boundary-structured + seeded random values), not enumerated",
        ],
    },
}
