"""Driver c03_shipped (property C03): shipped grammars and rule families on truncated / mutated documents in
exact-size, poisoned-tail and buffer_input placements.  One source, eleven binaries (C03_PART), compiled in
parallel at -O0.  Exports units(tier, seed); RULE / FLOORS / ASSUMPTIONS describe what this driver contributes to
the C03 evidence (the property spec itself is assembled elsewhere)."""
import hashlib
import os

import vlib
from props import D
from vlib import Unit

# (part, name, shards): memory placements 1-8, buffer_input placements 9-11
PARTS = [
    (1, "json", 8),
    (2, "uri_iri", 10),
    (3, "http", 10),
    (4, "lua53", 12),
    (5, "proto3_double_abnf", 10),
    (6, "integer_rawstring_rep_predicates", 8),
    (7, "utf_uint", 10),
    (8, "core_eol_subinputs", 10),
    (9, "buffer_json_uri_http", 10),
    (10, "buffer_lua53_proto3", 8),
    (11, "buffer_rules", 6),
]


def _abnf_hash():
    """Part 5 includes src/example/pegtl/abnf2pegtl.cpp; vlib's tree hash only covers the examples' headers, so the
    content of that file goes into the unit's defines (and with them into the key of the cached binary)."""
    try:
        with open(os.path.join(vlib.REPO, "src", "example", "pegtl", "abnf2pegtl.cpp"), "rb") as f:
            return hashlib.sha1(f.read()).hexdigest()[:12]
    except OSError:
        return "missing"


def units(tier, seed):
    src = os.path.join(D, "c03_shipped.cpp")
    us = []
    for part, name, shards in PARTS:
        defs = ["C03_PART=%d" % part]
        if part == 5:
            defs.append("C03_ABNF2PEGTL_CPP=0x%s" % _abnf_hash())
        us.append(Unit("c03_shipped_%s" % name, src=src, kind="asan0", defs=defs, shards=shards))
    return us


GROUPS_MEM = ["json", "uri", "iri", "http", "lua53", "proto3", "double", "abnf", "integer", "raw_string", "rep", "predicates", "utf8", "utf16", "utf32", "uint",
              "core@eol::lf_crlf", "core@eol::lf", "core@eol::cr", "core@eol::crlf", "core@eol::cr_crlf", "sub-input"]
GROUPS_BUF = ["json", "uri", "iri", "http", "lua53", "proto3", "integer", "raw_string", "rep", "utf8", "utf16", "utf32", "uint",
              "core@eol::lf_crlf", "core@eol::lf", "core@eol::cr", "core@eol::crlf", "core@eol::cr_crlf"]


def floors():
    f = {}
    for g in GROUPS_MEM:
        f["%s|valid|accept|memory" % g] = 1
        f["exact-size-runs|%s" % g] = 200
        f["%s|prefix|*" % g] = 100
        f["%s|mut|*" % g] = 100
        f["cut|%s|*" % g] = 10      # prefixes that end inside a multi-byte construct
    for g in GROUPS_BUF:
        f["%s|prefix|accept|buffer" % g] = 1
    for g in ("json", "uri", "http", "integer", "raw_string", "utf8", "utf16"):
        f["%s|prefix|reject|memory" % g] = 20
    for g in ("json", "uri", "http", "lua53", "proto3", "abnf"):
        f["%s|prefix|exception|memory" % g] = 20
    # the truncations that are the point
    f.update({
        "cut|json|after-backslash": 20, "cut|json|inside-u-escape": 40, "cut|json|inside-utf8-sequence": 20, "cut|json|inside-numeral": 20, "cut|json|inside-word": 20, "cut|json|between-cr-and-lf": 2,
        "cut|uri|inside-pct-encoding": 20, "cut|uri|inside-numeral": 40, "cut|iri|inside-utf8-sequence": 20, "cut|iri|inside-pct-encoding": 10,
        "cut|http|between-cr-and-lf": 40, "cut|http|inside-numeral": 20, "cut|http|after-backslash": 4, "cut|http|inside-pct-encoding": 2,
        "cut|lua53|inside-long-bracket-close": 4, "cut|lua53|inside-long-bracket-open": 4, "cut|lua53|after-backslash": 4, "cut|lua53|inside-u-escape": 4, "cut|lua53|inside-x-escape": 4,
        "cut|lua53|inside-numeral": 10, "cut|lua53|inside-word": 40, "cut|lua53|inside-utf8-sequence": 4, "cut|lua53|between-cr-and-lf": 1,
        "cut|proto3|after-backslash": 2, "cut|proto3|inside-x-escape": 2, "cut|proto3|inside-word": 40, "cut|proto3|inside-numeral": 4,
        "cut|abnf|between-cr-and-lf": 2, "cut|abnf|inside-numeral": 4, "cut|double|inside-numeral": 20,
        "cut|integer|inside-numeral": 500,
        "cut|raw_string|inside-long-bracket-close": 40, "cut|raw_string|inside-long-bracket-open": 20, "cut|raw_string|inside-utf8-sequence": 10, "cut|raw_string|between-cr-and-lf": 4,
        "cut|utf8|inside-utf8-sequence": 200, "cut|utf16|inside-code-unit": 200, "cut|utf16|between-surrogates": 40, "cut|utf32|inside-code-unit": 200, "cut|uint|inside-code-unit": 500,
        "cut|core@eol::lf_crlf|between-cr-and-lf": 20, "cut|core@eol::crlf|between-cr-and-lf": 20, "cut|core@eol::cr_crlf|between-cr-and-lf": 20,
        "cut|predicates|inside-utf8-sequence": 10, "cut|sub-input|inside-utf8-sequence": 4,
        "sub-window-model-checks|sub-input": 200,
        "buffer-overflow_error": 20,
        "poisoned-tail-runs": 100000,
    })
    return f


RULE = ("c03_shipped: for every target (shipped grammar or rule, see the inv:<target> cells) a set of valid documents (hand-written ones containing every multi-byte construct of the grammar plus "
        "seeded random ones); from each document: the document, EVERY proper prefix (truncation at every byte offset), single-byte replacements at every offset from the hostile set "
        "{00 80 C2 E0 F0 F4 FF \" \\ 7 ] CR LF} plus structural bytes (quick: the 13 hostile bytes plus 2 seeded structural bytes per offset; thorough: all, incl. per-grammar structural bytes), and single-byte deletions/insertions "
        "(quick: 40 seeded offsets per document, thorough: every offset). Each (target, input) pair runs on a memory_input in a poisoned-tail block whose tail holds match-extending bytes "
        "(window hook armed) and, when the hook was silent, in an exact-size heap block; results (verdict, bytes consumed, action output) must agree. Buffer parts: documents, every prefix and "
        "2 replacements per offset through buffer_input<reader,Eol,std::string,4> with an ample (4092) and a small (4..20) maximum, short reads, unfilled buffer tail poisoned. "
        "Inputs are de-duplicated per target by hash before they run. distinct_nontrivial = distinct (target, input) pairs with input length >= 1 where the input is a proper prefix or a "
        "single-byte mutation of a valid document (the documents themselves and the empty prefix are not counted).")

ASSUMPTIONS = [
    "any exception type is acceptable for C03; only memory safety is judged",
    "memory the sanitizer cannot tell apart is not covered: reads behind a rematch<>/limit_bytes<> sub-window are ordinary readable input, so only the window hook (peek_char/bump) or a result that differs "
    "from the model (inner rule on an exact-size copy of the sub-window) shows them",
    "buffer_input runs leave out `everything` and chunk sizes near SIZE_MAX (require(SIZE_MAX) overflows a pointer comparison: DESIGN.md section 6 row 10, a C07 matter)",
    "two http documents with a chunk size near SIZE_MAX are not valid (they are part of document-not-accepted-by-a-target, which also counts documents of a shared set that a secondary target of the job does not accept, e.g. relative references for uri::URI); they are there for chunk_data's in.size(size)",
    "the ABNF grammar is taken from src/example/pegtl/abnf2pegtl.cpp by including the .cpp with main renamed (its global table of rule names is cleared before every run); "
    "a hash of that file is passed as a define so that the cached binary is rebuilt when it changes",
]
