import corpus

PLAN_QUICK = [('exc', ['mif4']), ('ctx', ['mif1']), ('ctx', ['v1', 'v4']), ('exc', ['v1', 'v0', 'v4', 'lazy1'])]
PLAN_THOROUGH = [('exc', ['mif4', 'mif1']), ('ctx', ['mif1', 'mif4']), ('conv', ['mif1']), ('ctx', ['v1', 'v4', 'lazy1']), ('exc', ['v1', 'v0', 'v4', 'lazy1', 'nounw1']), ('act', ['v4'])]


def units(tier, seed):
    import os
    import vlib
    from vlib import Unit
    src = os.path.join(vlib.VERIF, "cpp", "drivers", "c05_names.cpp")
    # rule names with characters the name extraction could trip over; one build per compiler (demangle.hpp has one code path each)
    names = [Unit("c05_names_gcc", src=src, kind="plain", shards=1, sharded=False), Unit("c05_names_clang", src=src, kind="cl0", shards=1, sharded=False)]
    return names + corpus.units(PLAN_QUICK if tier == "quick" else PLAN_THOROUGH, tier, seed)


SPEC = {
    "units": units,
    "finish": {
        "rule": "cases = (grammar, input, configuration) over grammars with must/if_must/if_must_else/opt_must/star_must/list_must/raise/try_catch_* and throwing actions (std-derived and non-std exception types) nested in predicates, repetitions and choices. Oracle: exception kind, blamed rule (message), nesting depth and try_catch conversion must equal the reference interpreter's; the position must lie inside the failed attempt observed by the wrapper, be the position function of the prefix, and what() must be source:line:column: message; foreign exceptions must arrive with the serial number they were thrown with. Non-trivial: reference needed more than 3 steps.",
        "floors": {'run:parse_error': 1000, 'run:foreign-exception': 50, 'hook:raise': 1000, 'hook:must_if-raise': 500, 'names:default-message': 38, 'names:custom-message': 4},
        "assumptions": ["reference interpreter's evaluation order is the PEG evaluation order"],
    },
}
