import corpus

PLAN_QUICK = [("state", ["v5", "v1", "lazy5"]), ("ctx", ["v5"])]
PLAN_THOROUGH = [("state", ["v5", "v1", "lazy5", "all5", "v4"]), ("ctx", ["v5", "lazy5"]), ("act", ["v5"]), ("exc", ["v5"])]


def units(tier, seed):
    return corpus.units(PLAN_QUICK if tier == "quick" else PLAN_THOROUGH, tier, seed)


SPEC = {
    "units": units,
    "finish": {
        "rule": "cases = (grammar, input, attachment): grammars with state< S, R... > rules, action< B, ... >, control< B, ... >, enable/disable, and change_state / change_states / change_action / change_action_and_state / change_control / enable_action / disable_action attached to arbitrary visible rules, nested with backtracking, predicates, must failures and try_catch. "
                "Trace specification over the state log against the wrapper events: a state is constructed once, before any nested invocation of the rule that carries it, with the entry cursor and the enclosing state; destroyed before that invocation ends; success() exactly once with the match-end cursor and the enclosing state iff the rule matched (and, for the action-based variants, actions are enabled), never on failure or exception; every action receives the innermost live state; "
                "actions and hooks carry the family (A/B) of the innermost enclosing switch and nothing persists after the rule; the surviving scopes and the families of the surviving actions equal the reference interpreter's. Non-trivial: reference needed more than 3 steps.",
        "floors": {"state:ctor": 5000, "state:success": 1000, "state:dtor": 5000, "scopes:surviving": 500, "action:apply": 1000},
        "assumptions": ["state types whose constructors have side effects on the outer states are out of reach", "change_action_and_states is not generated"],
    },
}
