from props import driver

RULES = ["URI", "URI_reference", "absolute_URI", "IPv4address", "IPv6address"]


def _floors():
    f = {}
    for r in RULES:
        f["%s|acc|*" % r] = 1000
        f["%s|rej|*" % r] = 1000
        f["exact-size-runs|%s" % r] = 100000
    # every alternative of the IPv6address production, with every possible number of groups before "::",
    # with a 16-bit and with a dotted-quad tail
    for tail in ("hex", "v4"):
        f["v6|alt1|L-|%s" % tail] = 1
    for alt in range(2, 8):
        for left in range(0, alt - 1):
            for tail in ("hex", "v4"):
                f["v6|alt%d|L%d|%s" % (alt, left, tail)] = 1
    for left in range(0, 7):
        f["v6|alt8|L%d|hex" % left] = 1
    for left in range(0, 8):
        f["v6|alt9|L%d|hex" % left] = 1
    # host kinds seen by the three URI rules
    for r in RULES[:3]:
        for h in ("regname", "ipv4", "ipv4-prefix-regname", "ipv6", "ipvfuture", "emptyhost", "nohost"):
            f["%s|acc|rfc|%s" % (r, h)] = 20
        for h in ("regname", "ipv4", "ipv4-prefix-regname", "ipv6"):
            f["%s|acc|hostfam|%s" % (r, h)] = 100
        f["%s|rej|hostfam|bad-bracket" % r] = 100
        f["%s|acc|exh|*" % r] = 1000
    f["selfcheck|inet_pton"] = 100000
    f["selfcheck|rfc-derivation"] = 30000
    return f


SPEC = {
    "units": driver("c20_uri", "c20_uri.cpp"),
    "finish": {
        "rule": "inputs: every string of length <= 5 (thorough: 6) over the 16 symbols 'a 1 F : / ? # [ ] @ . % - ~ ! SPACE' and every string of length 6 (thorough: 7) over the 11 symbols 'a 1 : / ? # [ ] @ . %'; a hand-written corpus (the URIs of src/test/pegtl/contrib_uri.cpp, "
                "the examples of RFC 3986, bracket/percent/port/userinfo edge cases); seeded random derivations of URI, relative-ref, absolute-URI and URI-reference from the ABNF "
                "(every host kind, every IPv6address alternative, userinfo, port, all path kinds, query, fragment, pct-encoding) each with 4 (thorough: 6) single-edit mutants "
                "(insert/delete/replace one byte, from an alphabet that includes illegal bytes); a systematic IPv6 family (0-9 groups before and 0-8 after '::' or no '::', 1-5 hex digits per group, "
                "upper/lower/mixed case, leading zeros, dotted-quad tail) and IPv4 family (21 boundary octet spellings incl. 256/300/999/00/01/001/0255: full product in two places, sampled in 3-4 places, "
                "every value 0..300 first and last, 1-5 octets, stray dots), each literal bare and inside http://HOST/, http://HOST:80/x, //HOST, x://u@HOST, plus IPv4address-prefixed reg-names. "
                "Each input runs against all five rules (twice: poisoned digit tail, then exact-size heap block). Inputs are distinct (enumeration; generated inputs are de-duplicated by hash and dropped when they fall "
                "into the enumerated space). A (rule, input) pair counts as non-trivial iff the oracle derives the input from the rule, or the input has length >= 2 and deleting one byte of it gives a string "
                "the oracle derives from the rule (computed for the enumerated, hand-written and IP-family inputs), or the input is a single-edit mutant of a generated string that the oracle derives from the rule.",
        "assumptions": [
            "oracle: cpp/oracles/uri_rfc3986.hpp, a set-of-end-positions (fully backtracking) matcher written from RFC 3986 Appendix A; cross-checked at run time against glibc inet_pton (IPv4/IPv6 literals) and against an independent random deriver of the ABNF",
            "ABNF literals are case-insensitive (RFC 5234): HEXDIG includes a-f, IPvFuture may start with 'V'",
            "inputs longer than 63 bytes are not generated",
        ],
        "floors": _floors(),
        "extra_cov": {"exhaustive_parts": ["all strings up to length 5 (quick) / 6 (thorough) over a 16-symbol URI alphabet and all strings of length 6 (quick) / 7 (thorough) over its 11-symbol core, all five rules"]},
    },
}
