import corpus

PLAN_QUICK = [("ctxf", ["v1", "v0", "plain"]), ("ctx", ["v1", "v0", "v1n", "plain"]), ("core", ["v1", "v2", "v0", "v1n", "plain"])]
PLAN_THOROUGH = [('ctxf', ['v1', 'plain']), ('ctx', ['v1', 'v0', 'v1n', 'plain', 'lazy1']), ('core', ['v1', 'v2', 'v0', 'v1n', 'plain', 'plainoff', 'lazy1', 'gasan1'])]


def units(tier, seed):
    return corpus.units(PLAN_QUICK if tier == "quick" else PLAN_THOROUGH, tier, seed)


SPEC = {
    "units": units,
    "finish": {
        "rule": "cases = (generated grammar, input, configuration): the context matrix (every combinator x sub-rule slot x inherited rewind mode x gadget such as consume-then-fail) and seeded random grammars "
                "over the classical PEG operators, each run on ALL strings up to a length bound over its alphabet plus seeded longer random strings, under the match-wrapping monitor with three different void-action attachments "
                "and without monitor under all four apply_mode x rewind_mode combinations; result and consumed length are compared with the independent reference interpreter. "
                "A case is non-trivial when the reference needed more than 3 evaluation steps; distinct by construction (enumeration of inputs per grammar/configuration).",
        "assumptions": ["reference interpreter cpp/ref/peg_ref.hpp implements the PEG formalism", "grammar/input pairs on which the reference detects a cycle without progress are excluded (they belong to C11)"],
        "floors": {"inv:internal::seq:optional:fail:moved-inside": 50, "inv:internal::sor:required:fail": 50, "inv:internal::plus:optional:fail:moved-inside": 20,
                   "inv:internal::star*": 100, "inv:internal::opt*": 100, "inv:internal::at*": 100, "inv:internal::not_at*": 100, "plain:*": 1000},
    },
}
