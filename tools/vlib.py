#!/usr/bin/env python3
"""Shared machinery of the /verif checks: build cache keyed by the /repo tree, parallel runner with
crash-resume, known-findings matching, evidence and replay files, exit codes.

Exit codes of a check: 0 held on everything explored (KNOWN-FINDING lines may be printed),
1 at least one unlisted violation (one `VIOLATION property=<id> replay=<path>` line each),
2 harness failure or inconclusive run (never folded into 0 or 1).
"""
import concurrent.futures as cf
import hashlib
import json
import os
import shutil
import subprocess
import sys
import time

VERIF = os.path.dirname(os.path.dirname(os.path.abspath(__file__)))
REPO = os.environ.get("PEGTL_ROOT", "/repo")
BUILD = os.path.join(VERIF, "build")
# evidence/ and replays/ of runs against a scratch tree (selftest of the monitors) go elsewhere so that the committed
# evidence always comes from /repo itself
OUT = os.environ.get("VERIF_OUT", VERIF)
NPROC = int(os.environ.get("VERIF_JOBS", str(os.cpu_count() or 4)))
GUARD = "TAO_PEGTL_VERIF"

CLANG = "clang++-14"
GCC = "g++"

BUILD_KINDS = {
    # clang ASan+UBSan: default for every monitored run
    "asan": [CLANG, "-std=c++17", "-O1", "-g0", "-fno-omit-frame-pointer",
             "-fsanitize=address,undefined", "-fno-sanitize=object-size", "-fno-sanitize-recover=all",
             "-D_GLIBCXX_ASSERTIONS", "-D" + GUARD],
    # same with -O0: cheaper to compile for the big generated corpus TUs
    "asan0": [CLANG, "-std=c++17", "-O0", "-g0", "-fno-omit-frame-pointer",
              "-fsanitize=address,undefined", "-fno-sanitize=object-size", "-fno-sanitize-recover=all",
              "-D_GLIBCXX_ASSERTIONS", "-D" + GUARD],
    # clang -O0 without sanitizers (secondary corpus configurations; hooks on)
    "cl0": [CLANG, "-std=c++17", "-O0", "-g0", "-D_GLIBCXX_ASSERTIONS", "-D" + GUARD],
    "gasan0": [GCC, "-std=c++17", "-O0", "-g0", "-fno-omit-frame-pointer",
               "-fsanitize=address,undefined", "-fno-sanitize-recover=all",
               "-D_GLIBCXX_ASSERTIONS", "-D" + GUARD],
    "gasan": [GCC, "-std=c++17", "-O1", "-g0", "-fno-omit-frame-pointer",
              "-fsanitize=address,undefined", "-fno-sanitize-recover=all",
              "-D_GLIBCXX_ASSERTIONS", "-D" + GUARD],
    "fast": [GCC, "-std=c++17", "-O2", "-g0", "-fsanitize=undefined", "-fno-sanitize-recover=all", "-D" + GUARD],
    "plain": [GCC, "-std=c++17", "-O0", "-g0", "-D" + GUARD],
    "plainoff": [GCC, "-std=c++17", "-O0", "-g0"],
    "fuzz": [CLANG, "-std=c++17", "-O1", "-g0", "-fno-omit-frame-pointer",
             "-fsanitize=fuzzer,address,undefined", "-fno-sanitize=object-size", "-fno-sanitize-recover=all",
             "-D_GLIBCXX_ASSERTIONS", "-D" + GUARD],
}

RUN_ENV = {
    "ASAN_OPTIONS": "abort_on_error=1:detect_leaks=1:allocator_may_return_null=1:handle_abort=0:quarantine_size_mb=8",
    "UBSAN_OPTIONS": "print_stacktrace=1:halt_on_error=1",
    "LSAN_OPTIONS": "exitcode=23",
}


def log(*a):
    print(*a, file=sys.stderr, flush=True)


def sha(*parts):
    h = hashlib.sha1()
    for p in parts:
        if isinstance(p, str):
            p = p.encode()
        h.update(p)
        h.update(b"\0")
    return h.hexdigest()


_tree_hash = None


def tree_hash():
    """Hash of every file the monitors compile against in /repo's *working tree*."""
    global _tree_hash
    if _tree_hash is None:
        h = hashlib.sha1()
        roots = [os.path.join(REPO, "include"), os.path.join(REPO, "src", "example", "pegtl")]
        for root in roots:
            for d, dirs, files in sorted(os.walk(root)):
                dirs.sort()
                for f in sorted(files):
                    if root.endswith("pegtl") and not f.endswith(".hpp") and "example" in root:
                        continue
                    p = os.path.join(d, f)
                    h.update(os.path.relpath(p, REPO).encode())
                    with open(p, "rb") as fh:
                        h.update(hashlib.sha1(fh.read()).digest())
        _tree_hash = h.hexdigest()[:12]
    return _tree_hash


_common_hash = {}


def common_hash(dirs=("common", "oracles", "mon", "ref")):
    """Hash of the monitor sources a unit depends on (sub-directories of /verif/cpp): any edit rebuilds."""
    dirs = tuple(sorted(dirs))
    if dirs not in _common_hash:
        h = hashlib.sha1()
        for sub in dirs:
            for d, dn, files in sorted(os.walk(os.path.join(VERIF, "cpp", sub))):
                dn.sort()
                for f in sorted(files):
                    p = os.path.join(d, f)
                    h.update(p.encode())
                    with open(p, "rb") as fh:
                        h.update(fh.read())
        _common_hash[dirs] = h.hexdigest()[:12]
    return _common_hash[dirs]


def build_root():
    d = os.path.join(BUILD, tree_hash())
    os.makedirs(d, exist_ok=True)
    try:
        os.utime(d, None)
    except OSError:
        pass
    return d


def prune_builds(keep=2):
    """Drop build directories of older trees and binaries of older monitor versions (disk is limited)."""
    if not os.path.isdir(BUILD):
        return
    cur_root = os.path.join(BUILD, tree_hash())
    for sub in ("bin", "gen", "obj"):
        d = os.path.join(cur_root, sub)
        if os.path.isdir(d):
            now = time.time()
            for f in os.listdir(d):
                fp = os.path.join(d, f)
                try:
                    # files are touched whenever a check uses them; a day without use = an older version of the monitors
                    if now - os.path.getmtime(fp) > 24 * 3600:
                        os.remove(fp)
                except OSError:
                    pass
    ds = [os.path.join(BUILD, x) for x in os.listdir(BUILD) if len(x) == 12 and os.path.isdir(os.path.join(BUILD, x))]
    ds.sort(key=lambda p: os.path.getmtime(p), reverse=True)
    cur = os.path.join(BUILD, tree_hash())
    n = 0
    for d in ds:
        if d == cur:
            continue
        n += 1
        # only trees not used for two hours: a concurrent check on another tree may be using its directory
        if n >= keep and time.time() - os.path.getmtime(d) > 7200:
            shutil.rmtree(d, ignore_errors=True)


class Unit:
    """One binary to build and run. src: path of the main C++ file (others may be listed in extra_src).
    text: if given, generated source written to the build directory first."""

    def __init__(self, name, src=None, text=None, kind="asan", defs=(), args=(), shards=1, extra_src=(), timeout=900, env=None, libs=(), sharded=True, objs=()):
        self.name = name
        self.src = src
        self.text = text
        self.kind = kind
        self.defs = list(defs)
        self.args = list(args)
        self.shards = shards
        self.extra_src = list(extra_src)
        self.timeout = timeout
        self.env = env or {}
        self.libs = list(libs)
        self.binary = None
        self.sharded = sharded
        self.objs = list(objs)     # sources compiled once per build kind into cached object files
        self.deps = ("common", "mon", "ref") if objs else ("common", "oracles")


_obj_cache = {}
_obj_lock = __import__("threading").Lock()


def compile_object(src, kind, defs=()):
    """Compile one grammar-independent source to an object file, once per (tree, flags, content)."""
    flags = BUILD_KINDS[kind]
    with open(src, "rb") as f:
        key = sha(f.read(), common_hash(("common", "mon", "ref")), " ".join(flags), " ".join(defs))[:16]
    odir = os.path.join(build_root(), "obj")
    os.makedirs(odir, exist_ok=True)
    out = os.path.join(odir, "%s-%s-%s.o" % (os.path.basename(src), kind, key))
    with _obj_lock:
        # the memo is only trusted while the file is still there (another process, or prune_builds of a later property in
        # this process, may have removed an object that looked unused)
        if out in _obj_cache and (_obj_cache[out][0] is None or os.path.exists(out)):
            return _obj_cache[out]
        if os.path.exists(out):
            try:
                os.utime(out, None)   # "in use": prune_builds goes by the modification time
            except OSError:
                pass
        else:
            cmd = flags + ["-I" + os.path.join(REPO, "include"), "-I" + os.path.join(REPO, "src", "example", "pegtl"), "-I" + os.path.join(VERIF, "cpp")]
            cmd += ["-D" + d for d in defs] + ["-c", src, "-o", out + ".tmp%d" % os.getpid()]
            p = subprocess.run(cmd, stdout=subprocess.PIPE, stderr=subprocess.STDOUT, text=True)
            if p.returncode != 0:
                _obj_cache[out] = (None, "COMPILE FAILED (%s)\n%s\n%s" % (src, " ".join(cmd), p.stdout[-6000:]))
                return _obj_cache[out]
            os.replace(out + ".tmp%d" % os.getpid(), out)
        _obj_cache[out] = (out, "")
        return _obj_cache[out]


def compile_unit(u):
    flags = BUILD_KINDS[u.kind]
    root = build_root()
    objfiles = []
    for o in u.objs:
        of, err = compile_object(o, u.kind)
        if of is None:
            return (u, False, err)
        objfiles.append(of)
    if u.text is not None:
        gdir = os.path.join(root, "gen")
        os.makedirs(gdir, exist_ok=True)
        key = sha(u.text)[:16]
        u.src = os.path.join(gdir, "%s-%s.cpp" % (u.name.replace("/", "_"), key))
        if not os.path.exists(u.src):
            with open(u.src + ".tmp%d" % os.getpid(), "w") as f:
                f.write(u.text)
            os.replace(u.src + ".tmp%d" % os.getpid(), u.src)
        srckey = key
    else:
        with open(u.src, "rb") as f:
            srckey = sha(f.read())[:16]
    key = sha(srckey, common_hash(u.deps), " ".join(flags), " ".join(u.defs), " ".join(u.extra_src), " ".join(u.libs))[:16]
    bdir = os.path.join(root, "bin")
    os.makedirs(bdir, exist_ok=True)
    out = os.path.join(bdir, "%s-%s-%s" % (u.name.replace("/", "_"), u.kind, key))
    u.binary = out
    if os.path.exists(out):
        try:
            os.utime(out, None)
        except OSError:
            pass
        return (u, True, "")
    cmd = flags + ["-I" + os.path.join(REPO, "include"), "-I" + os.path.join(REPO, "src", "example", "pegtl"),
                   "-I" + os.path.join(VERIF, "cpp"), "-Wno-unused-command-line-argument" if flags[0] == CLANG else "-w"]
    cmd += ["-D" + d for d in u.defs]
    cmd += [u.src] + u.extra_src + objfiles + ["-o", out + ".tmp%d" % os.getpid()] + u.libs
    t0 = time.time()
    p = subprocess.run(cmd, stdout=subprocess.PIPE, stderr=subprocess.STDOUT, text=True)
    if p.returncode != 0:
        return (u, False, "COMPILE FAILED (%s)\n%s\n%s" % (u.name, " ".join(cmd), p.stdout[-6000:]))
    os.replace(out + ".tmp%d" % os.getpid(), out)
    return (u, True, "%.1fs" % (time.time() - t0))


def build_all(units):
    t0 = time.time()
    errs = []
    built = 0
    with cf.ThreadPoolExecutor(max_workers=NPROC) as ex:
        for u, ok, msg in ex.map(compile_unit, units):
            if not ok:
                errs.append(msg)
            elif msg:
                built += 1
    log("[build] %d units (%d compiled, %d cached) in %.1fs" % (len(units), built, len(units) - built, time.time() - t0))
    return errs


def run_shard(u, shard, nshards, tier, seed, outdir):
    """Run one shard to completion, restarting after crashes. Returns list of records + harness errors."""
    recs = []
    errors = []
    resume = -1
    attempts = 0
    while True:
        attempts += 1
        out = os.path.join(outdir, "%s.%d.%d.jsonl" % (os.path.basename(u.binary), shard, attempts))
        if os.path.exists(out):
            os.remove(out)
        cmd = [u.binary, "--tier", tier, "--seed", str(seed), "--shard", str(shard), "--nshards", str(nshards), "--out", out] + u.args
        if resume >= 0:
            cmd += ["--resume-after", str(resume)]
        env = dict(os.environ)
        env.update(RUN_ENV)
        env.update(u.env)
        t0 = time.time()
        try:
            p = subprocess.run(cmd, stdout=subprocess.PIPE, stderr=subprocess.PIPE, env=env, timeout=u.timeout)
            rc = p.returncode
            stderr = p.stderr.decode("utf-8", "replace")
            timed_out = False
        except subprocess.TimeoutExpired as e:
            rc = -9
            stderr = (e.stderr or b"").decode("utf-8", "replace")
            timed_out = True
        got = []
        if os.path.exists(out):
            with open(out) as f:
                for line in f:
                    line = line.strip()
                    if not line:
                        continue
                    try:
                        got.append(json.loads(line))
                    except Exception:
                        errors.append("unparsable record from %s: %r" % (u.name, line[:200]))
            os.remove(out)
        done = any(r.get("t") == "done" for r in got)
        crash = [r for r in got if r.get("t") == "crash"]
        recs += [r for r in got if r.get("t") != "crash"]
        if done and rc == 0:
            break
        if timed_out:
            errors.append("timeout after %ds: %s shard %d" % (u.timeout, u.name, shard))
            break
        if crash and crash[0].get("sig") == 14 and int(crash[0].get("n", 0)) > 0:
            # the wall-clock watchdog fired: on a loaded machine that alone is not a verdict. Re-run the single case once
            # with a generous limit; only a case that hangs again is reported.
            n = int(crash[0]["n"])
            out2 = out + ".rerun"
            cmd2 = [u.binary, "--tier", tier, "--seed", str(seed), "--shard", str(shard), "--nshards", str(nshards), "--out", out2, "--only", str(n)] + u.args
            again = True
            try:
                env2 = dict(env)
                env2["VERIF_CASE_ALARM"] = "1200"   # the binary's own per-case watchdog; the drivers do not have one
                p2 = subprocess.run(cmd2, stdout=subprocess.PIPE, stderr=subprocess.PIPE, env=env2, timeout=1500)
                txt = open(out2).read() if os.path.exists(out2) else ""
                again = ('"t":"crash"' in txt) or p2.returncode != 0
            except subprocess.TimeoutExpired:
                again = True
            if os.path.exists(out2):
                os.remove(out2)
            if not again:
                recs.append({"t": "cov", "evaluations": 0, "nontrivial": 0, "cells": {"watchdog-fired-but-case-finished-on-rerun": 1}, "violcount": {}, "samples": []})
                resume = n
                if attempts >= 10:
                    errors.append("too many watchdog alarms in %s shard %d" % (u.name, shard))
                    break
                continue
        if crash:
            c = crash[0]
            c["stderr"] = stderr[-4000:]
            c["unit"] = u.name
            c["cmd"] = " ".join(cmd)
            recs.append(c)
            if attempts >= 10:
                errors.append("too many crashes in %s shard %d" % (u.name, shard))
                break
            resume = int(c.get("n", 0))
            if resume <= 0:
                errors.append("crash outside any case in %s: %s" % (u.name, stderr[-2000:]))
                break
            continue
        if done and rc != 0:
            # finished all cases but exit code non-zero: leak report or similar at exit
            recs.append({"t": "crash", "n": 0, "prop": None, "label": "at-exit", "extra": "", "data": "", "stderr": stderr[-4000:], "unit": u.name, "cmd": " ".join(cmd), "atexit": True, "rc": rc})
            break
        errors.append("runner %s shard %d ended rc=%s without a 'done' record and without a crash record: %s" % (u.name, shard, rc, stderr[-2000:]))
        break
    return recs, errors


def run_all(units, tier, seed):
    outdir = os.path.join(build_root(), "run.%d" % os.getpid())
    os.makedirs(outdir, exist_ok=True)
    tasks = []
    for u in units:
        n = u.shards if u.sharded else 1
        for s in range(n):
            tasks.append((u, s, n))
    allrecs = []
    errors = []
    t0 = time.time()
    try:
        with cf.ThreadPoolExecutor(max_workers=NPROC) as ex:
            futs = [ex.submit(run_shard, u, s, n, tier, seed, outdir) for (u, s, n) in tasks]
            for (u, s, n), f in zip(tasks, futs):
                recs, errs = f.result()
                for r in recs:
                    r.setdefault("unit", u.name)
                    r["shard"] = s
                    r["nshards"] = n
                    r["binary"] = u.binary
                    r["uargs"] = u.args
                allrecs += recs
                errors += errs
    finally:
        shutil.rmtree(outdir, ignore_errors=True)
    log("[run] %d processes in %.1fs" % (len(tasks), time.time() - t0))
    return allrecs, errors


def load_known():
    p = os.path.join(VERIF, "known_findings.json")
    if not os.path.exists(p):
        return []
    with open(p) as f:
        return json.load(f).get("findings", [])


def crash_key(r):
    """Stable key for a sanitizer abort / signal: property | unit label | kind of report."""
    st = r.get("stderr", "")
    kind = "abort"
    for pat, k in (("heap-buffer-overflow", "heap-buffer-overflow"), ("use-after-poison", "use-after-poison"),
                   ("stack-buffer-overflow", "stack-buffer-overflow"), ("heap-use-after-free", "heap-use-after-free"),
                   ("runtime error:", "ubsan"), ("LeakSanitizer", "leak"), ("SEGV", "segv"), ("stack-overflow", "stack-overflow"),
                   ("terminate called", "terminate"), ("Assertion", "assertion")):
        if pat in st:
            kind = k
            break
    if r.get("sig") == 14:
        kind = "hang"
    if kind == "ubsan":
        # add the ubsan message class and source file:line (stable call site)
        for line in st.splitlines():
            if "runtime error:" in line:
                loc = line.split(": runtime error:")[0].split("/")[-1]
                loc = ":".join(loc.split(":")[:2])
                msg = line.split("runtime error:")[1].strip()
                msg = " ".join(w for w in msg.split() if not any(ch.isdigit() for ch in w))[:60]
                kind = "ubsan:%s:%s" % (loc, msg)
                break
    return "%s|%s|%s" % (r.get("prop") or "C03", r.get("label", ""), kind)


def select_cells(cells, limit=500):
    """Evidence keeps every summary cell and as many per-rule / per-matrix-cell counters as fit."""
    pri = {k: v for k, v in cells.items() if not (k.startswith("inv:") or k.startswith("ctx:"))}
    rest = sorted((k, v) for k, v in cells.items() if k not in pri)
    out = dict(sorted(pri.items())[:limit])
    room = max(0, limit - len(out))
    step = max(1, len(rest) // room) if room else 0
    if step:
        for k, v in rest[::step][:room]:
            out[k] = v
    out["(distinct cells observed)"] = len(cells)
    out["(distinct ctx-matrix cells observed)"] = sum(1 for k in cells if k.startswith("ctx:"))
    out["(distinct rule x mode x outcome tuples observed)"] = sum(1 for k in cells if k.startswith("inv:"))
    return out


def finish(prop, tier, seed, recs, errors, t0, rule, level_text=None, floors=None, extra_cov=None, exhaustive=None, assumptions=None, nontrivial_cells=None, replay_hint=None):
    """Classify violations against known findings, write replay + evidence, print verdict lines, return exit code."""
    known = [k for k in load_known() if k.get("property") == prop and k.get("status", "known") == "known"]
    known_keys = {k["key"]: k for k in known}
    viols = {}
    cells = {}
    violcount = {}
    samples = []
    evaluations = 0
    nontrivial = 0
    for r in recs:
        t = r.get("t")
        if t == "viol":
            if r.get("prop") != prop:
                # a violation of another property seen by a shared monitor: only noted
                cells["other-property-violations:" + str(r.get("prop"))] = cells.get("other-property-violations:" + str(r.get("prop")), 0) + 1
                continue
            viols.setdefault(r["key"], []).append(r)
        elif t == "crash":
            # a sanitizer report / abort / hang during this check's runs always counts against this check
            r["prop"] = prop
            k = crash_key(r)
            r["key"] = k
            r["what"] = "sanitizer/abort: " + k + " :: " + (r.get("stderr", "").strip().splitlines() or [""])[0][:300]
            viols.setdefault(k, []).append(r)
        elif t == "cov":
            evaluations += r.get("evaluations", 0)
            nontrivial += r.get("nontrivial", 0)
            for k, v in r.get("cells", {}).items():
                cells[k] = cells.get(k, 0) + v
            for k, v in r.get("violcount", {}).items():
                violcount[k] = violcount.get(k, 0) + v
            for s in r.get("samples", []):
                if len(samples) < 12:
                    samples.append(s)
    if nontrivial_cells is not None:
        nontrivial = sum(1 for k, v in cells.items() if v > 0 and k.startswith(nontrivial_cells))
    os.makedirs(os.path.join(OUT, "replays"), exist_ok=True)
    os.makedirs(os.path.join(OUT, "evidence"), exist_ok=True)
    nviol = 0
    nknown = 0
    lines = []
    for old in os.listdir(os.path.join(OUT, "replays")):
        if old.startswith(prop + "-"):
            os.remove(os.path.join(OUT, "replays", old))
    for key, rs in sorted(viols.items()):
        r = rs[0]
        if key in known_keys:
            nknown += 1
            lines.append("KNOWN-FINDING: property=%s %s [key=%s, seen %d times this run]" % (prop, known_keys[key]["what"], key, violcount.get(key, len(rs))))
            continue
        nviol += 1
        rp = os.path.join(OUT, "replays", "%s-%s.json" % (prop, sha(key)[:10]))
        rep = {"property": prop, "key": key, "what": r.get("what"), "seed": seed, "tier": tier, "unit": r.get("unit"),
               "binary": r.get("binary"), "args": r.get("uargs"), "shard": r.get("shard"), "nshards": r.get("nshards"), "case": r.get("n"),
               "data_hex": r.get("data"), "label": r.get("label"), "replay": r.get("replay"), "stderr": r.get("stderr"),
               "count_this_run": violcount.get(key, len(rs)),
               "rerun": "%s --tier %s --seed %s --shard %s --nshards %s --only %s %s" % (r.get("binary"), tier, seed, r.get("shard"), r.get("nshards"), r.get("n"), " ".join(r.get("uargs") or []))}
        with open(rp, "w") as f:
            json.dump(rep, f, indent=1)
        if nviol <= 8:
            lines.append("VIOLATION property=%s replay=%s" % (prop, rp))
            log("  violation key=%s: %s" % (key, r.get("what")))
        elif nviol == 9:
            log("  ... further violation keys are only written to replay files and evidence")
    inconclusive = list(errors)
    if floors:
        for cell, minimum in floors.items():
            got = sum(v for k, v in cells.items() if k == cell or (cell.endswith("*") and k.startswith(cell[:-1])))
            if got < minimum:
                inconclusive.append("coverage floor not met: %s observed %d < %d" % (cell, got, minimum))
    if evaluations < 1 or nontrivial < 2:
        inconclusive.append("monitor observed too little: evaluations=%d nontrivial=%d" % (evaluations, nontrivial))
    cov = {"evaluations": evaluations, "distinct_nontrivial": nontrivial, "rule": rule, "samples": samples[:12] or ["(none)"],
           "observed": select_cells(cells),
           "known_findings_seen": nknown, "violation_keys": sorted(viols.keys())[:50]}
    if exhaustive is not None:
        cov["exhaustive"] = bool(exhaustive)
    if extra_cov:
        cov.update(extra_cov)
    ev = {"property_id": prop, "tier": tier, "seed": seed, "level": "exploration", "coverage": cov,
          "assumptions": assumptions or [], "wall_s": round(time.time() - t0, 2), "violations": nviol,
          "tree": tree_hash(), "inconclusive": inconclusive}
    with open(os.path.join(OUT, "evidence", "%s.json" % prop), "w") as f:
        json.dump(ev, f, indent=1)
    if os.environ.get("VERIF_DEBUG"):
        with open(os.path.join(BUILD, "last_cells_%s.json" % prop), "w") as f:
            json.dump({"cells": cells, "violcount": violcount, "other": [r for r in recs if r.get("t") == "viol" and r.get("prop") != prop][:200]}, f, indent=1)
    for l in lines:
        print(l)
    print("%s: tier=%s seed=%s evaluations=%d distinct_nontrivial=%d violations=%d known=%d wall=%.1fs" % (prop, tier, seed, evaluations, nontrivial, nviol, nknown, time.time() - t0))
    sys.stdout.flush()
    if nviol:
        return 1
    if inconclusive:
        for e in inconclusive:
            print("INCONCLUSIVE %s: %s" % (prop, e))
        return 2
    return 0
