"""Corpus units: generated grammar TUs x monitor configurations. All corpus properties draw from the
same standard sets so that their binaries are shared through the build cache."""
import os
import sys

import vlib
from vlib import Unit

sys.path.insert(0, os.path.join(vlib.VERIF, "gen"))
import grammar_gen  # noqa: E402

MON_OBJ = os.path.join(vlib.VERIF, "cpp", "mon", "monitor.cpp")

# configuration name -> (build kind, defines)
CONFIGS = {
    "v0": ("cl0", ["MON_VARIANT=0"]),                  # monitor control, no actions
    "v1": ("asan0", ["MON_VARIANT=1"]),                # void apply/apply0 mix, ASan+UBSan
    "v2": ("cl0", ["MON_VARIANT=2"]),                  # another void mix
    "v1n": ("cl0", ["MON_VARIANT=1", "MON_TOP_NOTHING"]),   # void actions attached, top-level apply_mode::nothing + rewind_mode::required
    "v2n": ("cl0", ["MON_VARIANT=2", "MON_TOP_NOTHING"]),
    "v3": ("cl0", ["MON_VARIANT=3"]),                  # void + bool veto
    "v4": ("asan0", ["MON_VARIANT=4"]),                # void + veto + throwing (std and non-std)
    "v5": ("asan0", ["MON_VARIANT=5"]),                # void + state/action/control switches (C13)
    "lazy5": ("cl0", ["MON_VARIANT=5", "MON_LAZY=1"]),
    "all5": ("cl0", ["MON_VARIANT=5", "MON_CTRL=3"]),
    # input classes / buffering (C07): plain recording actions, no frame monitor
    "bufA1": ("asan0", ["MON_BUF", "MON_BUFSET=0", "MON_VARIANT=1"]),
    "bufA3": ("asan0", ["MON_BUF", "MON_BUFSET=0", "MON_VARIANT=3"]),
    "bufB1": ("asan0", ["MON_BUF", "MON_BUFSET=1", "MON_VARIANT=1"]),
    # the facilities built on the hooks, with the monitor control wrapped by state_control (C08)
    "cov4": ("asan0", ["MON_CLIENT=1", "MON_VARIANT=4"]),
    "cov3": ("cl0", ["MON_CLIENT=1", "MON_VARIANT=3"]),
    "trace4": ("cl0", ["MON_CLIENT=3", "MON_VARIANT=4"]),
    "strace1": ("cl0", ["MON_CLIENT=2", "MON_VARIANT=1"]),
    # monitor control on top of must_if< Errors >::control (C05, C08)
    "mif4": ("cl0", ["MON_MUSTIF", "MON_VARIANT=4"]),
    "mif1": ("asan0", ["MON_MUSTIF", "MON_VARIANT=1"]),
    # the run is started from a destructor during stack unwinding (std::uncaught_exceptions() > 0 throughout)
    "infl4": ("cl0", ["MON_INFLIGHT", "MON_VARIANT=4"]),
    "inflcov": ("cl0", ["MON_INFLIGHT", "MON_CLIENT=1", "MON_VARIANT=4"]),
    "covmif": ("cl0", ["MON_CLIENT=1", "MON_MUSTIF", "MON_VARIANT=1"]),     # coverage<> around a control whose failure() raises
    "treemif": ("cl0", ["MON_TREE", "MON_MUSTIF", "MON_VARIANT=0", "MON_SELV=1"]),   # parse_tree around such a control
    "gana": ("plain", ["MON_ANA", "MON_VARIANT=0"]),   # the same with g++ (demangle.hpp has one code path per compiler)
    "ana": ("cl0", ["MON_ANA", "MON_VARIANT=0"]),      # analyze< G >() + fuel-limited monitored run on reference loop witnesses (C11)
    "lazy1": ("cl0", ["MON_VARIANT=1", "MON_LAZY=1"]),
    "lazy3": ("cl0", ["MON_VARIANT=3", "MON_LAZY=1"]),
    "plain": ("cl0", ["MON_PLAIN", "MON_VARIANT=0"]),  # nothing/normal, 4 apply x rewind combinations
    "plainoff": ("plainoff", ["MON_PLAIN", "MON_VARIANT=0"]),   # same, compiled WITHOUT the hook guard
    "all1": ("cl0", ["MON_VARIANT=1", "MON_CTRL=3"]),  # hooks for internal rules too, with unwind
    "nounw1": ("cl0", ["MON_VARIANT=4", "MON_CTRL=0"]),  # control without unwind()
    "lazyeol4": ("cl0", ["MON_VARIANT=1", "MON_EOL=4", "MON_LAZY=1"]),
    "lazyeol2": ("cl0", ["MON_VARIANT=1", "MON_EOL=2", "MON_LAZY=1"]),
    "eol0": ("cl0", ["MON_VARIANT=1", "MON_EOL=0"]),
    "eol1": ("cl0", ["MON_VARIANT=1", "MON_EOL=1"]),
    "eol2": ("cl0", ["MON_VARIANT=1", "MON_EOL=2"]),
    "eol4": ("cl0", ["MON_VARIANT=1", "MON_EOL=4"]),
    "gasan1": ("gasan0", ["MON_VARIANT=1"]),
    # parse_tree::parse with the monitor control underneath; MON_SELV picks the selector table
    "tree0": ("asan0", ["MON_TREE", "MON_VARIANT=0", "MON_SELV=0"]),        # all rules selected, no actions
    "tree1": ("cl0", ["MON_TREE", "MON_VARIANT=1", "MON_SELV=1"]),          # random subset, void actions
    "tree2": ("cl0", ["MON_TREE", "MON_VARIANT=3", "MON_SELV=2"]),          # subset + transformers, vetoing actions
    "tree3": ("cl0", ["MON_TREE", "MON_VARIANT=4", "MON_SELV=3"]),          # sparse / chain-directed selection, throwing actions
    "treelazy": ("cl0", ["MON_TREE", "MON_VARIANT=0", "MON_SELV=0", "MON_LAZY=1"]),
}

# standard corpus sizes: profile -> (quick count, thorough count)
SIZES = {
    "ctx": (348, 0),        # quick: every (template, slot) x 4 key gadgets, all six inherited-mode contexts each; 0 = all 8 gadgets
    "ctxf": (392, 0),       # filler matrix: (template, slot, filler in eof/success/failure/any/dup) x 2 gadgets; 0 = all 8 gadgets
    "core": (100, 400),
    "conv": (100, 400),
    "exc": (80, 320),
    "act": (80, 320),
    "tree": (60, 240),
    "state": (100, 400),
    "cyc": (900, 0),
    "cycn": (28, 28),
    "buf": (100, 300),
    "contrib": (60, 240),
    "atoms": (42, 210),
    "chain": (0, 0),
}

_tu_cache = {}


def tus(profile, seed, tier):
    key = (profile, seed, tier)
    if key not in _tu_cache:
        q, t = SIZES[profile]
        n = q if tier == "quick" else t
        _tu_cache[key] = grammar_gen.make_tus(profile, seed, n)
    return _tu_cache[key]


def units(plan, tier, seed):
    """plan: list of (profile, [config names])"""
    us = []
    for profile, cfgs in plan:
        for (name, text, ng) in tus(profile, seed, tier):
            for c in cfgs:
                kind, defs = CONFIGS[c]
                us.append(Unit("%s-%s" % (name, c), text=text, kind=kind, defs=defs, objs=[MON_OBJ], sharded=False, timeout=1800))
    return us
