"""Registry: property id -> how to build its monitor binaries and how to summarise what they observed.
Each property has a module tools/specs/<ID>.py defining SPEC = {"units": f(tier, seed) -> [Unit], "finish": {...}, "post": optional}."""
import importlib.util
import os

import vlib
from vlib import Unit

D = os.path.join(vlib.VERIF, "cpp", "drivers")


def driver(name, src, kind="asan", shards=16, **kw):
    """Single hand-written driver binary, sharded over the cores."""
    def f(tier, seed):
        return [Unit(name, src=os.path.join(D, src), kind=kind, shards=shards, **kw)]
    return f


PROPS = {}
_sd = os.path.join(os.path.dirname(os.path.abspath(__file__)), "specs")
for _f in sorted(os.listdir(_sd)):
    if _f.endswith(".py") and _f[0] == "C":
        _spec = importlib.util.spec_from_file_location("specs_" + _f[:-3], os.path.join(_sd, _f))
        _m = importlib.util.module_from_spec(_spec)
        _spec.loader.exec_module(_m)
        PROPS[_f[:-3]] = _m.SPEC
