#!/usr/bin/env python3
"""Writes seeded/<id>/meta.json and prints the markdown tables for DESIGN.md section 8 from the evaluation logs in
selftest/results/ (later files override earlier ones for the same (change, check) pair)."""
import ast
import json
import os
import re
import sys

HERE = os.path.dirname(os.path.abspath(__file__))
VERIF = os.path.dirname(HERE)
sys.path.insert(0, HERE)
from seed_info import INFO  # noqa: E402

REBASED = {"C03-1": "rebased onto the repaired tree (the original patch edited the expression that fix 798df85 rewrote; same mechanism: the 'size > 1' conjunct is dropped)"}


def parse_results():
    res = {}   # name -> prop -> (status, keys, source file)
    for fn in sorted(os.listdir(os.path.join(HERE, "results"))):
        cur = None
        for line in open(os.path.join(HERE, "results", fn)):
            line = line.rstrip("\n")
            m = re.match(r"^=== (\S+)", line)
            if m:
                cur = m.group(1)
                continue
            m = re.match(r"^(C\d+): (caught|MISSED|HARNESS/INCONCLUSIVE)\b.*?keys=(\[.*)$", line)
            if m and cur:
                keys_txt = m.group(3)
                keys = re.findall(r"'([^']+)'|\"([^\"]+)\"", keys_txt)
                keys = [a or b for a, b in keys]
                res.setdefault(cur, {})[m.group(1)] = (m.group(2), keys, fn)
    return res


def main():
    res = parse_results()
    rows = []
    for sid in sorted(INFO):
        d = os.path.join(VERIF, "seeded", sid)
        if not os.path.isdir(d):
            continue
        prop = sid.split("-")[0]
        what, needs = INFO[sid]
        det = {}
        for p, (st, keys, fn) in sorted(res.get(sid, {}).items()):
            det[p] = {"status": "caught" if st == "caught" else ("missed" if st == "MISSED" else "inconclusive"), "keys": keys[:6], "log": "selftest/results/" + fn}
        meta = {
            "id": sid,
            "property": prop,
            "origin": "written by an independent sub-agent that was given only the text of the property and its own scratch git worktree of /repo (nothing from /verif)",
            "change": what,
            "needs_to_manifest": needs,
            "confirmed_by_me": {
                "how": "selftest/confirm_seed.sh %s %s in the scratch worktree /tmp/seed/%s: git apply --check; demo compiled and run on the clean tree and with the change; cmake -G Ninja -DPEGTL_BUILD_EXAMPLES=OFF + build + ctest with the change" % (prop, sid.split("-")[1], prop),
                "tests_with_change": "134/134 passed",
                "demo_with_change": "fails (non-zero exit)",
                "demo_without_change": "passes (exit 0)",
            },
            "checks_run_against_it": "python3 selftest/eval_seed.py seeded/%s/patch.diff <IDs>  (scratch copy of /repo + patch, PEGTL_ROOT; equivalent to: git -C /repo apply seeded/%s/patch.diff; python3 tools/check.py <ID>; git -C /repo checkout -- .)" % (sid, sid),
            "detected_by": det,
        }
        if sid in REBASED:
            meta["note"] = REBASED[sid]
        with open(os.path.join(d, "meta.json"), "w") as f:
            json.dump(meta, f, indent=1)
        own = det.get(prop, {})
        others = ["%s %s" % (p, v["status"]) for p, v in det.items() if p != prop]
        rows.append("| %s | %s | %s | %s | %s |" % (sid, what.replace("|", "\\|"), needs.replace("|", "\\|"), ("**%s**" % own.get("status", "not run")) + (": `" + "`, `".join(k.replace("|", "\\|") for k in own.get("keys", [])[:2]) + "`" if own.get("keys") else ""), "; ".join(others)))
    print("| change | what it is | needs to manifest | check of its property (quick tier) | other checks run |")
    print("|---|---|---|---|---|")
    print("\n".join(rows))
    print()
    print("| mutant (selftest/mutants) | checks run -> result |")
    print("|---|---|")
    for name in sorted(k for k in res if k.startswith("m")):
        print("| %s | %s |" % (name, "; ".join("%s %s%s" % (p, "caught" if v[0] == "caught" else ("missed" if v[0] == "MISSED" else "inconclusive"), (" (`" + v[1][0].replace("|", "\\|") + "`)") if v[1] else "") for p, v in sorted(res[name].items()))))


if __name__ == "__main__":
    main()
