#!/usr/bin/env python3
"""Replaces the generated tables of DESIGN.md section 8 with the output of make_seed_meta.py (which also rewrites seeded/*/meta.json)."""
import os
import subprocess
import sys

HERE = os.path.dirname(os.path.abspath(__file__))
VERIF = os.path.dirname(HERE)


def main():
    out = subprocess.run([sys.executable, os.path.join(HERE, "make_seed_meta.py")], stdout=subprocess.PIPE, text=True, check=True).stdout
    seeds, mutants = out.split("\n\n", 1)
    p = os.path.join(VERIF, "DESIGN.md")
    lines = open(p).read().split("\n")

    def replace(header_prefix, new_block):
        start = next(i for i, l in enumerate(lines) if l.startswith(header_prefix))
        end = start
        while end < len(lines) and lines[end].startswith("|"):
            end += 1
        lines[start:end] = new_block.strip("\n").split("\n")

    replace("| change | what it is |", seeds)
    replace("| mutant (selftest/mutants) |", mutants)
    open(p, "w").write("\n".join(lines))


if __name__ == "__main__":
    main()
