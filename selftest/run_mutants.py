#!/usr/bin/env python3
"""Runs every patch in selftest/mutants against the checks that are expected to notice it (not a registered check).
Usage: python3 selftest/run_mutants.py [name-substring ...]"""
import os
import subprocess
import sys

HERE = os.path.dirname(os.path.abspath(__file__))
EXPECT = {
    "m01_sor_inherited_mode": ["C01", "C02"],
    "m02_seq_no_guard": ["C01", "C02"],
    "m04_at_keeps_apply_mode": ["C04"],
    "m05_apply_with_current_start": ["C04"],
    "m06_plus_loop_optional": ["C01", "C02"],
    "m07_until_no_rewind": ["C02", "C09"],
    "m08_rep_min_max_no_not_at": ["C09"],
    "m09_bump_help_in_this_line": ["C06"],
    "m14_state_success_on_failure": ["C13"],
    "m15_parse_tree_no_pop_on_failure": ["C12"],
    "m16_analyze_star_without_name": ["C11"],
    "m17_unwind_guard_skips_action": ["C08"],
    "m18_opt_must_inherited_mode": ["C09", "C01"],
    "m19_change_state_success_when_disabled": ["C13"],
    "m20_rematch_outer_end": ["C09", "C03"],
    "m21_try_catch_no_rewind": ["C02", "C05"],
    "m22_enable_action_noop": ["C13", "C04"],
    "m23_if_then_else_no_guard": ["C02", "C09"],
    "m24_lazy_position_wrong_eol": ["C06"],
    "m25_must_raise_wrong_rule": ["C05", "C09"],
    "m26_list_tail_no_trailing": ["C09"],
}


def main():
    sel = sys.argv[1:]
    for name in sorted(EXPECT):
        if sel and not any(s in name for s in sel):
            continue
        print("=== %s" % name, flush=True)
        subprocess.call([sys.executable, os.path.join(HERE, "eval_seed.py"), os.path.join(HERE, "mutants", name + ".diff")] + EXPECT[name])


if __name__ == "__main__":
    main()
