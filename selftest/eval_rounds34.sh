#!/bin/bash
# evaluation of the seeded changes of rounds three and four with the machinery as committed: each change against the
# check of its own property (plus the neighbouring check that is known to report it). Output format: selftest/make_seed_meta.py
cd "$(dirname "$0")/.."
ev() { s=$1; shift; echo "=== $s"; python3 selftest/eval_seed.py seeded/$s/patch.diff "$@" 2>&1 | grep -v "^WARNING" | grep -v "^RESULT"; }
# drivers first (fast)
for id in C10 C14 C15 C16 C17 C18 C19 C20 C11; do ev $id-3 $id; ev $id-4 $id; done
ev C19-3 C18
ev C03-3 C03
ev C03-4 C03
for id in C01 C02 C05 C06 C07 C08 C09 C12 C13; do ev $id-3 $id; ev $id-4 $id; done
ev C04-3 C04
ev C04-4 C04 C06
