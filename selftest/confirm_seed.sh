#!/bin/bash
# confirm one seeded change produced by an independent agent: tests pass with it, demo fails with it and passes without it.
# usage: confirm_seed.sh C01 1     (uses the scratch worktree /tmp/seed/C01 and /tmp/seed/C01/out/1)
set -u
ID=$1; K=$2; W=/tmp/seed/$ID; O=$W/out/$K
cd $W || exit 2
git checkout -q -- . || exit 2
git apply --check $O/patch.diff || { echo "$ID/$K: PATCH DOES NOT APPLY"; exit 1; }
# demo on the clean tree
g++ -std=c++17 -I$W/include -I$W/src/example/pegtl $O/demo.cpp -o $O/demo_clean 2>$O/demo_clean.err || { echo "$ID/$K: demo does not compile on the clean tree"; exit 1; }
( cd $O && timeout 600 ./demo_clean >/dev/null 2>&1 ); RC_CLEAN=$?
git apply $O/patch.diff
g++ -std=c++17 -I$W/include -I$W/src/example/pegtl $O/demo.cpp -o $O/demo_mut 2>$O/demo_mut.err || { echo "$ID/$K: demo does not compile with the change"; git checkout -q -- .; exit 1; }
( cd $O && timeout 600 ./demo_mut >/dev/null 2>&1 ); RC_MUT=$?
cmake -G Ninja -S . -B _build -DPEGTL_BUILD_EXAMPLES=OFF >/dev/null 2>&1
cmake --build _build -j${J:-5} >$O/build.log 2>&1; RC_BUILD=$?
TESTS=$(ctest --test-dir _build -j${J:-5} --timeout 900 2>&1 | grep -E "tests passed|tests failed" | tail -1)
git checkout -q -- .
rm -f $O/demo_clean $O/demo_mut
echo "$ID/$K: demo clean rc=$RC_CLEAN, demo with change rc=$RC_MUT, build rc=$RC_BUILD, $TESTS"
