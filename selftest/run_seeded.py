#!/usr/bin/env python3
"""Runs the check of the targeted property (plus optional extra ones) against every seeded change in /verif/seeded.
Usage: python3 selftest/run_seeded.py [seed-dir-substring ...]   (extra properties: SEED_EXTRA="C02 C09")"""
import os
import subprocess
import sys

HERE = os.path.dirname(os.path.abspath(__file__))
SEEDED = os.path.join(os.path.dirname(HERE), "seeded")


def main():
    sel = sys.argv[1:]
    extra = os.environ.get("SEED_EXTRA", "").split()
    for d in sorted(os.listdir(SEEDED)):
        if not os.path.isdir(os.path.join(SEEDED, d)) or (sel and not any(s in d for s in sel)):
            continue
        prop = d.split("-")[0]
        print("=== %s" % d, flush=True)
        subprocess.call([sys.executable, os.path.join(HERE, "eval_seed.py"), os.path.join(SEEDED, d, "patch.diff"), prop] + [e for e in extra if e != prop])


if __name__ == "__main__":
    main()
