#!/usr/bin/env python3
"""Self-validation of the monitors: run checks against a scratch copy of /repo with one seeded change applied.

  python3 selftest/eval_seed.py <patch.diff> C02 C09 ...      (ALL = every property)

The scratch copy lives outside /repo and /verif, is handed to the checks through PEGTL_ROOT, and is removed with its
build output afterwards; evidence and replay files of these runs go to a scratch VERIF_OUT directory so that the
committed evidence always comes from /repo itself. Prints one line per property: caught / MISSED, exit code, keys.
(The same can be done in place: git -C /repo apply <patch>; python3 tools/check.py <ID>; git -C /repo checkout -- .)"""
import json
import os
import shutil
import subprocess
import sys
import tempfile

VERIF = os.path.dirname(os.path.dirname(os.path.abspath(__file__)))
sys.path.insert(0, os.path.join(VERIF, "tools"))


def main():
    patch = os.path.abspath(sys.argv[1])
    props = sys.argv[2:]
    tier = os.environ.get("VERIF_TIER", "quick")
    scratch = tempfile.mkdtemp(prefix="evalseed.", dir="/tmp")
    out = os.path.join(scratch, "out")
    os.makedirs(out)
    try:
        root = os.path.join(scratch, "tree")
        os.makedirs(os.path.join(root, "src", "example"))
        shutil.copytree("/repo/include", os.path.join(root, "include"))
        shutil.copytree("/repo/src/example/pegtl", os.path.join(root, "src", "example", "pegtl"))
        p = subprocess.run(["patch", "-p1", "-s", "-d", root, "-i", patch], stdout=subprocess.PIPE, stderr=subprocess.STDOUT, text=True)
        if p.returncode != 0:
            print("PATCH DOES NOT APPLY: %s" % p.stdout)
            return 2
        env = dict(os.environ)
        env["PEGTL_ROOT"] = root
        env["VERIF_OUT"] = out
        import vlib
        if props == ["ALL"]:
            import props as pr
            props[:] = sorted(pr.PROPS)
        results = {}
        for pid in props:
            r = subprocess.run([sys.executable, os.path.join(VERIF, "tools", "check.py"), pid, "--tier", tier], env=env, stdout=subprocess.PIPE, stderr=subprocess.PIPE, text=True)
            keys = []
            evp = os.path.join(out, "evidence", "%s.json" % pid)
            if os.path.exists(evp):
                with open(evp) as f:
                    ev = json.load(f)
                keys = ev["coverage"].get("violation_keys", [])
            known = [l for l in r.stdout.splitlines() if l.startswith("KNOWN-FINDING")]
            nviol = len([l for l in r.stdout.splitlines() if l.startswith("VIOLATION")])
            # keys that are listed known findings do not count as detection
            kf = {k["key"] for k in json.load(open(os.path.join(VERIF, "known_findings.json")))["findings"]}
            newkeys = [k for k in keys if k not in kf]
            status = "caught" if r.returncode == 1 and nviol else ("HARNESS/INCONCLUSIVE rc=%d" % r.returncode if r.returncode == 2 else "MISSED")
            print("%s: %s rc=%d violations=%d keys=%s" % (pid, status, r.returncode, nviol, newkeys[:6]), flush=True)
            if r.returncode == 2:
                print("   " + "\n   ".join(r.stdout.strip().splitlines()[-4:]))
            results[pid] = {"status": status, "rc": r.returncode, "keys": newkeys[:12]}
        print("RESULT " + json.dumps(results))
        # remove the build output of the scratch tree
        os.environ["PEGTL_ROOT"] = root
        sys.path.insert(0, os.path.join(VERIF, "tools"))
        th = subprocess.run([sys.executable, "-c", "import sys; sys.path.insert(0, %r); import vlib; print(vlib.tree_hash())" % os.path.join(VERIF, "tools")], env=env, stdout=subprocess.PIPE, text=True).stdout.strip()
        if th and len(th) == 12:
            shutil.rmtree(os.path.join(VERIF, "build", th), ignore_errors=True)
    finally:
        shutil.rmtree(scratch, ignore_errors=True)
    return 0


if __name__ == "__main__":
    sys.exit(main())
